#!/bin/bash
# C09 (borderline): output produced by find before the -exec action is still buffered when CMD runs,
# so CMD's effects appear before the effects of earlier actions on the same file.
BIN=${1:?usage: repro.sh DIR_WITH_BINARIES}; BIN=$(cd "$BIN" && pwd)
T=$(mktemp -d); trap 'rm -rf "$T"' EXIT; cd "$T"
mkdir t; touch t/1
out=$("$BIN/find" t -name 1 -printf 'BEFORE:%p ' -exec echo EXEC {} \; | tr '\n' '|')
echo "command : find t -name 1 -printf 'BEFORE:%p ' -exec echo EXEC {} \; | cat"
echo "expected: CMD runs at that point of the evaluation, after -printf: 'BEFORE:t/1 EXEC t/1|' (GNU flushes before forking)"
echo "actual  : '$out'"
[ "$out" = "BEFORE:t/1 EXEC t/1|" ] && exit 0
echo "VIOLATION: observable order of -printf and -exec effects is reversed"; exit 1
