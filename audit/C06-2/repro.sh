#!/bin/bash
# C06: with -I the size limits are checked before substitution; the substituted command line is handed to exec unchecked
BIN=${1:?usage: repro.sh <dir with find and xargs>}
X="$BIN/xargs"
T=$(mktemp -d); trap 'rm -rf "$T"' EXIT; cd "$T"
head -c 100000 /dev/zero | tr '\0' x > in1; echo >> in1      # one 100000-byte line: within the 131072 per-argument limit
rc=0
echo "case 1: xargs -I{} true {}{} < one 100000-byte line   (substituted argument = 200000 bytes > MAX_ARG_STRLEN)"
"$X" -I{} true '{}{}' < in1 > o1.txt 2>&1; st=$?
echo "expected: never handed to exec; reported as too large with exit status 1.  got: status $st: $(cat o1.txt)"
{ [ $st != 1 ] && grep -q 'Argument list too long' o1.txt; } && rc=1
echo "case 2: xargs -I{} true {} x30 < same line   (30 x 100000 bytes = 3 MB > ARG_MAX 2 MiB, every argument within the per-argument limit)"
args=$(printf '{} %.0s' $(seq 1 30))
"$X" -I{} true $args < in1 > o2.txt 2>&1; st=$?
echo "expected: no exec failure with 'Argument list too long'; diagnostic + exit 1.  got: status $st: $(cat o2.txt)"
{ [ $st != 1 ] && grep -q 'Argument list too long' o2.txt; } && rc=1
[ $rc = 1 ] && echo "VIOLATION: xargs built a command line execve rejected with E2BIG" || echo "no violation"
exit $rc
