#!/bin/bash
# -0 / -d C split at every occurrence of that one byte: adjacent delimiters delimit an empty argument
set -u
BIN=${1:?usage: repro.sh <dir with find and xargs>}
T=$(mktemp -d); trap "rm -rf \"$T\"" EXIT; cd "$T"
cat > show.py <<"E"
import sys,os
sys.stdout.write("".join("<"+os.fsencode(a).hex()+">" for a in sys.argv[1:])+"\n")
E

got0=$(printf 'a\0\0b\0' | "$BIN/xargs" -0 python3 show.py)
gotd=$(printf ',a,,b' | "$BIN/xargs" -d , python3 show.py)
gotl=$(printf 'a\n\nb\n' | "$BIN/xargs" -d '\n' -L1 python3 show.py | tr '\n' '|')
echo "-0   a\\0\\0b\\0 : expected <61><><62>    got $got0"
echo "-d , ,a,,b      : expected <><61><><62>  got $gotd"
echo "-d '\\n' -L1 a\\n\\nb\\n : expected <61>|<>|<62>|  got $gotl"
[ "$got0" = "<61><><62>" ] && [ "$gotd" = "<><61><><62>" ] && exit 0
exit 1
