#!/bin/sh
# C10: find -H LINK -mindepth 1 -delete must remove every entry below the
# starting point (EXPR is true for all of them), children before parents.
BIN=${1:?usage: repro.sh DIR_WITH_BINARIES}
FIND=$(cd "$BIN" && pwd)/find
S=$(mktemp -d) || exit 2
trap 'rm -rf "$S"' EXIT
cd "$S" || exit 2
mkdir -p t/a t/b
touch t/a/1 t/b/2 t/c
ln -s t lt
"$FIND" -H lt -mindepth 1 -delete 2>"$S/err"; RC=$?
LEFT=$(/usr/bin/find t -mindepth 1 | LC_ALL=C sort)
echo "command : find -H lt -mindepth 1 -delete      (lt -> t; t/a/1 t/b/2 t/c)"
echo "expected: t is left empty (all entries below the starting point removed), or a diagnostic and non-zero exit status for what could not be removed"
echo "got     : exit status $RC, stderr: '$(cat "$S/err")', left below t:"
echo "$LEFT"
if [ -n "$LEFT" ] && [ $RC -eq 0 ]; then
    echo "VIOLATION: a matched (by then empty) directory was silently not removed"
    exit 1
fi
echo ok
exit 0
