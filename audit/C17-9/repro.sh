#!/bin/bash
# usage: repro.sh <directory containing the find binary>
BIN=${1:?usage: repro.sh DIR_WITH_BINARIES}
FIND="$BIN/find"
export LC_ALL=C.utf8
T=$(mktemp -d) || exit 2
trap 'rm -rf "$T"' EXIT
cd "$T" || exit 2
bad=0
# check DESCRIPTION EXPECTED find-args... : runs $FIND, joins sorted output lines with a space
check() {
  desc=$1; exp=$2; shift 2
  got=$("$FIND" "$@" 2>"$T/.stderr" | sort | tr '\n' ' ' | sed 's/ $//')
  gnu=$(/usr/bin/find "$@" 2>/dev/null | sort | tr '\n' ' ' | sed 's/ $//')
  echo "--- $desc"
  echo "    command : find $*"
  echo "    expected: [$exp]"
  echo "    got     : [$got]"
  [ -x /usr/bin/find ] && echo "    GNU find: [$gnu]"
  [ -s "$T/.stderr" ] && sed 's/^/    stderr  : /' "$T/.stderr" | cut -c1-200
  if [ "$got" != "$exp" ]; then echo "    => VIOLATION"; bad=1; else echo "    => ok"; fi
}

mkdir w; touch w/ss w/ß w/s
check "-iregex 'w/ß': one character, only its case variants" "w/ß" w -iregex 'w/ß'
check "-iregex 'w/ss'" "w/ss" w -iregex 'w/ss'
check "-iregex 'w/.' matches one-character names only; 'w/[ß]' likewise" "w/ß" w -iregex 'w/[ß]'

if [ $bad = 1 ]; then echo "RESULT: violation present"; exit 1; else echo "RESULT: no violation"; exit 0; fi
