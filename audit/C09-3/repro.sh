#!/bin/bash
# C09: when find is started with SIGCHLD ignored, -exec CMD ; is false although CMD exits 0.
BIN=${1:?usage: repro.sh DIR_WITH_BINARIES}; BIN=$(cd "$BIN" && pwd)
T=$(mktemp -d); trap 'rm -rf "$T"' EXIT; cd "$T"
mkdir t; touch t/1
if env --ignore-signal=CHLD true 2>/dev/null; then run() { env --ignore-signal=CHLD "$@"; }
elif command -v python3 >/dev/null; then run() { python3 -c 'import os,signal,sys; signal.signal(signal.SIGCHLD, signal.SIG_IGN); os.execv(sys.argv[1], sys.argv[1:])' "$@"; }
else echo "no way to ignore SIGCHLD"; exit 0; fi
out=$(run "$BIN/find" t -exec true \; -print 2>err.txt)
echo "command : (SIGCHLD ignored on entry) find t -exec true \; -print"
echo "expected: action true exactly when CMD exits 0 -> 't' and 't/1' printed (GNU does)"
echo "actual  : stdout='$(echo "$out" | tr '\n' ' ')' stderr='$(head -1 err.txt)'"
[ "$(echo "$out" | grep -c .)" = 2 ] && exit 0
echo "VIOLATION: CMD ran and exited 0 but the action evaluated to false"; exit 1
