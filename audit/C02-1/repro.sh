#!/bin/bash
# C02: -L, a link to a directory ABOVE the starting point closes a directory cycle
BIN=${1:?usage: repro.sh <dir with binaries>}
D=$(mktemp -d); trap 'rm -rf "$D"' EXIT
mkdir "$D/w"; cd "$D/w" || exit 2
mkdir -p t/a; touch t/a/f
ln -s .. t/up          # t/up -> parent of t, which contains t: t -> up -> t is a directory cycle
fail=0
echo "tree    : t/, t/a/, t/a/f, t/up -> ..   (so t/up/t is the starting directory t again)"
echo "--- case 1: find -L t"
echo "expected: t t/a t/a/f t/up each exactly once; t/up/t diagnosed as a loop, nothing below it"
out=$("$BIN/find" -L t 2>../err.txt); rc=$?
echo "got (rc=$rc):"; echo "$out" | sed 's/^/  /'; sed 's/^/  stderr: /' ../err.txt
if echo "$out" | grep -q '^t/up/t/a/f$'; then
  echo "VIOLATION: the cycle was followed: the directory t was traversed a second time as t/up/t"; fail=1
fi
echo "--- case 2: find -L t -maxdepth 2"
echo "expected: a diagnostic for t/up/t (depth 2, closes the cycle) and non-zero exit status"
out=$("$BIN/find" -L t -maxdepth 2 2>../err.txt); rc=$?
echo "got (rc=$rc):"; echo "$out" | sed 's/^/  /'; sed 's/^/  stderr: /' ../err.txt
if [ $rc -eq 0 ] && [ ! -s ../err.txt ] && echo "$out" | grep -q '^t/up/t$'; then
  echo "VIOLATION: t/up/t (same directory as its ancestor t) visited as an ordinary entry, no diagnostic, exit 0"; fail=1
fi
exit $fail
