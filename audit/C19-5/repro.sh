#!/bin/sh
# C19: "argument too long" -> exit status 1.
BIN="$1"; S=$(mktemp -d); cd "$S" || exit 2
# (a) -s 30: the substituted command "echo <40 chars>" needs 46 bytes.
printf 'abcdefghij\n' | "$BIN/xargs" -s 30 -I{} echo '{}{}{}{}' >out 2>err; rc1=$?
# (b) 100000-byte line, substituted twice into one argument: > MAX_ARG_STRLEN
head -c 100000 /dev/zero | tr '\0' a >big; echo >>big
"$BIN/xargs" -I{} sh -c 'echo ok' '{}{}' <big >out2 2>err2; rc2=$?
echo "expected: (a) exit 1, echo not run (command too long for -s 30); (b) exit 1 (command too long)"
echo "got: (a) exit $rc1, stdout: $(cat out)"; echo "     (b) exit $rc2, stderr: $(cat err2)"
cd /; rm -rf "$S"
[ "$rc1" -ne 1 ] || [ "$rc2" -ne 1 ] && exit 1
exit 0
