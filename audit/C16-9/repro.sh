#!/bin/sh
# C16 (as written): "%H, '/' and %P recompose %p for every entry below a starting point".
BIN=${1:-.}; FIND="$BIN/find"
T=$(mktemp -d); trap 'rm -rf "$T"' EXIT; cd "$T" || exit 2
mkdir d; touch d/file
bad=0
for sp in d/ ./d/ d// ./; do
  got=$("$FIND" "$sp" -mindepth 1 -printf '%p %H/%P\n' | head -1)
  set -- $got
  echo "find $sp : %p='$1'  %H/%P='$2' (expected equal)"
  [ "$1" = "$2" ] || bad=1
done
[ $bad -eq 1 ] && { echo "VIOLATION present"; exit 1; }
echo "no violation"; exit 0
