#!/bin/bash
# default mode must split only at unquoted blanks (space, tab) and newlines
set -u
BIN=${1:?usage: repro.sh <dir with find and xargs>}
T=$(mktemp -d); trap "rm -rf \"$T\"" EXIT; cd "$T"
cat > show.py <<"E"
import sys,os
sys.stdout.write("".join("<"+os.fsencode(a).hex()+">" for a in sys.argv[1:])+"\n")
E

got=$(printf 'a\rb\fc d\n' | "$BIN/xargs" python3 show.py)
exp="<610d620c63><64>"   # "a\rb\fc" and "d"
echo "input:    'a\\rb\\fc d\\n' (default mode)"
echo "expected: $exp   (CR and FF are neither blanks nor newlines: 2 arguments)"
echo "got:      $got"
[ "$got" = "$exp" ] && exit 0
exit 1
