#!/bin/sh
# C20: initial arguments are passed (unchanged outside R); one run per line.
BIN="$1"; S=$(mktemp -d); cd "$S" || exit 2
cat > p.sh <<"EOP"
#!/bin/sh
printf "RUN"; for a; do printf " [%s]" "$a"; done; echo
EOP
chmod +x p.sh
A=$(printf 'caf\351'); B=$(printf '{}.caf\351')
printf 'x\n' | "$BIN/xargs" -I{} ./p.sh "$A" "$B" >out 2>err; rc=$?
printf 'RUN [caf\351] [x.caf\351]\n' >want
echo "expected: exit 0 and"; od -c want | head -3
echo "got: exit $rc"; od -c out | head -3; cat err
if cmp -s out want; then r=0; else r=1; fi
cd /; rm -rf "$S"; exit $r
