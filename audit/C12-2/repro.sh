#!/bin/bash
# usage: repro.sh <directory containing the find binary>
BIN=${1:?usage: repro.sh DIR_WITH_BINARIES}
FIND="$BIN/find"
export LC_ALL=C
T=$(mktemp -d) || exit 2
trap 'rm -rf "$T"' EXIT
cd "$T" || exit 2
bad=0
# check DESCRIPTION EXPECTED find-args... : runs $FIND, joins sorted output lines with a space
check() {
  desc=$1; exp=$2; shift 2
  got=$("$FIND" "$@" 2>"$T/.stderr" | sort | tr '\n' ' ' | sed 's/ $//')
  gnu=$(/usr/bin/find "$@" 2>/dev/null | sort | tr '\n' ' ' | sed 's/ $//')
  echo "--- $desc"
  echo "    command : find $*"
  echo "    expected: [$exp]"
  echo "    got     : [$got]"
  [ -x /usr/bin/find ] && echo "    GNU find: [$gnu]"
  [ -s "$T/.stderr" ] && sed 's/^/    stderr  : /' "$T/.stderr" | cut -c1-200
  if [ "$got" != "$exp" ]; then echo "    => VIOLATION"; bad=1; else echo "    => ok"; fi
}

mkdir w; touch 'w/a' 'w/]' 'w/\a]' 'w/\' 'w/-' 'w/b'
check "'[\\]a]': the backslash quotes ']', so the set is {], a}" "w/] w/a" w -mindepth 1 -name '[\]a]'
check "'[a\\-c]': quoted '-', set is {a, -, c}" "w/- w/a" w -mindepth 1 -name '[a\-c]'
check "'[\\\\]' is a set containing only the backslash" 'w/\' w -mindepth 1 -name '[\\]'

if [ $bad = 1 ]; then echo "RESULT: violation present"; exit 1; else echo "RESULT: no violation"; exit 0; fi
