#!/bin/bash
# C11: an invalid operand to -regex must be rejected before any file is visited.
BIN=${1:?usage: repro.sh DIR_WITH_BINARIES}
T=$(mktemp -d); trap 'rm -rf "$T"' EXIT
cd "$T" && mkdir d && touch d/f
bad=0
try() { # regextype regex
  "$BIN/find" d -regextype "$1" -regex "$2" -o -print >out.txt 2>err.txt; rc=$?
  g=$(/usr/bin/find d -regextype "$1" -regex "$2" 2>&1 >/dev/null | head -1)
  printf '%-15s %-12s ours: status %s, visited %s entries | GNU: %s\n' "$1" "'$2'" "$rc" "$(wc -l <out.txt)" "${g:-accepted}"
  if [ $rc -eq 0 ]; then bad=1; fi
}
echo "expected: each of these invalid regular expressions is rejected (diagnostic, non-zero status, nothing visited)"
try posix-basic    'a\{2,1\}'     # inverted interval
try posix-extended 'a{2,1}'
try grep           'a\{2,1\}'
try grep           '[z-a]'        # inverted range
try posix-basic    '[[.foo.]]'    # unknown collating symbol
try emacs          '[[.foo.]]'
try posix-basic    '\{1\}'        # interval with nothing to repeat
if [ $bad -eq 1 ]; then echo "VIOLATION: invalid -regex operand accepted and the tree was walked"; exit 1; fi
exit 0
