#!/bin/bash
# -0 / -d: every non-delimiter byte must reach the command unchanged
set -u
BIN=${1:?usage: repro.sh <dir with find and xargs>}
T=$(mktemp -d); trap "rm -rf \"$T\"" EXIT; cd "$T"
cat > show.py <<"E"
import sys,os
sys.stdout.write("".join("<"+os.fsencode(a).hex()+">" for a in sys.argv[1:])+"\n")
E

got0=$(printf 'a\377b\0\303(\0' | "$BIN/xargs" -0 python3 show.py)
gotd=$(printf 'x\200y,z' | "$BIN/xargs" -d , python3 show.py)
gotw=$(printf 'a\377b\n' | "$BIN/xargs" python3 show.py)
echo "-0   input a\\377b\\0\\303(\\0 : expected <61ff62><c328>  got $got0"
echo "-d , input x\\200y,z        : expected <788079><7a>    got $gotd"
echo "default input a\\377b\\n     : expected <61ff62>        got $gotw"
[ "$got0" = "<61ff62><c328>" ] && [ "$gotd" = "<788079><7a>" ] && [ "$gotw" = "<61ff62>" ] && exit 0
exit 1
