#!/bin/bash
# C09: -execdir CMD {} ; on a starting point ending in ".." gives CMD a name that does not designate the file.
BIN=${1:?usage: repro.sh DIR_WITH_BINARIES}; BIN=$(cd "$BIN" && pwd)
T=$(mktemp -d); trap 'rm -rf "$T"' EXIT; cd "$T"
mkdir -p A/B
want=$(stat -c %i A)
res=$("$BIN/find" A/B/.. -maxdepth 0 -execdir sh -c 'echo "cwd=$PWD arg=$1 inode=$(stat -c %i "$1" 2>/dev/null || echo MISSING)"' sh {} \; 2>&1)
echo "command : find A/B/.. -maxdepth 0 -execdir CMD {} \;   (the file is directory A, inode $want)"
echo "expected: cwd = the file's parent directory and {} = ./basename naming the file (GNU: cwd=.../A/B arg=./.. inode=$want)"
echo "actual  : $res"
n=$("$BIN/find" A/B/.. -maxdepth 0 -execdir test -e {} \; -print | wc -l)
echo "find A/B/.. -maxdepth 0 -execdir test -e {} \; -print  -> $n line(s) (expected 1: the file exists)"
case "$res" in *"inode=$want"*) [ "$n" = 1 ] && exit 0;; esac
echo "VIOLATION"; exit 1
