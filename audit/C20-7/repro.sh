#!/bin/sh
# C20: all replacement strings R - including ones starting with '-'.
BIN="$1"; S=$(mktemp -d); cd "$S" || exit 2
cat > p.sh <<"EOP"
#!/bin/sh
printf "RUN"; for a; do printf " [%s]" "$a"; done; echo
EOP
chmod +x p.sh
printf 'a b\n' | "$BIN/xargs" -I -x ./p.sh pre-x >out1 2>err1; rc1=$?
printf 'a b\n' | "$BIN/xargs" -I -- ./p.sh x--y >out2 2>err2; rc2=$?
echo "expected: (1) RUN [prea b]   (2) RUN [xa by]"
echo "got: (1) exit $rc1: $(cat out1) $(head -1 err1)"
echo "     (2) exit $rc2: $(cat out2) $(head -1 err2)"
r=0; [ "$(cat out1)" = "RUN [prea b]" ] || r=1; [ "$(cat out2)" = "RUN [xa by]" ] || r=1
cd /; rm -rf "$S"; exit $r
