#!/bin/sh
# C16: every character of the format that is not an escape/directive is copied verbatim, per file.
BIN=${1:-.}; FIND="$BIN/find"
T=$(mktemp -d); trap 'rm -rf "$T"' EXIT; cd "$T" || exit 2
touch -d '1960-01-01 00:00:00 UTC' old; touch new
got=$("$FIND" old new -printf '[%T@ %p]\n' 2>err)
echo "find old new -printf '[%T@ %p]\\n'"
echo "expected two complete lines: '[-315619200.0000000000 old]' and '[<now> new]'"
echo "got:"; echo "$got"; echo "stderr: $(cat err)"
n=$(echo "$got" | grep -c '^\[.* .*\]$')
[ "$n" -eq 2 ] && { echo "no violation"; exit 0; }
echo "VIOLATION present (literal text after the failing directive, incl. the newline, was dropped)"; exit 1
