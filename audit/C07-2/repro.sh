#!/bin/bash
# every matched entry must be emitted exactly once: -H <symlink to dir> -depth -mindepth 1 loses a directory
set -u
BIN=${1:?usage: repro.sh <dir with find and xargs>}
T=$(mktemp -d); trap 'rm -rf "$T"' EXIT; cd "$T"
mkdir -p "t/d 1/e" && touch "t/d 1/e/f" t/a && ln -s t top
cat > show.py <<'E'
import sys
sys.stdout.write(''.join(a+'\n' for a in sys.argv[1:]))
E
got=$("$BIN/find" -H top -depth -mindepth 1 -print0 | "$BIN/xargs" -0 python3 show.py | sort)
exp=$(printf '%s\n' 'top/a' 'top/d 1' 'top/d 1/e' 'top/d 1/e/f' | sort)
echo "command: find -H top -depth -mindepth 1 -print0 | xargs -0 CMD   (top -> t, t contains a, 'd 1'/e/f)"
echo "expected:"; echo "$exp" | sed 's/^/   /'
echo "got:";      echo "$got" | sed 's/^/   /'
[ "$got" = "$exp" ] && exit 0
exit 1
