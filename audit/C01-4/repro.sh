#!/bin/bash
# C01: -prune on a mount-point directory under -xdev/-mount ends the walk of the PARENT directory
BIN=${1:?usage: repro.sh <dir with binaries>}
# find a directory directly below / that is on another file system
rootdev=$(stat -c %d /)
mp=""
for d in /proc /sys /dev /run /tmp /*; do
  [ -d "$d" ] && [ ! -L "$d" ] || continue
  if [ "$(stat -c %d "$d")" != "$rootdev" ]; then mp=$d; break; fi
done
if [ -z "$mp" ]; then echo "no mount point directly below / : cannot test here"; exit 0; fi
name=${mp#/}
echo "mount point used: $mp"
echo "command : find / -maxdepth 1 -xdev -name $name -prune -o -print"
# reference: every depth<=1 entry except $mp itself (prune only stops descent into $mp)
expected=$( { echo /; ls -A / | sed 's|^|/|'; } | grep -vx "$mp" | sort)
got=$("$BIN/find" / -maxdepth 1 -xdev -name "$name" -prune -o -print 2>/dev/null | sort)
ne=$(echo "$expected" | wc -l); ng=$(echo "$got" | wc -l)
echo "expected: $ne entries (all of / at depth <= 1 except $mp)"
echo "got     : $ng entries"
missing=$(comm -23 <(echo "$expected") <(echo "$got"))
if [ -n "$missing" ]; then
  echo "VIOLATION: siblings of $mp that were never evaluated:"; echo "$missing" | head -20
  exit 1
fi
echo ok; exit 0
