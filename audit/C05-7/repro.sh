#!/bin/bash
# a NUL byte in -d / default mode input makes xargs abort; the arguments after it never reach the command
set -u
BIN=${1:?usage: repro.sh <dir with find and xargs>}
T=$(mktemp -d); trap "rm -rf \"$T\"" EXIT; cd "$T"
cat > show.py <<"E"
import sys,os
sys.stdout.write("".join("<"+os.fsencode(a).hex()+">" for a in sys.argv[1:])+"\n")
E

got=$(printf 'a\0b\nc\nd\n' | "$BIN/xargs" -d '\n' -n1 python3 show.py 2>err.txt); rc=$?
echo "input a\\0b\\nc\\nd\\n with -d '\\n' -n1"
echo "expected: c and d delivered unchanged (<63> and <64> present); GNU delivers <61> <63> <64>, rc=0"
echo "got:      $(echo $got) rc=$rc $(cat err.txt)"
case "$got" in *"<63>"*"<64>"*) exit 0;; esac
exit 1
