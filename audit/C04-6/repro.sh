#!/bin/bash
# C04: initial arguments that are not valid UTF-8 are refused; the command is never run
BIN=${1:?usage: repro.sh <dir with find and xargs>}
X="$BIN/xargs"
T=$(mktemp -d); trap 'rm -rf "$T"' EXIT; cd "$T"
rc=0
echo "case: echo x | xargs printf '%s-%s\\n' \$'caf\\xe9'   (Latin-1 initial argument)"
echo x | "$X" printf '%s-%s\n' $'caf\xe9' > out.txt 2> err.txt; st=$?
exp=$(printf 'caf\xe9-x\n' | od -An -tx1)
got=$(od -An -tx1 out.txt)
echo "expected: one invocation beginning with the unchanged initial arguments, output bytes:$exp"
echo "got: exit status $st, output bytes:$got"; cat err.txt
[ "$got" != "$exp" ] && rc=1
[ $rc = 1 ] && echo "VIOLATION: command with these initial arguments is not run" || echo "no violation"
exit $rc
