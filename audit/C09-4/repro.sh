#!/bin/bash
# C09: a missing CMD changes find's exit status (101) and stops the traversal when stderr cannot be written.
BIN=${1:?usage: repro.sh DIR_WITH_BINARIES}; BIN=$(cd "$BIN" && pwd)
T=$(mktemp -d); trap 'rm -rf "$T"' EXIT; cd "$T"
[ -e /dev/full ] || { echo "no /dev/full"; exit 0; }
mkdir t; touch t/1 t/2 t/3
out=$("$BIN/find" t -exec /nonexistent/cmd \; -o -exec echo reached {} \; 2>/dev/full); rc=$?
echo "command : find t -exec /nonexistent/cmd \; -o -exec echo reached {} \; 2>/dev/full"
echo "expected: the action is false for each of the 4 files, 4 x 'reached', exit status 0 (GNU does exactly that)"
echo "actual  : $(echo "$out" | grep -c reached) x 'reached', exit status $rc"
if [ $rc -ne 0 ] || [ "$(echo "$out" | grep -c reached)" -ne 4 ]; then echo "VIOLATION: missing CMD changed the exit status / aborted find"; exit 1; fi
exit 0
