#!/bin/bash
# C11 (lower confidence): dangling operators are accepted when their only operand is -daystart.
BIN=${1:?usage: repro.sh DIR_WITH_BINARIES}
T=$(mktemp -d); trap 'rm -rf "$T"' EXIT
cd "$T" && mkdir d
bad=0
echo "expected (GNU grammar: -daystart is an option, not an expression): rejected as dangling operator / empty parentheses"
try() {
  out=$("$BIN/find" d "$@" 2>err.txt); rc=$?
  g=$(/usr/bin/find d "$@" 2>&1 >/dev/null | head -1)
  printf 'find d %-22s ours: status %s | GNU: %s\n' "$*" "$rc" "${g:-accepted}"
  [ $rc -eq 0 ] && bad=1
}
try '!' -daystart
try -daystart -o -true
try -true -a -daystart
try '(' -daystart ')'
if [ $bad -eq 1 ]; then echo "VIOLATION: dangling operator / empty parentheses accepted"; exit 1; fi
exit 0
