#!/bin/bash
# C08: an environment entry without '=' is not counted in the argument budget -> every full batch gets E2BIG.
BIN=${1:?usage: repro.sh DIR_WITH_BINARIES}; BIN=$(cd "$BIN" && pwd)
T=$(mktemp -d); trap 'rm -rf "$T"' EXIT; cd "$T"
command -v python3 >/dev/null || { echo "python3 needed to build an environment entry without '='"; exit 0; }
mkdir t; y=$(printf 'y%.0s' $(seq 230))
for i in $(seq 1000 1699); do : > "t/f${i}_$y"; done
cat > noeq.py <<'PY'
import ctypes, sys
libc = ctypes.CDLL(None, use_errno=True)
args = [a.encode() for a in sys.argv[1:]]
env = [b"PATH=/usr/bin:/bin", b"J" * 100000]          # second entry has no '='
argv = (ctypes.c_char_p * (len(args) + 1))(*args, None)
envp = (ctypes.c_char_p * (len(env) + 1))(*env, None)
libc.execve(args[0], argv, envp)
print("execve failed", ctypes.get_errno())
PY
expected=$("$BIN/find" t -name 'f*' | wc -l)
got=$( ulimit -s 512; python3 noeq.py "$BIN/find" t -name 'f*' -exec sh -c 'for a; do echo ARG; done' sh {} + 2>err.txt </dev/null | grep -c ARG )
echo "environment: PATH=... plus one 100000-byte entry without '='; ulimit -s 512 (ARG_MAX 128 KiB)"
echo "expected: all $expected paths delivered, each invocation accepted by the OS (GNU find: yes, in small batches)"
echo "actual  : delivered=$got; stderr: $(sort err.txt | uniq -c | head -2 | tr '\n' ' ')"
if [ "$got" -ne "$expected" ]; then echo "VIOLATION: invocations rejected with E2BIG"; exit 1; fi
exit 0
