#!/bin/bash
# every entry of a tree, at any depth, must be emitted by -print0 and reach CMD through xargs -0
set -u
BIN=${1:?usage: repro.sh <dir with find and xargs>}
T=$(mktemp -d); trap 'rm -rf "$T"' EXIT; cd "$T"
python3 - <<'E'
import os
n='d'*200
os.mkdir('t'); os.chdir('t')
for i in range(25):          # 25 * 201 bytes > PATH_MAX (4096)
    os.mkdir(n); os.chdir(n)
open('leaf file','w').close()
E
cat > count.py <<'E'
import sys
open('delivered.txt','a').write(''.join(a+'\n' for a in sys.argv[1:]))
E
: > delivered.txt
"$BIN/find" t -print0 2>err.txt | "$BIN/xargs" -0 python3 count.py
n=$(wc -l < delivered.txt)
leaf=$(grep -c '/leaf file$' delivered.txt)
echo "tree: t/ + 25 nested directories (200-byte names) + 'leaf file' = 27 entries"
echo "expected: 27 paths delivered, among them the one ending in '/leaf file'"
echo "got:      $n paths delivered, leaf delivered $leaf time(s); find stderr: $(cut -c1-40 err.txt | head -1)... $(grep -o 'File name too long.*' err.txt | head -1)"
[ "$n" = 27 ] && [ "$leaf" = 1 ] && exit 0
exit 1
