#!/bin/bash
# -I without -0/-d is still the quote-processing mode (only the blank splitting is switched off)
set -u
BIN=${1:?usage: repro.sh <dir with find and xargs>}
T=$(mktemp -d); trap "rm -rf \"$T\"" EXIT; cd "$T"
cat > show.py <<"E"
import sys,os
sys.stdout.write("".join("<"+os.fsencode(a).hex()+">" for a in sys.argv[1:])+"\n")
E

got1=$(printf "  'a b' \\\\x\n" | "$BIN/xargs" -I{} python3 show.py {})
printf "'a\n" | "$BIN/xargs" -I{} python3 show.py {} >out2.txt 2>err2.txt; rc2=$?
echo "input \"  'a b' \\\\x\\n\" with -I{}: expected <6120622078> (a b x)  got $got1"
echo "input \"'a\\n\" with -I{}: expected an unterminated-quote error (rc!=0, no invocation); got rc=$rc2 out=$(cat out2.txt)"
[ "$got1" = "<6120622078>" ] && [ $rc2 != 0 ] && exit 0
exit 1
