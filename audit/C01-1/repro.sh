#!/bin/bash
# C01: order of action outputs -- -printf (no trailing newline) followed by -exec
BIN=${1:?usage: repro.sh <dir with find/xargs binaries>}
D=$(mktemp -d); trap 'rm -rf "$D"' EXIT
cd "$D" || exit 2
mkdir -p t/a; touch t/a/f
expected=$'A:t E\nA:t/a E\nA:t/a/f E'
# stdout is a pipe (same with a regular file)
got=$("$BIN/find" t -printf 'A:%p ' -exec echo E \; 2>/dev/null | cat)
echo "command : find t -printf 'A:%p ' -exec echo E \;   (stdout is a pipe)"
echo "expected (reference evaluation: for each file -printf output, then -exec output):"
echo "$expected"
echo "got:"
echo "$got"
if [ "$got" != "$expected" ]; then echo "VIOLATION: action outputs are not in evaluation order"; exit 1; fi
echo "ok"; exit 0
