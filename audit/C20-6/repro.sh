#!/bin/sh
# C20: -i takes an optional attached replacement string (-iR), like --replace[=R].
BIN="$1"; S=$(mktemp -d); cd "$S" || exit 2
cat > p.sh <<"EOP"
#!/bin/sh
printf "RUN"; for a; do printf " [%s]" "$a"; done; echo
EOP
chmod +x p.sh
printf 'a b\n' | "$BIN/xargs" -iR ./p.sh R xRy >out1 2>err1; rc1=$?
printf 'a b\n' | "$BIN/xargs" -it ./p.sh t '{}' >out2 2>/dev/null; rc2=$?
echo "expected: (1) RUN [a b] [xa by]   (2) RUN [a b] [{}]   (R is 't')"
echo "got: (1) exit $rc1: $(cat out1) $(head -1 err1)"
echo "     (2) exit $rc2: $(cat out2)"
r=0; [ "$(cat out1)" = "RUN [a b] [xa by]" ] || r=1; [ "$(cat out2)" = "RUN [a b] [{}]" ] || r=1
cd /; rm -rf "$S"; exit $r
