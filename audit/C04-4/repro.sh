#!/bin/bash
# C04: -n and -L given together: only the last one is enforced
BIN=${1:?usage: repro.sh <dir with find and xargs>}
X="$BIN/xargs"
T=$(mktemp -d); trap 'rm -rf "$T"' EXIT; cd "$T"
rc=0
echo "case 1: printf 'a b c\\nd e\\n' | xargs -n 1 -L 5 echo"
echo "expected (max-args 1 and max-lines 5 both hold): 5 invocations of one argument"
got=$(printf 'a b c\nd e\n' | "$X" -n 1 -L 5 echo 2>/dev/null)
echo "got:"; echo "$got"
[ "$(echo "$got" | wc -l)" != 5 ] && rc=1
echo "case 2: printf 'a\\nb\\nc\\n' | xargs -L 1 -n 3 echo"
echo "expected (max-lines 1 holds): 3 invocations"
got=$(printf 'a\nb\nc\n' | "$X" -L 1 -n 3 echo 2>/dev/null)
echo "got:"; echo "$got"
[ "$(echo "$got" | wc -l)" != 3 ] && rc=1
[ $rc = 1 ] && echo "VIOLATION: one of the two limits is ignored" || echo "no violation"
exit $rc
