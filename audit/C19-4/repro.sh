#!/bin/sh
# C19: 126 is for "command cannot be executed"; echo can be executed.
BIN="$1"; S=$(mktemp -d); cd "$S" || exit 2
printf 'a\0b\nc\n' | "$BIN/xargs" -n1 echo >out 2>err; rc=$?
echo "expected: echo is run for every item; exit 0 (GNU: warns about the NUL, prints a and c) - or 1 if treated as an input error"
echo "got: exit status $rc, stdout:"; cat out; echo "stderr:"; cat err
cd /; rm -rf "$S"
[ "$rc" -eq 126 ] && exit 1
exit 0
