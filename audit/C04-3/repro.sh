#!/bin/bash
# C04: CR and FF split arguments; a line ending in CR is treated as "ending in a blank" for -L
BIN=${1:?usage: repro.sh <dir with find and xargs>}
X="$BIN/xargs"
T=$(mktemp -d); trap 'rm -rf "$T"' EXIT; cd "$T"
cat > dump.sh <<'EOS'
#!/bin/sh
for a in "$@"; do printf '<%s>' "$a" | tr '\r\f' 'RF'; done; echo
EOS
chmod +x dump.sh
rc=0
echo "case 1: printf 'a\\rb c\\fd\\n' | xargs -n1 ./dump.sh   (R = CR, F = FF)"
exp=$'<aRb>\n<cFd>'
got=$(printf 'a\rb c\fd\n' | "$X" -n1 ./dump.sh)
echo "expected: two arguments / two invocations:"; echo "$exp"; echo "got:"; echo "$got"
[ "$got" != "$exp" ] && rc=1
echo "case 2: printf 'a\\r\\nb\\r\\nc\\r\\n' | xargs -L1 ./dump.sh   (three lines, none ends in a blank)"
exp=$'<aR>\n<bR>\n<cR>'
got=$(printf 'a\r\nb\r\nc\r\n' | "$X" -L1 ./dump.sh)
echo "expected: three invocations, one line each:"; echo "$exp"; echo "got:"; echo "$got"
[ "$got" != "$exp" ] && rc=1
[ $rc = 1 ] && echo "VIOLATION: arguments split at CR/FF; -L 1 invocation draws from 3 input lines" || echo "no violation"
exit $rc
