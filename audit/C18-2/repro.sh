#!/bin/bash
# C18: -files0-from FILE must be equivalent to giving the NUL-separated names as starting points.
# A name that is not valid UTF-8 is silently dropped: not walked, no diagnostic, status 0.
BIN=${1:?usage: repro.sh DIR_WITH_BINARIES}
T=$(mktemp -d); trap 'rm -rf "$T"' EXIT
cd "$T" && mkdir e $'u\xff' && touch e/h $'u\xff/z'
printf 'u\xff\0e\0missing\xfe\0' > list
"$BIN/find" -files0-from list >out.txt 2>err.txt; rc=$?
echo "list    : u\\xff NUL e NUL missing\\xfe NUL   (u\\xff and e exist, missing\\xfe does not)"
echo "expected: u\\xff, u\\xff/z, e, e/h listed; a diagnostic for missing\\xfe; non-zero status (GNU 4.9 does that)"
echo "got     : status $rc, stdout [$(tr '\n' ' ' <out.txt | cat -v)], stderr [$(cat err.txt)]"
if ! grep -q 'z$' out.txt || [ $rc -eq 0 ]; then
  echo "VIOLATION: names that are not valid UTF-8 were silently skipped"
  exit 1
fi
exit 0
