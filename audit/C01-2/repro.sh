#!/bin/bash
# C01: a primary whose argument is the string "(" directly before a closing parenthesis
BIN=${1:?usage: repro.sh <dir with binaries>}
D=$(mktemp -d); trap 'rm -rf "$D"' EXIT
cd "$D" || exit 2
mkdir t; touch 't/(' t/x
echo "command : find t \\( -name \\( \\)"
echo "expected: t/(   (well-formed: parenthesised -name test with pattern '(' ; implicit -print)"
got=$("$BIN/find" t \( -name \( \) 2>&1); rc=$?
echo "got (rc=$rc): $got"
if [ "$got" != "t/(" ] || [ $rc -ne 0 ]; then echo "VIOLATION: well-formed expression rejected"; exit 1; fi
echo ok; exit 0
