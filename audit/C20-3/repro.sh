#!/bin/sh
# C20: the option given last determines the mode - also when an option letter occurs twice.
BIN="$1"; S=$(mktemp -d); cd "$S" || exit 2
cat > p.sh <<"EOP"
#!/bin/sh
printf "RUN"; for a; do printf " [%s]" "$a"; done; echo
EOP
chmod +x p.sh
printf 'a b\n' | "$BIN/xargs" -I{} -n 2 -I{} ./p.sh {} >out1 2>err1; rc1=$?
printf 'a b\n' | "$BIN/xargs" -I A -I B ./p.sh A B >out2 2>err2; rc2=$?
echo "expected: (1) RUN [a b]   (2) RUN [A] [a b]   both exit 0"
echo "got: (1) exit $rc1: $(cat out1) $(head -1 err1)"
echo "     (2) exit $rc2: $(cat out2) $(head -1 err2)"
r=0; [ "$(cat out1)" = "RUN [a b]" ] || r=1; [ "$(cat out2)" = "RUN [A] [a b]" ] || r=1
cd /; rm -rf "$S"; exit $r
