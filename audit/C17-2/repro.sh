#!/bin/bash
# usage: repro.sh <directory containing the find binary>
BIN=${1:?usage: repro.sh DIR_WITH_BINARIES}
FIND="$BIN/find"
export LC_ALL=C
T=$(mktemp -d) || exit 2
trap 'rm -rf "$T"' EXIT
cd "$T" || exit 2
bad=0
# check DESCRIPTION EXPECTED find-args... : runs $FIND, joins sorted output lines with a space
check() {
  desc=$1; exp=$2; shift 2
  got=$("$FIND" "$@" 2>"$T/.stderr" | sort | tr '\n' ' ' | sed 's/ $//')
  gnu=$(/usr/bin/find "$@" 2>/dev/null | sort | tr '\n' ' ' | sed 's/ $//')
  echo "--- $desc"
  echo "    command : find $*"
  echo "    expected: [$exp]"
  echo "    got     : [$got]"
  [ -x /usr/bin/find ] && echo "    GNU find: [$gnu]"
  [ -s "$T/.stderr" ] && sed 's/^/    stderr  : /' "$T/.stderr" | cut -c1-200
  if [ "$got" != "$exp" ]; then echo "    => VIOLATION"; bad=1; else echo "    => ok"; fi
}

mkdir w; touch 'w/?:a' 'w/?i:a' 'w/a' 'w/A' 'w/?a'
check "posix-basic: '?' is an ordinary character, \\(?:a\\) is a group around the text '?:a'" "w/?:a" w -regextype posix-basic -regex 'w/\(?:a\)'
check "posix-basic: \\(?i:a\\) is the text '?i:a' (it must not switch on case-insensitivity)" "w/?i:a" w -regextype posix-basic -regex 'w/\(?i:a\)'
check "emacs: '?' after \\( is literal" "w/?:a" w -regex 'w/\(?:a\)'
check "grep" "w/?i:a" w -regextype grep -regex 'w/\(?i:a\)'
check "posix-basic: \\(?a\\) is the text '?a' (uutils: error 'undefined group option')" "w/?a" w -regextype posix-basic -regex 'w/\(?a\)'
check "posix-basic: \\(?=a\\)a can only match the text '?=aa' (uutils: lookahead)" "" w -regextype posix-basic -regex 'w/\(?=a\)a'

if [ $bad = 1 ]; then echo "RESULT: violation present"; exit 1; else echo "RESULT: no violation"; exit 0; fi
