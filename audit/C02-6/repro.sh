#!/bin/bash
# C02: under -L a symlink whose target cannot be examined (EACCES) is not visited at all
BIN=${1:?usage: repro.sh <dir with binaries>}
D=$(mktemp -d); trap 'chmod -R u+rwx "$D" 2>/dev/null; rm -rf "$D"' EXIT
chmod 755 "$D"; cd "$D" || exit 2
cp "$BIN/find" ./find.bin 2>/dev/null || cp -L "$BIN/find" ./find.bin; chmod 755 ./find.bin
mkdir -p t/priv/d t/z; touch t/priv/f t/z/plain
ln -s ../priv/f t/z/lf; ln -s ../priv/d t/z/ld
chmod 000 t/priv
RUN=""
if [ "$(id -u)" -eq 0 ]; then
  if command -v setpriv >/dev/null; then chown -R 65534:65534 "$D"; RUN="setpriv --reuid=65534 --regid=65534 --clear-groups"
  else echo "running as root without setpriv: cannot make a directory unsearchable; cannot test"; exit 0; fi
fi
echo "tree    : t/priv (mode 000) contains f and d/; t/z/lf -> ../priv/f ; t/z/ld -> ../priv/d ; t/z/plain"
echo "command : find -L t/z      (as an unprivileged user)"
echo "expected: t/z t/z/lf t/z/ld t/z/plain each once (plus diagnostics for the two links, exit != 0)"
$RUN ./find.bin -L t/z >out.txt 2>err.txt; rc=$?; out=$(sort out.txt)
echo "rc=$rc"
echo "got:"; echo "$out" | sed 's/^/  /'; sed 's/^/  stderr: /' err.txt
if ! echo "$out" | grep -qx 't/z/lf' || ! echo "$out" | grep -qx 't/z/ld'; then
  echo "VIOLATION: t/z/lf and/or t/z/ld were never evaluated"; exit 1
fi
echo ok; exit 0
