#!/bin/sh
# C19: an unterminated quote is an input error -> exit status 1.
BIN="$1"; S=$(mktemp -d); cd "$S" || exit 2
# The quote opened on line 1 is never closed on that line.
printf "a 'b\nc' d\n" | "$BIN/xargs" -n1 echo >out 2>err; rc=$?
echo "expected: exit status 1 (unmatched single quote on line 1), nothing after 'a' run"
echo "got: exit status $rc, stdout:"; cat out; echo "stderr:"; cat err
cd /; rm -rf "$S"
[ "$rc" -ne 1 ] && exit 1
exit 0
