#!/bin/bash
# C08: with a large environment and a small stack limit, -exec {} + drops paths
# ("Cannot fit a single argument") although the OS would accept them, and then runs CMD with no path.
BIN=${1:?usage: repro.sh DIR_WITH_BINARIES}; BIN=$(cd "$BIN" && pwd)
T=$(mktemp -d); trap 'rm -rf "$T"' EXIT; cd "$T"
d=$(printf 'd%.0s' $(seq 200)); e=$(printf 'e%.0s' $(seq 200)); f=$(printf 'f%.0s' $(seq 200))
mkdir -p "t/$d/$e/$f"; touch t/short
expected=$("$BIN/find" t -print | wc -l)
viol=0
for pad in 124000 124400 124700 125000; do
  big=$(head -c $pad /dev/zero | tr '\0' x)
  res=$( ulimit -s 512; env -i BIG="$big" "$BIN/find" t -exec sh -c 'echo "INV $#"; for a; do echo "ARG"; done' sh {} + 2>err.txt; echo "rc=$?" )
  got=$(printf '%s\n' "$res" | grep -c '^ARG')
  empty=$(printf '%s\n' "$res" | grep -c '^INV 0$')
  echo "env pad=$pad ulimit -s 512: paths reaching the action=$expected, delivered=$got, invocations without any path=$empty, $(printf '%s\n' "$res" | tail -1), stderr: $(cut -c1-60 err.txt | head -1)"
  if [ "$got" -ne "$expected" ] || [ "$empty" -ne 0 ]; then viol=1; fi
done
echo "expected: every one of the $expected paths passed to exactly one invocation (GNU find does deliver all of them with the same env and limit)"
if [ $viol = 1 ]; then echo "VIOLATION: paths were dropped / CMD run without paths"; exit 1; fi
exit 0
