#!/bin/bash
# C09: {} in the command-name position of -exec/-execdir ... ; is not substituted.
BIN=${1:?usage: repro.sh DIR_WITH_BINARIES}; BIN=$(cd "$BIN" && pwd)
T=$(mktemp -d); trap 'rm -rf "$T"' EXIT; cd "$T"
mkdir t; printf '#!/bin/sh\necho "ran $0 $*"\n' > t/prog; chmod +x t/prog
viol=0
for mode in -exec -execdir; do
  out=$("$BIN/find" t -name prog $mode {} arg \; -print 2>&1)
  echo "command : find t -name prog $mode {} arg \; -print"
  echo "expected: {} replaced by the path everywhere -> 'ran t/prog arg' (resp. './prog'), then 't/prog' printed (action true)"
  echo "actual  : $(echo "$out" | tr '\n' '|')"
  case "$out" in "ran "*) ;; *) viol=1;; esac
done
out=$("$BIN/find" t -name prog -exec ./{} arg \; 2>&1)
echo "command : find t -name prog -exec ./{} arg \;   -> $(echo "$out" | tr '\n' '|')   (expected 'ran ./t/prog arg')"
case "$out" in "ran "*) ;; *) viol=1;; esac
if [ $viol = 1 ]; then echo "VIOLATION: {} in the first word after -exec is passed to exec literally"; exit 1; fi
exit 0
