#!/bin/bash
# C13-3: -type / -xtype reject a comma-separated list of type letters.
BIN=${1:?usage: repro.sh <dir-with-binaries>}
FIND=$BIN/find
T=$(mktemp -d) || exit 2
trap 'rm -rf "$T"' EXIT
cd "$T" || exit 2
mkdir d; touch f; mkfifo p; ln -s f l
bad=0
exp=$( { $FIND . -type f; $FIND . -type l; } | sort | tr '\n' ' ')
got=$($FIND . -type f,l 2>&1 | sort | tr '\n' ' '); rc=$?
echo "-type f,l  expected (union of -type f and -type l): [$exp]"
echo "           got: [$got]"
[ "$exp" != "$got" ] && bad=1
exp=$( { $FIND . -xtype f; $FIND . -xtype p; } | sort | tr '\n' ' ')
got=$($FIND . -xtype f,p 2>&1 | sort | tr '\n' ' ')
echo "-xtype f,p expected (union of -xtype f and -xtype p): [$exp]"
echo "           got: [$got]"
[ "$exp" != "$got" ] && bad=1
[ -x /usr/bin/find ] && echo "GNU -type f,l: [$(/usr/bin/find . -type f,l | sort | tr '\n' ' ')]"
if [ $bad = 1 ]; then echo "VIOLATION present"; exit 1; fi
echo "no violation"; exit 0
