#!/bin/bash
# C08: with a stack limit of 100 KiB the batches built by -exec {} + are rejected by the OS (E2BIG).
BIN=${1:?usage: repro.sh DIR_WITH_BINARIES}; BIN=$(cd "$BIN" && pwd)
T=$(mktemp -d); trap 'rm -rf "$T"' EXIT; cd "$T"
mkdir t; y=$(printf 'y%.0s' $(seq 230))
for i in $(seq 1000 1699); do : > "t/f${i}_$y"; done
expected=$("$BIN/find" t -name 'f*' -print | wc -l)
viol=0
for s in 100 64; do
  got=$( ulimit -s $s; env -i PATH=/usr/bin:/bin "$BIN/find" t -name 'f*' -exec sh -c 'for a; do echo ARG; done' sh {} + 2>err.txt | grep -c ARG )
  echo "ulimit -s $s: paths reaching the action=$expected delivered=$got; stderr: $(sort err.txt | uniq -c | head -2 | tr '\n' ' ')"
  [ "$got" -ne "$expected" ] && viol=1
done
echo "expected: each invocation accepted by the OS, all $expected paths delivered (they do with e.g. ulimit -s 140, in more batches)"
if [ $viol = 1 ]; then echo "VIOLATION: invocations rejected with E2BIG under a shrunken stack limit"; exit 1; fi
exit 0
