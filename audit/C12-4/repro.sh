#!/bin/bash
# usage: repro.sh <directory containing the find binary>
BIN=${1:?usage: repro.sh DIR_WITH_BINARIES}
FIND="$BIN/find"
export LC_ALL=C
T=$(mktemp -d) || exit 2
trap 'rm -rf "$T"' EXIT
cd "$T" || exit 2
bad=0
# check DESCRIPTION EXPECTED find-args... : runs $FIND, joins sorted output lines with a space
check() {
  desc=$1; exp=$2; shift 2
  got=$("$FIND" "$@" 2>"$T/.stderr" | sort | tr '\n' ' ' | sed 's/ $//')
  gnu=$(/usr/bin/find "$@" 2>/dev/null | sort | tr '\n' ' ' | sed 's/ $//')
  echo "--- $desc"
  echo "    command : find $*"
  echo "    expected: [$exp]"
  echo "    got     : [$got]"
  [ -x /usr/bin/find ] && echo "    GNU find: [$gnu]"
  [ -s "$T/.stderr" ] && sed 's/^/    stderr  : /' "$T/.stderr" | cut -c1-200
  if [ "$got" != "$exp" ]; then echo "    => VIOLATION"; bad=1; else echo "    => ok"; fi
}

mkdir w; for c in '!' ',' '+' '$' '<' '=' '>' '^' '`' '|' '~'; do touch "w/$c"; done
check "[[:punct:]] matches every ASCII punctuation character" 'w/! w/$ w/+ w/, w/< w/= w/> w/^ w/` w/| w/~' w -mindepth 1 -name '[[:punct:]]'
check "[![:punct:]] matches none of them" '' w -mindepth 1 -name '[![:punct:]]'

if [ $bad = 1 ]; then echo "RESULT: violation present"; exit 1; else echo "RESULT: no violation"; exit 0; fi
