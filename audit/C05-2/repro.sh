#!/bin/bash
# a backslash that is the last byte of the input quotes nothing; no argument may be invented for it
set -u
BIN=${1:?usage: repro.sh <dir with find and xargs>}
T=$(mktemp -d); trap "rm -rf \"$T\"" EXIT; cd "$T"
cat > show.py <<"E"
import sys,os
sys.stdout.write("".join("<"+os.fsencode(a).hex()+">" for a in sys.argv[1:])+"\n")
E

got1=$(printf 'a \\' | "$BIN/xargs" python3 show.py)
got2=$(printf '\\' | "$BIN/xargs" -r python3 show.py; echo "ran=$?")
echo "input 'a \\' (EOF right after the backslash)"
echo "expected: <61>            (one argument; GNU gives exactly this)"
echo "got:      $got1"
echo "input '\\' alone with -r: expected no invocation at all, got: $got2"
[ "$got1" = "<61>" ] && [ "$got2" = "ran=0" ] && exit 0
exit 1
