#!/bin/bash
# -d '\0' (documented escape for the NUL byte) must select NUL as the delimiter
set -u
BIN=${1:?usage: repro.sh <dir with find and xargs>}
T=$(mktemp -d); trap "rm -rf \"$T\"" EXIT; cd "$T"
cat > show.py <<"E"
import sys,os
sys.stdout.write("".join("<"+os.fsencode(a).hex()+">" for a in sys.argv[1:])+"\n")
E

got=$(printf 'a b\0c\0' | "$BIN/xargs" -d '\0' python3 show.py 2>err.txt); rc=$?
echo "command:  printf 'a b\\0c\\0' | xargs -d '\\0' CMD"
echo "expected: <612062><63> rc=0"
echo "got:      $got rc=$rc $(head -c 200 err.txt | tr '\n' ' ')"
[ "$got" = "<612062><63>" ] && [ $rc = 0 ] && exit 0
exit 1
