#!/bin/sh
# C03: -prune on a mount point under -xdev must cut only that directory's
# subtree; siblings and every other subtree must still be visited.
BIN=${1:?usage: repro.sh DIR_WITH_BINARIES}
FIND=$(cd "$BIN" && pwd)/find
S=$(mktemp -d) || exit 2
trap 'rm -rf "$S"' EXIT
cd "$S" || exit 2
mkdir -p t/a t/m t/z/zz
touch t/a/f t/z/zz/g t/zfile

EXPECTED='t
t/a
t/a/f
t/z
t/z/zz
t/z/zz/g
t/zfile'

# Preferred: private mount namespace with a tmpfs mounted on t/m.
if unshare -m sh -c 'mount -t tmpfs tmpfs t/m' 2>/dev/null; then
    GOT=$(unshare -m sh -c "mount -t tmpfs tmpfs t/m && touch t/m/inside && '$FIND' t -sorted -xdev -name m -prune -o -print")
    echo "command : find t -sorted -xdev -name m -prune -o -print   (t/m is a tmpfs mount point)"
else
    # Fallback: use an existing mount point directly below / (e.g. /proc).
    MP=
    for c in proc sys dev run tmp; do
        [ -d "/$c" ] && [ "$(stat -c %d /)" != "$(stat -c %d "/$c")" ] && { MP=$c; break; }
    done
    [ -n "$MP" ] || { echo "cannot mount and no mount point below / : cannot test"; exit 0; }
    EXPECTED=$(/usr/bin/find / -maxdepth 1 -xdev -name "$MP" -prune -o -print | LC_ALL=C sort)
    GOT=$("$FIND" / -sorted -maxdepth 1 -xdev -name "$MP" -prune -o -print)
    echo "command : find / -sorted -maxdepth 1 -xdev -name $MP -prune -o -print   (/$MP is a mount point)"
fi
echo "expected (everything except the pruned mount point):"
echo "$EXPECTED"
echo "got:"
echo "$GOT"
if [ "$GOT" != "$EXPECTED" ]; then
    echo "VIOLATION: siblings after the pruned mount point were not visited"
    exit 1
fi
echo "ok"
exit 0
