#!/bin/bash
# C02: tree whose paths grow beyond PATH_MAX
BIN=${1:?usage: repro.sh <dir with binaries>}
D=$(mktemp -d); trap 'cd /; rm -rf "$D" 2>/dev/null || python3 -c "import shutil,sys; shutil.rmtree(sys.argv[1],True)" "$D"' EXIT
cd "$D" || exit 2
python3 - <<'PY'
import os
os.mkdir('t'); os.chdir('t')
for i in range(1200):
    os.mkdir('dddd'); os.chdir('dddd')
open('leaf','w').close()
PY
total=1202   # t + 1200 directories + leaf
echo "tree    : t/dddd/dddd/... 1200 levels deep, then a file 'leaf' (path length ~6000 > PATH_MAX)"
echo "expected: $total entries, the deepest being .../leaf, exit 0"
"$BIN/find" t >out.txt 2>err.txt; rc=$?; n=$(wc -l < out.txt)
leaf=$("$BIN/find" t -name leaf 2>/dev/null | wc -l)
echo "got     : $n entries, 'leaf' found $leaf time(s), rc=$rc; stderr: $(cut -c1-40 err.txt | head -1)...$(tail -c 60 err.txt | tr -d '\n')"
if [ "$n" -ne $total ] || [ "$leaf" -ne 1 ]; then echo "VIOLATION: $((total-n)) entries never visited"; exit 1; fi
echo ok; exit 0
