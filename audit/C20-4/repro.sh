#!/bin/sh
# C20: every occurrence of R is replaced by the ENTIRE line (bytes unchanged).
BIN="$1"; S=$(mktemp -d); cd "$S" || exit 2
cat > p.sh <<"EOP"
#!/bin/sh
printf "RUN"; for a; do printf " [%s]" "$a"; done; echo
EOP
chmod +x p.sh
printf 'caf\351 au lait\n' | "$BIN/xargs" -I{} ./p.sh {} >out 2>err; rc=$?
printf 'RUN [caf\351 au lait]\n' >want
echo "expected:"; od -c want | head -3
echo "got (exit $rc):"; od -c out | head -3
if cmp -s out want; then r=0; else r=1; fi
cd /; rm -rf "$S"; exit $r
