#!/bin/sh
# C20: R is exactly what follows -I; "-I=R" means R is "=R".
BIN="$1"; S=$(mktemp -d); cd "$S" || exit 2
cat > p.sh <<"EOP"
#!/bin/sh
printf "RUN"; for a; do printf " [%s]" "$a"; done; echo
EOP
chmod +x p.sh
printf 'a b\n' | "$BIN/xargs" -I=R ./p.sh R x=Ry >out 2>err; rc=$?
echo "expected: RUN [R] [xa by]    (R is '=R': the bare 'R' has no occurrence and is passed unchanged)"
echo "got (exit $rc): $(cat out)"
r=0; [ "$(cat out)" = "RUN [R] [xa by]" ] || r=1
cd /; rm -rf "$S"; exit $r
