#!/bin/sh
# C10: an entry that cannot be removed "yields a diagnostic, makes -delete false ... and
# does not stop the walk" -- also when the diagnostic itself cannot be written.
BIN=${1:?usage: repro.sh DIR_WITH_BINARIES}
FIND=$(cd "$BIN" && pwd)/find
[ -c /dev/full ] || { echo "/dev/full not available: cannot test"; exit 0; }
S=$(mktemp -d) || exit 2
trap 'rm -rf "$S"' EXIT
cd "$S" || exit 2
mkdir -p t/a/sub; touch t/a/sub/f t/b t/c
# depth-1 entries only: t/a is not empty (cannot be removed), t/b and t/c are plain files.
"$FIND" t -sorted -maxdepth 1 -mindepth 1 -delete 2>/dev/full; RC=$?
LEFT=$(/usr/bin/find t -mindepth 1 -maxdepth 1 | LC_ALL=C sort | tr '\n' ' ')
echo "command : find t -sorted -maxdepth 1 -mindepth 1 -delete 2>/dev/full     (t/a non-empty dir, t/b t/c files)"
echo "expected: t/a stays, t/b and t/c are removed, exit status 1"
echo "got     : exit status $RC, left: $LEFT"
if [ "$LEFT" != "t/a " ]; then
    echo "VIOLATION: the failed removal of t/a stopped the walk (panic while writing the diagnostic)"
    exit 1
fi
echo ok
exit 0
