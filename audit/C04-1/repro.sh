#!/bin/bash
# C04: empty arguments are silently dropped with -0 / -d
BIN=${1:?usage: repro.sh <dir with find and xargs>}
X="$BIN/xargs"
T=$(mktemp -d); trap 'rm -rf "$T"' EXIT; cd "$T"
rc=0
exp=$'[a]\n[]\n[b]'
got=$(printf 'a\0\0b\0' | "$X" -0 printf '[%s]\n')
echo "case 1: printf 'a\\0\\0b\\0' | xargs -0 printf '[%s]\\n'"
echo "expected (three arguments, the middle one empty):"; echo "$exp"
echo "got:"; echo "$got"
[ "$got" != "$exp" ] && rc=1
got2=$(printf 'a\n\nb\n' | "$X" -d '\n' -n1 printf '[%s]\n')
echo "case 2: printf 'a\\n\\nb\\n' | xargs -d '\\n' -n1 printf '[%s]\\n'"
echo "expected:"; echo "$exp"; echo "got:"; echo "$got2"
[ "$got2" != "$exp" ] && rc=1
# only-empty input with -r: one (empty) argument exists, so the command must run
got3=$(printf '\0' | "$X" -0 -r printf '[%s]\n')
echo "case 3: printf '\\0' | xargs -0 -r printf '[%s]\\n'   expected: []   got: '$got3'"
[ "$got3" != "[]" ] && rc=1
[ $rc = 1 ] && echo "VIOLATION: empty input arguments were lost" || echo "no violation"
exit $rc
