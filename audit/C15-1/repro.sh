#!/bin/sh
# C15: -newerXY F / -anewer / -cnewer must use F's Y timestamp; under -P (default) F itself is the
# symlink, exactly as for -newer.  -newermm must agree with -newer.
BIN=${1:-.}; FIND="$BIN/find"
T=$(mktemp -d); trap 'rm -rf "$T"' EXIT; cd "$T" || exit 2
touch -d '2020-01-01' old
touch -d '2022-01-01' mid
ln -s old reflnk
touch -h -d '2023-01-01' reflnk      # the link itself is NEWER than mid, its target is OLDER
ln -s nowhere dangling
touch -h -d '2023-01-01' dangling
bad=0
r_newer=$("$FIND" -P mid -newer reflnk)
for p in -newermm -neweram -anewer; do
  r=$("$FIND" -P mid $p reflnk 2>&1)
  echo "find -P mid $p reflnk : expected '' (mid 2022 is not later than the link's own 2023 time; -newer gives '$r_newer'), got '$r'"
  [ "$r" = "$r_newer" ] || bad=1
done
r=$("$FIND" -P mid -newermm dangling 2>&1); rc=$?
echo "find -P mid -newermm dangling : expected '' with status 0 (as -newer dangling does), got '$r' status $rc"
[ $rc -eq 0 ] && [ -z "$r" ] || bad=1
[ $bad -eq 1 ] && { echo "VIOLATION present"; exit 1; }
echo "no violation"; exit 0
