#!/bin/bash
# C18: starting points given on the command line are walked; -files0-from cannot be combined with
# operands. An explicit '.' operand next to -files0-from is silently discarded.
BIN=${1:?usage: repro.sh DIR_WITH_BINARIES}
T=$(mktemp -d); trap 'rm -rf "$T"' EXIT
cd "$T" && mkdir e && touch e/h top
printf 'e\0' > list
"$BIN/find" . -files0-from list -name top >out.txt 2>err.txt; rc=$?
"$BIN/find" e -files0-from list -name top >out2.txt 2>err2.txt; rc2=$?
echo "command : find . -files0-from list -name top      (list = 'e' NUL; ./top exists)"
echo "expected: either ./top is found (the operand '.' is walked) or the combination is rejected"
echo "          (GNU 4.9: extra operand '.' / file operands cannot be combined with -files0-from, status 1)"
echo "got     : status $rc, stdout [$(tr '\n' ' ' <out.txt)], stderr [$(head -1 err.txt)]"
echo "for comparison, operand 'e' instead of '.': status $rc2, stderr [$(head -1 err2.txt)]"
if [ $rc -eq 0 ] && ! grep -q top out.txt; then
  echo "VIOLATION: the explicit starting point '.' was silently dropped"
  exit 1
fi
exit 0
