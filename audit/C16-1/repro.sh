#!/bin/sh
# C16: \NNN must be replaced by its character (the byte with that octal value).
BIN=${1:-.}; FIND="$BIN/find"
T=$(mktemp -d); trap 'rm -rf "$T"' EXIT; cd "$T" || exit 2
touch f
bad=0
for esc in 200 351 377; do
  got=$("$FIND" f -printf "\\$esc" | od -An -to1 | tr -d ' \n')
  printf '%s\n' "find f -printf '(backslash)$esc' : expected the single byte $esc, got bytes (octal, concatenated): $got"
  [ "$got" = "$esc" ] || bad=1
done
[ $bad -eq 1 ] && { echo "VIOLATION present"; exit 1; }
echo "no violation"; exit 0
