#!/bin/bash
# C13-1: -perm with symbolic 'X' ignores that the entry is a directory.
BIN=${1:?usage: repro.sh <dir-with-binaries>}
FIND=$BIN/find
T=$(mktemp -d) || exit 2
trap 'rm -rf "$T"' EXIT
cd "$T" || exit 2
mkdir d_noexec d_exec
chmod 0644 d_noexec     # directory without any x bit
chmod 0111 d_exec       # directory whose mode is exactly 0111
bad=0

echo "For a directory the symbolic mode a+X denotes 0111 (chmod semantics),"
echo "so on directories -perm -a+X must behave like -perm -111 and -perm a+X like -perm 111."

exp=$($FIND d_noexec d_exec -maxdepth 0 -perm -111 | sort | tr '\n' ' ')
got=$($FIND d_noexec d_exec -maxdepth 0 -perm -a+X | sort | tr '\n' ' ')
echo "-perm -111  -> [$exp]"
echo "-perm -a+X  -> [$got]   (expected the same as -perm -111)"
[ "$exp" != "$got" ] && bad=1

exp=$($FIND d_noexec d_exec -maxdepth 0 -perm 111 | sort | tr '\n' ' ')
got=$($FIND d_noexec d_exec -maxdepth 0 -perm a+X | sort | tr '\n' ' ')
echo "-perm 111   -> [$exp]"
echo "-perm a+X   -> [$got]   (expected the same as -perm 111)"
[ "$exp" != "$got" ] && bad=1

exp=$($FIND d_noexec d_exec -maxdepth 0 -perm /111 | sort | tr '\n' ' ')
got=$($FIND d_noexec d_exec -maxdepth 0 -perm /a+X | sort | tr '\n' ' ')
echo "-perm /111  -> [$exp]"
echo "-perm /a+X  -> [$got]   (expected the same as -perm /111)"
[ "$exp" != "$got" ] && bad=1

if [ -x /usr/bin/find ]; then
  echo "GNU: -perm -a+X -> [$(/usr/bin/find d_noexec d_exec -maxdepth 0 -perm -a+X | sort | tr '\n' ' ')]" \
       " -perm a+X -> [$(/usr/bin/find d_noexec d_exec -maxdepth 0 -perm a+X | sort | tr '\n' ' ')]"
fi
if [ $bad = 1 ]; then echo "VIOLATION present"; exit 1; fi
echo "no violation"; exit 0
