#!/bin/bash
# usage: repro.sh <directory containing the find binary>
BIN=${1:?usage: repro.sh DIR_WITH_BINARIES}
FIND="$BIN/find"
export LC_ALL=C
T=$(mktemp -d) || exit 2
trap 'rm -rf "$T"' EXIT
cd "$T" || exit 2
bad=0
# check DESCRIPTION EXPECTED find-args... : runs $FIND, joins sorted output lines with a space
check() {
  desc=$1; exp=$2; shift 2
  got=$("$FIND" "$@" 2>"$T/.stderr" | sort | tr '\n' ' ' | sed 's/ $//')
  gnu=$(/usr/bin/find "$@" 2>/dev/null | sort | tr '\n' ' ' | sed 's/ $//')
  echo "--- $desc"
  echo "    command : find $*"
  echo "    expected: [$exp]"
  echo "    got     : [$got]"
  [ -x /usr/bin/find ] && echo "    GNU find: [$gnu]"
  [ -s "$T/.stderr" ] && sed 's/^/    stderr  : /' "$T/.stderr" | cut -c1-200
  if [ "$got" != "$exp" ]; then echo "    => VIOLATION"; bad=1; else echo "    => ok"; fi
}

mkdir w; touch 'w/a' 'w/aa' 'w/aaa' 'w/a+' 'w/a?' 'w/b'
check "posix-basic: a\\+ is one or more a (the way '+' is written in this syntax)" "w/a w/aa w/aaa" w -regextype posix-basic -regex 'w/a\+'
check "posix-basic: ba\\? / a\\? is zero or one a" "w/a" w -regextype posix-basic -regex 'w/a\?'
check "sed" "w/a w/aa w/aaa" w -regextype sed -regex 'w/a\+'
check "ed" "w/a w/aa w/aaa" w -regextype ed -regex 'w/a\+'

if [ $bad = 1 ]; then echo "RESULT: violation present"; exit 1; else echo "RESULT: no violation"; exit 0; fi
