#!/bin/bash
# C11: an invalid operand to -newerXY (Y = t) must be rejected.
BIN=${1:?usage: repro.sh DIR_WITH_BINARIES}
T=$(mktemp -d); trap 'rm -rf "$T"' EXIT
cd "$T" && mkdir d && touch d/f
bad=0
echo "expected: the malformed dates below are rejected (GNU: I cannot figure out how to interpret ...)"
for t in ', 2025' ', 2025 10:00:00'; do
  out=$("$BIN/find" d -newermt "$t" 2>err.txt); rc=$?
  g=$(/usr/bin/find d -newermt "$t" 2>&1 >/dev/null | head -1)
  printf "find d -newermt '%s'  ours: status %s, %s lines printed | GNU: %s\n" "$t" "$rc" "$(echo "$out" | grep -c .)" "${g:-accepted}"
  [ $rc -eq 0 ] && bad=1
done
if [ $bad -eq 1 ]; then echo "VIOLATION: malformed -newermt date accepted"; exit 1; fi
exit 0
