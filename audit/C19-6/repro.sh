#!/bin/sh
# C19 (low confidence): -L implies -x in GNU/POSIX: lines that do not fit -> "argument list too long", exit 1.
BIN="$1"; S=$(mktemp -d); cd "$S" || exit 2
printf 'aaa\nbbb\n' | "$BIN/xargs" -L 2 -s 12 echo >out 2>err; rc=$?
echo "expected: exit 1 (echo aaa bbb = 13 bytes does not fit -s 12; -L implies -x), nothing run"
echo "got: exit $rc, stdout:"; cat out
cd /; rm -rf "$S"
[ "$rc" -ne 1 ] && exit 1
exit 0
