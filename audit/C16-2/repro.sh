#!/bin/sh
# C16: octal escapes with one or two digits (\1, \12) are escapes like \NNN and must be rendered.
BIN=${1:-.}; FIND="$BIN/find"
T=$(mktemp -d); trap 'rm -rf "$T"' EXIT; cd "$T" || exit 2
touch f
bad=0
got=$("$FIND" f -printf 'a\12' 2>err | od -An -c | tr -d ' \n'); 
printf '%s\n' "find f -printf 'a(backslash)12' : expected bytes 'a' and newline, got (od -c) '$got' stderr: $(cat err)"
[ "$got" = 'a\n' ] || bad=1
got=$("$FIND" f -printf '\1x' 2>err | od -An -to1 | tr -d ' \n')
printf '%s\n' "find f -printf '(backslash)1x' : expected bytes 001 170, got '$got' stderr: $(cat err)"
[ "$got" = '001170' ] || bad=1
[ $bad -eq 1 ] && { echo "VIOLATION present"; exit 1; }
echo "no violation"; exit 0
