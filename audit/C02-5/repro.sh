#!/bin/bash
# C02: -files0-from silently drops starting points that are not valid UTF-8
BIN=${1:?usage: repro.sh <dir with binaries>}
D=$(mktemp -d); trap 'rm -rf "$D"' EXIT
cd "$D" || exit 2
bad=$(printf 'd\377')
mkdir "$bad" t2; touch "$bad/in" t2/ok
printf 'd\377\0t2\0' > list
echo "command : find -files0-from list     (list = 'd\\377' NUL 't2' NUL)"
echo "expected: 4 entries (d\\377, d\\377/in, t2, t2/ok) - or at least a diagnostic and non-zero status"
"$BIN/find" -files0-from list >out.txt 2>err.txt; rc=$?; n=$(wc -l < out.txt)
echo "got     : $n entries, rc=$rc, stderr: '$(cat err.txt)'"
if [ "$n" -ne 4 ]; then
  echo "VIOLATION: starting point d\\377 skipped$([ $rc -eq 0 ] && [ ! -s err.txt ] && echo ' silently (exit 0, no diagnostic)')"; exit 1
fi
echo ok; exit 0
