#!/bin/sh
# C03: -depth with -H and a starting point that is a symbolic link to a directory.
#  (a) with -sorted, siblings must be evaluated in byte-wise name order;
#  (b) with -mindepth 1 every entry below the starting point must still be evaluated.
BIN=${1:?usage: repro.sh DIR_WITH_BINARIES}
FIND=$(cd "$BIN" && pwd)/find
S=$(mktemp -d) || exit 2
trap 'rm -rf "$S"' EXIT
cd "$S" || exit 2
mkdir -p t/a t/b t/c
touch t/a/1 t/b/2 t/c/3 t/d
ln -s t lt
rc=0

EXP_A='lt/a/1
lt/a
lt/b/2
lt/b
lt/c/3
lt/c
lt/d
lt'
GOT_A=$("$FIND" -H lt -depth -sorted)
echo "(a) find -H lt -depth -sorted"
echo "expected (siblings a < b < c < d, each directory right after its contents):"; echo "$EXP_A"
echo "got:"; echo "$GOT_A"
if [ "$GOT_A" != "$EXP_A" ]; then echo "VIOLATION (a): sibling order is not name order"; rc=1; fi

EXP_B='lt/a/1
lt/a
lt/b/2
lt/b
lt/c/3
lt/c
lt/d'
GOT_B=$("$FIND" -H lt -depth -sorted -mindepth 1)
echo
echo "(b) find -H lt -depth -sorted -mindepth 1"
echo "expected:"; echo "$EXP_B"
echo "got:"; echo "$GOT_B"
if [ "$(echo "$GOT_B" | LC_ALL=C sort)" != "$(echo "$EXP_B" | LC_ALL=C sort)" ]; then
    echo "VIOLATION (b): an entry at depth >= mindepth was never evaluated"; rc=1
fi
[ $rc = 0 ] && echo ok
exit $rc
