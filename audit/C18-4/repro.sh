#!/bin/bash
# C18 (lower confidence): an empty name in -files0-from is diagnosed and skipped, but the exit
# status stays 0 although an error was diagnosed (and although the same name given as an operand
# makes find exit 1).
BIN=${1:?usage: repro.sh DIR_WITH_BINARIES}
T=$(mktemp -d); trap 'rm -rf "$T"' EXIT
cd "$T" && mkdir e && touch e/h
printf 'e\0\0\0e\0' > list
"$BIN/find" -files0-from list >out.txt 2>err.txt; rc=$?
"$BIN/find" e "" "" e >out2.txt 2>err2.txt; rc2=$?
echo "list    : e NUL NUL NUL e NUL  (two empty names)"
echo "expected: e e/h e e/h, one diagnostic per empty name, non-zero status (GNU 4.9: two 'invalid zero-length file name' lines, status 1)"
echo "got     : status $rc, stdout [$(tr '\n' ' ' <out.txt)], stderr has $(wc -l <err.txt) line(s): $(head -1 err.txt)"
echo "same names as operands (find e '' '' e): status $rc2, $(wc -l <err2.txt) diagnostics"
if [ $rc -eq 0 ]; then
  echo "VIOLATION: error diagnosed but exit status 0 (and not equivalent to the operand form, status $rc2)"
  exit 1
fi
exit 0
