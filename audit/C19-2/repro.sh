#!/bin/sh
# C19: an unterminated quote is an input error -> exit status 1 (also under -I).
BIN="$1"; S=$(mktemp -d); cd "$S" || exit 2
printf "'abc\n" | "$BIN/xargs" -I{} echo {} >out 2>err; rc=$?
echo "expected: exit status 1 (unterminated quote), echo not run"
echo "got: exit status $rc, stdout:"; cat out; echo "stderr:"; cat err
cd /; rm -rf "$S"
[ "$rc" -ne 1 ] && exit 1
exit 0
