#!/bin/bash
# C11: an invalid operand to -perm must be rejected.
BIN=${1:?usage: repro.sh DIR_WITH_BINARIES}
T=$(mktemp -d); trap 'rm -rf "$T"' EXIT
cd "$T" && mkdir d && touch d/f && chmod 600 d/f
bad=0
echo "expected: every mode below is rejected (GNU 4.9: find: invalid mode '...', status 1)"
for m in '+600' ' 600' '600 ' $'600\n' '- 7' '/ 7' '+ 7'; do
  out=$("$BIN/find" d -perm "$m" 2>err.txt); rc=$?
  g=$(/usr/bin/find d -perm "$m" 2>&1 >/dev/null | head -1)
  printf "%-10q ours: status %s, printed [%s] | GNU: %s\n" "$m" "$rc" "$(echo $out)" "${g:-accepted}"
  [ $rc -eq 0 ] && bad=1
done
if [ $bad -eq 1 ]; then echo "VIOLATION: invalid -perm operand accepted"; exit 1; fi
exit 0
