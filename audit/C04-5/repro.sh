#!/bin/bash
# C04: a NUL byte in the input aborts the run with status 126; the remaining arguments are never passed
BIN=${1:?usage: repro.sh <dir with find and xargs>}
X="$BIN/xargs"
T=$(mktemp -d); trap 'rm -rf "$T"' EXIT; cd "$T"
rc=0
echo "case: printf 'a b\\0c d\\ne\\n' | xargs -n1 echo"
printf 'a b\0c d\ne\n' | "$X" -n1 echo > out.txt 2> err.txt; st=$?
echo "expected: every argument that can be passed (a, d, e at least) is passed, or a diagnostic with exit status 1"
echo "got: exit status $st, stdout:"; cat out.txt; echo "stderr:"; cat err.txt
if [ $st = 126 ] || ! grep -qx e out.txt; then rc=1; fi
[ $rc = 1 ] && echo "VIOLATION: arguments after the NUL-containing one were lost (status $st)" || echo "no violation"
exit $rc
