#!/bin/sh
# C16: %h is the part of the path before the last component, so "%h/%f" spells %p again.
BIN=${1:-.}; FIND="$BIN/find"
T=$(mktemp -d); trap 'rm -rf "$T"' EXIT; cd "$T" || exit 2
mkdir -p d/sub; touch d/file
bad=0
got=$("$FIND" d/. -name file -printf '%p|%h|%f')
echo "find d/. -name file -printf '%p|%h|%f' : expected 'd/./file|d/.|file', got '$got'"
[ "$got" = 'd/./file|d/.|file' ] || bad=1
got=$("$FIND" d/./sub -maxdepth 0 -printf '%p|%h|%f')
echo "find d/./sub -maxdepth 0             : expected 'd/./sub|d/.|sub', got '$got'"
[ "$got" = 'd/./sub|d/.|sub' ] || bad=1
got=$("$FIND" d/. -maxdepth 0 -printf '%p|%h|%f')
echo "find d/. -maxdepth 0                 : expected 'd/.|d|.', got '$got'"
[ "$got" = 'd/.|d|.' ] || bad=1
[ $bad -eq 1 ] && { echo "VIOLATION present"; exit 1; }
echo "no violation"; exit 0
