#!/bin/bash
# C01: parentheses nested deeper than 100 levels
BIN=${1:?usage: repro.sh <dir with binaries>}
D=$(mktemp -d); trap 'rm -rf "$D"' EXIT
cd "$D" || exit 2
mkdir t; touch t/x t/y
args=(); for i in $(seq 101); do args+=( '(' ); done
args+=( -name x ); for i in $(seq 101); do args+=( ')' ); done
echo "command : find t ( x101 -name x ) x101"
echo "expected: t/x  (nesting 'to arbitrary depth')"
got=$("$BIN/find" t "${args[@]}" 2>&1); rc=$?
echo "got (rc=$rc): $got"
if [ "$got" != "t/x" ] || [ $rc -ne 0 ]; then echo "VIOLATION: well-formed expression rejected"; exit 1; fi
echo ok; exit 0
