#!/bin/sh
# C19: exit status must be one of 0/123/124/125/126/127/1.
BIN="$1"; S=$(mktemp -d); cd "$S" || exit 2
[ -c /dev/full ] || { echo "no /dev/full, cannot test"; exit 0; }
printf 'a\n' | "$BIN/xargs" >/dev/full 2>err; rc1=$?
printf 'a\n' | "$BIN/xargs" -t true 2>/dev/full; rc2=$?
echo "expected: 123 (the echo invocation fails to write; GNU) or at least a documented status; for -t: 0 or 1"
echo "got: default echo with stdout=/dev/full -> $rc1 ; -t with stderr=/dev/full -> $rc2"
head -3 err
cd /; rm -rf "$S"
[ "$rc1" -eq 101 ] || [ "$rc2" -eq 101 ] && exit 1
exit 0
