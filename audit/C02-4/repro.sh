#!/bin/bash
# C02: a starting point whose name is not valid UTF-8
BIN=${1:?usage: repro.sh <dir with binaries>}
D=$(mktemp -d); trap 'rm -rf "$D"' EXIT
cd "$D" || exit 2
bad=$(printf 'd\377')
mkdir "$bad" t2; touch "$bad/in" t2/ok
echo "command : find \$'d\\377' t2     (both are existing directories)"
echo "expected: 4 entries: d\\377, d\\377/in, t2, t2/ok"
"$BIN/find" "$bad" t2 >out.txt 2>err.txt; rc=$?
n=$(wc -l < out.txt); out=$(od -An -c out.txt | tr -s ' \n' ' ')
echo "got     : rc=$rc, $n entries [$out] stderr: $(cat err.txt)"
if [ "$n" -ne 4 ]; then echo "VIOLATION: starting points not traversed (t2 dropped as well)"; exit 1; fi
echo ok; exit 0
