#!/bin/sh
# C10 (as written): "-delete removes ... the same set ... that -depth EXPR -print reports
# on an identical tree".  EXPR = -empty.
BIN=${1:?usage: repro.sh DIR_WITH_BINARIES}
FIND=$(cd "$BIN" && pwd)/find
S=$(mktemp -d) || exit 2
trap 'rm -rf "$S"' EXIT
cd "$S" || exit 2
mk() { rm -rf t; mkdir -p t/p/q/r; : > t/p/q/r/f; echo data > t/keep; }
mk
REPORTED=$("$FIND" t -depth -empty -print | LC_ALL=C sort)
mk
BEFORE=$(/usr/bin/find t | LC_ALL=C sort)
"$FIND" t -empty -delete; RC=$?
AFTER=$(/usr/bin/find t | LC_ALL=C sort)
REMOVED=$(printf '%s\n%s\n' "$BEFORE" "$AFTER" | LC_ALL=C sort | uniq -u)
echo "tree    : t/p/q/r/f (empty file), t/keep (non-empty file)"
echo "find t -depth -empty -print reports:"; echo "$REPORTED"
echo "find t -empty -delete (exit $RC) removed:"; echo "$REMOVED"
if [ "$REPORTED" != "$REMOVED" ]; then
    echo "VIOLATION (property as written): -delete removed entries that -depth EXPR -print does not report on an identical tree"
    exit 1
fi
echo ok
exit 0
