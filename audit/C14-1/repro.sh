#!/bin/bash
# C14-1: under -daystart the day count of -mtime/-atime/-ctime is truncated toward zero
# instead of rounded down, so N=0 covers 48 hours and yesterday's files count as 0 days.
BIN=${1:?usage: repro.sh <dir-with-binaries>}
FIND=$BIN/find
export TZ=UTC
T=$(mktemp -d) || exit 2
trap 'rm -rf "$T"' EXIT
cd "$T" || exit 2
mid=$(date -d 'today 00:00:00' +%s)          # start of today
touch -d @$((mid + 1))          today_first_second     # 1 s after midnight today
touch -d @$((mid - 60))         yesterday_2359          # 1 min before midnight
touch -d @$((mid - 86400 + 60)) yesterday_0001          # almost 24 h before midnight
touch -d @$((mid - 86400 - 60)) daybefore_2359          # more than 24 h before midnight
bad=0
show() { echo "$1"; echo "   expected [$2]"; echo "   got      [$3]"; [ "$2" != "$3" ] && bad=1; }
show "-daystart -mtime 0  (modified today)" "./today_first_second " \
     "$($FIND . -type f -daystart -mtime 0 | sort | tr '\n' ' ')"
show "-daystart -mtime 1  (modified yesterday)" "./yesterday_0001 ./yesterday_2359 " \
     "$($FIND . -type f -daystart -mtime 1 | sort | tr '\n' ' ')"
show "-daystart -mtime +0 (before today)" "./daybefore_2359 ./yesterday_0001 ./yesterday_2359 " \
     "$($FIND . -type f -daystart -mtime +0 | sort | tr '\n' ' ')"
show "-daystart -mtime 2  (the day before yesterday)" "./daybefore_2359 " \
     "$($FIND . -type f -daystart -mtime 2 | sort | tr '\n' ' ')"
echo "Uniformity: yesterday_0001 and today_first_second are 23h59m apart on different sides of the"
echo "day start, yet both measure as 0; every other value of N covers 24 h, N=0 covers 48 h."
if [ -x /usr/bin/find ]; then
  for n in 0 1 +0 2; do echo "GNU -daystart -mtime $n: [$(/usr/bin/find . -type f -daystart -mtime $n | sort | tr '\n' ' ')]"; done
fi
if [ $bad = 1 ]; then echo "VIOLATION present"; exit 1; fi
echo "no violation"; exit 0
