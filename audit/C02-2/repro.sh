#!/bin/bash
# C02: -H <symlink to dir> -depth -mindepth N drops directories
BIN=${1:?usage: repro.sh <dir with binaries>}
D=$(mktemp -d); trap 'rm -rf "$D"' EXIT
cd "$D" || exit 2
mkdir -p r/d/e; touch r/d/e/f r/g
ln -s r sl
fail=0
echo "tree    : r/d/e/f r/g ; sl -> r"
echo "--- find -H sl -depth -mindepth 1"
expected=$(printf 'sl/d\nsl/d/e\nsl/d/e/f\nsl/g')
got=$("$BIN/find" -H sl -depth -mindepth 1 2>&1 | sort)
echo "expected:"; echo "$expected" | sed 's/^/  /'; echo "got:"; echo "$got" | sed 's/^/  /'
[ "$got" = "$expected" ] || { echo "VIOLATION: in-range directory skipped"; fail=1; }
echo "--- find -H sl -depth -mindepth 2 -maxdepth 2"
expected="sl/d/e"
got=$("$BIN/find" -H sl -depth -mindepth 2 -maxdepth 2 2>&1 | sort)
echo "expected: $expected"; echo "got     : $got"
[ "$got" = "$expected" ] || { echo "VIOLATION: in-range directory skipped"; fail=1; }
exit $fail
