#!/bin/sh
# C10: -delete must remove the same set that -depth EXPR -print reports; an entry that
# cannot be removed must not stop the walk.
BIN=${1:?usage: repro.sh DIR_WITH_BINARIES}
FIND=$(cd "$BIN" && pwd)/find
S=$(mktemp -d) || exit 2
trap 'rm -rf "$S"' EXIT
cd "$S" || exit 2
mk() { rm -rf t; mkdir -p t/a t/b/c; touch t/b/c/f t/z; }
mk
REPORTED=$("$FIND" t/a/.. -sorted -depth -print)
mk
"$FIND" t/a/.. -sorted -delete 2>"$S/err"; RC=$?
LEFT=$(/usr/bin/find t -mindepth 1 | LC_ALL=C sort)
echo "command : find t/a/.. -sorted -delete        (t/a  t/b/c/f  t/z)"
echo "-depth -print on an identical tree reports:"; echo "$REPORTED"
echo "expected: all of these removed except the starting point itself ('t/a/..' cannot be rmdir'ed)"
echo "got     : exit status $RC, left below t:"; echo "$LEFT"
echo "stderr  :"; cat "$S/err"
if [ -n "$LEFT" ]; then
    echo "VIOLATION: after t/a was removed the walk lost t/b, t/b/c, t/b/c/f (never evaluated) and t/z"
    exit 1
fi
echo ok
exit 0
