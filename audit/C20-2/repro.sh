#!/bin/sh
# C20: -I with -n 1 is not a conflict; "-L 2 -I{} -n 1" must stay in replace mode.
BIN="$1"; S=$(mktemp -d); cd "$S" || exit 2
cat > p.sh <<"EOP"
#!/bin/sh
printf "RUN"; for a; do printf " [%s]" "$a"; done; echo
EOP
chmod +x p.sh
printf 'a b\nc d\n' | "$BIN/xargs" -L 2 -I{} -n 1 ./p.sh {} >out 2>err; rc=$?
printf 'RUN [a b]\nRUN [c d]\n' >want
echo "expected:"; cat want
echo "got (exit $rc):"; cat out
if cmp -s out want; then r=0; else r=1; fi
cd /; rm -rf "$S"; exit $r
