#!/bin/bash
# C18: a starting point whose name is not valid UTF-8 must be walked (it exists), and in any
# case must not prevent the other starting points from being processed.
BIN=${1:?usage: repro.sh DIR_WITH_BINARIES}
T=$(mktemp -d); trap 'rm -rf "$T"' EXIT
cd "$T" && mkdir e $'u\xff' && touch e/h $'u\xff/z'
"$BIN/find" $'u\xff' e >out.txt 2>err.txt; rc=$?
echo "command : find \$'u\\xff' e      (both are existing directories)"
echo "expected: u\\xff, u\\xff/z, e, e/h listed in that order, status 0 (GNU 4.9 does exactly that)"
echo "got     : status $rc, stdout $(wc -l <out.txt) lines: [$(tr '\n' ' ' <out.txt | cat -v)], stderr: $(head -1 err.txt)"
"$BIN/find" $'missing\xff' e >out2.txt 2>err2.txt; rc2=$?
echo "command : find \$'missing\\xff' e  (first one does not exist)"
echo "expected: diagnostic for the first, then e and e/h, non-zero status"
echo "got     : status $rc2, stdout [$(tr '\n' ' ' <out2.txt)], stderr: $(head -1 err2.txt)"
if ! grep -qx 'e/h' out.txt || ! grep -qx 'e/h' out2.txt; then
  echo "VIOLATION: the other starting point was not processed (and the existing non-UTF-8 one was not walked)"
  exit 1
fi
exit 0
