#!/bin/sh
# C16: -fprintf writes, per file, the rendered format.  Two -fprintf actions naming the same file must both
# leave their text in it.
BIN=${1:-.}; FIND="$BIN/find"
T=$(mktemp -d); trap 'rm -rf "$T"' EXIT; cd "$T" || exit 2
mkdir -p a/b
"$FIND" a -fprintf out 'A:%p\n' -fprintf out 'B:%p\n'
exp='A:a
B:a
A:a/b
B:a/b'
got=$(cat out)
echo "expected content of out:"; echo "$exp"; echo "got:"; echo "$got"
[ "$got" = "$exp" ] && { echo "no violation"; exit 0; }
echo "VIOLATION present"; exit 1
