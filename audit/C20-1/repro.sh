#!/bin/sh
# C20: -I appends nothing; with no command the default echo gets no arguments.
BIN="$1"; S=$(mktemp -d); cd "$S" || exit 2
printf 'a\nb c\n' | "$BIN/xargs" -I{} >out 2>err; rc=$?
printf '\n\n' >want
echo "expected: echo run twice with NO arguments (two empty lines), since nothing is appended under -I"
echo "got (exit $rc):"; cat out
if cmp -s out want; then r=0; else r=1; fi
cd /; rm -rf "$S"; exit $r
