#!/bin/sh
# C16: %f is the last component of the path.
BIN=${1:-.}; FIND="$BIN/find"
T=$(mktemp -d); trap 'rm -rf "$T"' EXIT; cd "$T" || exit 2
mkdir -p d/sub
bad=0
for sp in d/.. d/sub/..; do
  got=$("$FIND" "$sp" -maxdepth 0 -printf '%f')
  gotL=$("$FIND" -L "$sp" -maxdepth 0 -printf '%f')
  echo "find $sp -maxdepth 0 -printf %f : expected '..' (last component; -L gives '$gotL'), got '$got'"
  [ "$got" = ".." ] || bad=1
done
[ $bad -eq 1 ] && { echo "VIOLATION present"; exit 1; }
echo "no violation"; exit 0
