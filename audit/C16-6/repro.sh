#!/bin/sh
# C16: %l is the link target or nothing; attributes come from the status record the follow mode selects.
# Under -L a resolvable link is not a link (%y says f, -type l is false), so %l is empty.
BIN=${1:-.}; FIND="$BIN/find"
T=$(mktemp -d); trap 'rm -rf "$T"' EXIT; cd "$T" || exit 2
mkdir d; echo hi > d/file; ln -s file d/lnk; ln -s d/file top
bad=0
got=$("$FIND" -L d/lnk -printf '%y|%l|')
echo "find -L d/lnk -printf '%y|%l|' : expected 'f||', got '$got'"
[ "$got" = 'f||' ] || bad=1
got=$("$FIND" -L d -name lnk -printf '%y|%l|')
echo "find -L d -name lnk ...        : expected 'f||', got '$got'"
[ "$got" = 'f||' ] || bad=1
got=$("$FIND" -H top -printf '%y|%l|')
echo "find -H top -printf '%y|%l|'   : expected 'f||', got '$got'"
[ "$got" = 'f||' ] || bad=1
[ $bad -eq 1 ] && { echo "VIOLATION present"; exit 1; }
echo "no violation"; exit 0
