#!/bin/sh
# C20: one run per input line; the line REPLACES R, it is not appended.
BIN="$1"; S=$(mktemp -d); cd "$S" || exit 2
cat > p.sh <<"EOP"
#!/bin/sh
printf "RUN"; for a; do printf " [%s]" "$a"; done; echo
EOP
chmod +x p.sh
# "./p.sh abcdefghijkl" = 7 + 13 = 20 bytes: fits -s 20.
printf 'abcdefghijkl\n' | "$BIN/xargs" -s 20 -I{} ./p.sh {} >out 2>err; rc=$?
echo "expected: exit 0, RUN [abcdefghijkl]  (substituted command is exactly 20 bytes)"
echo "got: exit $rc: $(cat out) $(cat err)"
r=0; [ "$(cat out)" = "RUN [abcdefghijkl]" ] || r=1
cd /; rm -rf "$S"; exit $r
