#!/bin/bash
# C11: find must never hang. A huge (but parseable) -printf field width makes find
# emit 2^64-1 padding bytes per entry, i.e. it never terminates in practice.
BIN=${1:?usage: repro.sh DIR_WITH_BINARIES}
T=$(mktemp -d); trap 'rm -rf "$T"' EXIT
cd "$T" && mkdir d
W=18446744073709551615
timeout 5 "$BIN/find" d -maxdepth 0 -printf "%${W}d\n" 2>err.txt | wc -c > bytes.txt
rc=${PIPESTATUS[0]}
echo "command : find d -maxdepth 0 -printf '%${W}d\\n'   (one entry, 5 s timeout)"
echo "expected: rejection of the operand, or prompt termination (GNU 4.9 fails the directive at once and exits)"
echo "got     : exit status $rc (124 = killed by timeout), $(cat bytes.txt) bytes of padding written so far"
if [ "$rc" = 124 ]; then
  echo "VIOLATION: find did not terminate (unbounded output of spaces)"
  exit 1
fi
exit 0
