#!/bin/bash
# C06: with a small RLIMIT_STACK (kernel budget = 128 KiB floor) xargs fills the 128 KiB budget, which is
# (almost) the whole stack: execve fails past the point of no return (EFAULT) and the command is killed by SIGSEGV
BIN=${1:?usage: repro.sh <dir with find and xargs>}
X="$BIN/xargs"
T=$(mktemp -d); trap 'rm -rf "$T"' EXIT; cd "$T"
rc=0
for st in 128 136; do
  echo "case: (ulimit -s $st; yes a | head -50000 | xargs true)"
  ( ulimit -s $st; yes a | head -50000 | "$X" true ) > o.txt 2>&1; s=$?
  echo "expected: every invocation is started (exit 0); got: status $s: $(cat o.txt)"
  [ $s != 0 ] && rc=1
  ( ulimit -s $st; yes a | head -50000 | "$X" -n 1000 true ) > o.txt 2>&1
  echo "  (control: same limit, -n 1000 -> status $?)"
done
[ $rc = 1 ] && echo "VIOLATION: the command line xargs built was not accepted by exec (child killed inside execve)" || echo "no violation"
exit $rc
