#!/bin/bash
# C06: the path of the executable (which the kernel copies onto the new stack in addition to argv[0])
# is not part of xargs' budget: a command reached through a long path gets E2BIG on every full batch
BIN=${1:?usage: repro.sh <dir with find and xargs>}
X="$BIN/xargs"
T=$(mktemp -d); trap 'rm -rf "$T"' EXIT; cd "$T"
seg=$(printf 'd%.0s' $(seq 1 200))
p=$T; while [ ${#p} -lt 3000 ]; do p=$p/$seg; done
mkdir -p "$p" && cp /bin/true "$p/mytrue" || { echo "cannot set up long path"; exit 0; }
rc=0
echo "case 1: yes a | head -300000 | xargs <${#p}-byte-dir>/mytrue"
yes a | head -300000 | "$X" "$p/mytrue" > o1.txt 2>&1; st=$?
echo "expected: exit 0, no 'Argument list too long'; got: status $st: $(cat o1.txt)"
{ [ $st != 0 ] && grep -q 'Argument list too long' o1.txt; } && rc=1
echo "case 2: same directory only on PATH, command line is just 'xargs mytrue' (6-byte command)"
yes a | head -300000 | PATH="$p:$PATH" "$X" mytrue > o2.txt 2>&1; st=$?
echo "expected: exit 0; got: status $st: $(cat o2.txt)"
{ [ $st != 0 ] && grep -q 'Argument list too long' o2.txt; } && rc=1
[ $rc = 1 ] && echo "VIOLATION: xargs built a command line execve rejected with E2BIG" || echo "no violation"
exit $rc
