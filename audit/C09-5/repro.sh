#!/bin/bash
# C09: an argument template containing a non-UTF-8 byte is refused; CMD is never run.
BIN=${1:?usage: repro.sh DIR_WITH_BINARIES}; BIN=$(cd "$BIN" && pwd)
T=$(mktemp -d); trap 'rm -rf "$T"' EXIT; cd "$T"
mkdir t; touch t/1
out=$("$BIN/find" t -name 1 -exec printf '%s|' $'caf\xe9' $'x{}\xff' \; 2>err.txt | od -An -c | tr -s ' ' | tr -d '\n'); 
want=$(printf '%s|' $'caf\xe9' $'xt/1\xff' | od -An -c | tr -s ' ' | tr -d '\n')
echo "command : find t -name 1 -exec printf '%s|' \$'caf\\xe9' \$'x{}\\xff' \;"
echo "expected: each argument reaches CMD byte for byte: $want   (GNU does)"
echo "actual  : $out   stderr: $(head -1 err.txt)"
[ "$out" = "$want" ] && exit 0
echo "VIOLATION: template bytes not delivered (find refuses the command line)"; exit 1
