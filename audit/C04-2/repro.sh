#!/bin/bash
# C04: input arguments that are not valid UTF-8 are altered (bytes replaced by U+FFFD)
BIN=${1:?usage: repro.sh <dir with find and xargs>}
X="$BIN/xargs"
T=$(mktemp -d); trap 'rm -rf "$T"' EXIT; cd "$T"
rc=0
for mode in ws nul; do
  if [ $mode = ws ]; then got=$(printf 'a\377b\n' | "$X" printf '%s\n' | od -An -tx1 | tr -d ' \n')
  else got=$(printf 'a\377b\0' | "$X" -0 printf '%s\n' | od -An -tx1 | tr -d ' \n'); fi
  echo "mode=$mode: argument bytes 61 ff 62 passed through xargs printf '%s\\n'"
  echo "  expected: 61ff620a"
  echo "  got:      $got"
  [ "$got" != "61ff620a" ] && rc=1
done
# consequence for -s: /bin/echo (10) + 3-byte argument (4) = 14 fits in -s 14, but the rewritten argument does not
printf 'a\377b\n' | "$X" -s 14 /bin/echo >o.txt 2>&1; st=$?; got=$(od -An -c o.txt)
echo "-s 14 /bin/echo with that argument: expected it to be passed (10+4 bytes); got status $st, output:$got"
[ "$st" != 0 ] && rc=1
[ $rc = 1 ] && echo "VIOLATION: argument bytes were changed" || echo "no violation"
exit $rc
