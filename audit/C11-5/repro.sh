#!/bin/bash
# C11: invalid operands to -user / -group / numeric options must be rejected.
BIN=${1:?usage: repro.sh DIR_WITH_BINARIES}
T=$(mktemp -d); trap 'rm -rf "$T"' EXIT
cd "$T" && mkdir d && touch d/f
bad=0
echo "expected: each command is rejected with a diagnostic and non-zero status (as GNU 4.9 does)"
try() {
  out=$("$BIN/find" "$@" 2>err.txt); rc=$?
  g=$(/usr/bin/find "$@" 2>&1 >/dev/null | head -1)
  printf 'find %-28s ours: status %s, %s lines printed | GNU: %s\n' "$*" "$rc" "$(echo "$out" | grep -c .)" "${g:-accepted}"
  [ $rc -eq 0 ] && bad=1
}
try d -user +0
try d -group +0
try d -maxdepth +1
try d -mindepth +0
try d -user 4294967295
try d -group 4294967295
if [ $bad -eq 1 ]; then echo "VIOLATION: near-miss numeric operand accepted"; exit 1; fi
exit 0
