#!/bin/bash
# C13-4: a -perm MODE that mixes symbolic clauses with an octal clause is rejected.
BIN=${1:?usage: repro.sh <dir-with-binaries>}
FIND=$BIN/find
T=$(mktemp -d) || exit 2
trap 'rm -rf "$T"' EXIT
cd "$T" || exit 2
touch f555 f644 f755; chmod 555 f555; chmod 644 f644; chmod 755 f755
bad=0
t() { # symbolic-with-octal-clause spelling, equivalent octal spelling
  exp=$($FIND . -type f -perm "$2" | sort | tr '\n' ' ')
  got=$($FIND . -type f -perm "$1" 2>&1 | sort | tr '\n' ' ')
  echo "-perm '$1' should equal -perm $2: expected [$exp] got [$got]"
  [ "$exp" != "$got" ] && bad=1
  [ -x /usr/bin/find ] && echo "      GNU -perm '$1': [$(/usr/bin/find . -type f -perm "$1" 2>&1 | sort | tr '\n' ' ')]"
}
t 'a+rwx,-222'      555     # all bits, then clear the write bits
t 'u+r,+644'        644
t 'u=rw,go=r,+111'  755
if [ $bad = 1 ]; then echo "VIOLATION present"; exit 1; fi
echo "no violation"; exit 0
