#!/bin/bash
# C08: -execdir CMD {} + on a starting point ending in ".." passes a name that does not
# designate the entry from the working directory CMD is run in.
BIN=${1:?usage: repro.sh DIR_WITH_BINARIES}; BIN=$(cd "$BIN" && pwd)
T=$(mktemp -d); trap 'rm -rf "$T"' EXIT; cd "$T"
mkdir -p A/B
want=$(stat -c %i A)
res=$("$BIN/find" A/B/.. -maxdepth 0 -execdir sh -c 'echo "cwd=$PWD arg=$1 inode=$(stat -c %i "$1" 2>/dev/null || echo MISSING)"' sh {} + 2>&1); rc=$?
echo "command : find A/B/.. -maxdepth 0 -execdir CMD {} +   (the entry is directory A, inode $want)"
echo "expected: CMD runs in the entry's directory with ./basename naming the entry (GNU: cwd=.../A/B arg=./.. -> inode $want)"
echo "actual  : $res (rc=$rc)"
case "$res" in *"inode=$want"*) exit 0;; esac
echo "VIOLATION: the argument does not name the entry relative to the working directory of the invocation"; exit 1
