#!/bin/bash
# C08: a diagnostic that cannot be written to stderr kills find (panic) and the pending -exec {} + batch is never run.
BIN=${1:?usage: repro.sh DIR_WITH_BINARIES}; BIN=$(cd "$BIN" && pwd)
T=$(mktemp -d); trap 'rm -rf "$T"' EXIT; cd "$T"
mkdir -p t/a; touch t/a/1 t/z; ln -s .. t/a/loop     # symlink loop -> one walk error under -L
[ -e /dev/full ] || { echo "no /dev/full, cannot test"; exit 0; }
out=$("$BIN/find" -L t -exec echo batch {} + 2>/dev/full); rc=$?
echo "command : find -L t -exec echo batch {} + 2>/dev/full   (t contains a symlink loop, so one diagnostic is written)"
echo "expected: the pending invocation has run by the time find exits (GNU: 'batch t t/z t/a t/a/1', exit 1)"
echo "actual  : output='$out' rc=$rc"
case "$out" in batch*) exit 0;; esac
echo "VIOLATION: find exited (status $rc) without running the pending invocation"; exit 1
