#!/bin/sh
# C03: every entry beneath a directory must be evaluated (after it by default,
# before it under -depth), for all trees -- including trees whose paths exceed PATH_MAX.
BIN=${1:?usage: repro.sh DIR_WITH_BINARIES}
FIND=$(cd "$BIN" && pwd)/find
S=$(mktemp -d) || exit 2
cleanup() { cd /; /usr/bin/find "$S" -delete 2>/dev/null || rm -rf "$S"; }
trap cleanup EXIT
cd "$S" || exit 2
# 25 nested directories with 200-byte names (about 5 KiB of path), a file at the bottom.
N=$(printf 'd%.0s' $(seq 1 200))
mkdir t
( cd t && i=0 && while [ $i -lt 25 ]; do mkdir "$N" && cd -P "./$N" 2>/dev/null || exit 3; i=$((i+1)); done && : > leaf ) || exit 2

WANT=27   # t + 25 directories + leaf
GOT=$("$FIND" t 2>/dev/null | wc -l)
LEAF=$("$FIND" t -name leaf 2>/dev/null | wc -l)
"$FIND" t >/dev/null 2>"$S/err"; RC=$?
GOTD=$("$FIND" t -depth 2>/dev/null | wc -l)
echo "tree: t/<200 x d>/.../<200 x d>/leaf, 25 levels"
echo "expected: $WANT entries evaluated (pre-order and with -depth), leaf found once"
echo "got     : $GOT entries (pre-order), $GOTD entries (-depth), leaf found $LEAF times, exit status $RC"
echo "stderr  : $(cut -c1-40 "$S/err" | head -1)...$(tail -c 40 "$S/err")"
if [ "$GOT" -ne $WANT ] || [ "$GOTD" -ne $WANT ] || [ "$LEAF" -ne 1 ]; then
    echo "VIOLATION: entries below the PATH_MAX boundary are never evaluated"
    exit 1
fi
echo ok
exit 0
