#!/bin/bash
# C11: find must never end by a panic. -fprintf to a file whose writes fail panics.
BIN=${1:?usage: repro.sh DIR_WITH_BINARIES}
T=$(mktemp -d); trap 'rm -rf "$T"' EXIT
cd "$T" && mkdir d && touch d/f
[ -c /dev/full ] || { echo "no /dev/full on this system; cannot reproduce"; exit 0; }
"$BIN/find" d -fprintf /dev/full '%p\n' >out.txt 2>err.txt
rc=$?
echo "command : find d -fprintf /dev/full '%p\\n'"
echo "expected: a diagnostic and an ordinary exit status (GNU: 'No space left on device', status 1)"
echo "got     : exit status $rc; stderr starts with:"
head -3 err.txt
if [ $rc -eq 101 ] || grep -q 'panicked at' err.txt; then
  echo "VIOLATION: find panicked"
  exit 1
fi
exit 0
