#!/bin/bash
# usage: repro.sh <directory containing the find binary>
BIN=${1:?usage: repro.sh DIR_WITH_BINARIES}
FIND="$BIN/find"
export LC_ALL=C.utf8
T=$(mktemp -d) || exit 2
trap 'rm -rf "$T"' EXIT
cd "$T" || exit 2
bad=0
# check DESCRIPTION EXPECTED find-args... : runs $FIND, joins sorted output lines with a space
check() {
  desc=$1; exp=$2; shift 2
  got=$("$FIND" "$@" 2>"$T/.stderr" | sort | tr '\n' ' ' | sed 's/ $//')
  gnu=$(/usr/bin/find "$@" 2>/dev/null | sort | tr '\n' ' ' | sed 's/ $//')
  echo "--- $desc"
  echo "    command : find $*"
  echo "    expected: [$exp]"
  echo "    got     : [$got]"
  [ -x /usr/bin/find ] && echo "    GNU find: [$gnu]"
  [ -s "$T/.stderr" ] && sed 's/^/    stderr  : /' "$T/.stderr" | cut -c1-200
  if [ "$got" != "$exp" ]; then echo "    => VIOLATION"; bad=1; else echo "    => ok"; fi
}

mkdir w; touch w/$'\xff' w/$'\xfe' w/$'\xef\xbf\xbd' w/$'a\xffb' w/$'a\xfeb'
n=$("$FIND" w -mindepth 1 -name $'\xef\xbf\xbd' | wc -l)
g=$(/usr/bin/find w -mindepth 1 -name $'\xef\xbf\xbd' | wc -l)
echo "--- -name U+FFFD (bytes ef bf bd) must match only the file whose name is exactly those bytes"
echo "    expected: 1 match; got: $n matches; GNU find: $g"
[ "$n" != 1 ] && { echo "    => VIOLATION"; bad=1; }
n=$("$FIND" w -mindepth 1 -name $'a\xef\xbf\xbdb' | wc -l)
echo "--- -name 'a<U+FFFD>b' must match nothing (no such name); names present: a\\xffb a\\xfeb"
echo "    expected: 0 matches; got: $n matches"
[ "$n" != 0 ] && { echo "    => VIOLATION"; bad=1; }

if [ $bad = 1 ]; then echo "RESULT: violation present"; exit 1; else echo "RESULT: no violation"; exit 0; fi
