#!/bin/bash
# C13-2: -nouser / -nogroup are hard-wired to false for every path that is a symlink,
# whatever status record the follow mode selects. Needs root (chown to an unused id).
BIN=${1:?usage: repro.sh <dir-with-binaries>}
FIND=$BIN/find
T=$(mktemp -d) || exit 2
trap 'rm -rf "$T"' EXIT
cd "$T" || exit 2
# an id with neither a passwd nor a group entry
ID=54321
while getent passwd $ID >/dev/null || getent group $ID >/dev/null; do ID=$((ID+1)); done
touch plain orphan
ln -s plain  link_owned_by_orphan     # the LINK belongs to the unknown id, target to us
ln -s orphan link_to_orphan           # the TARGET belongs to the unknown id, link to us
if ! chown $ID:$ID orphan 2>/dev/null || ! chown -h $ID:$ID link_owned_by_orphan 2>/dev/null; then
  echo "cannot chown (not root): skipping"; exit 0
fi
bad=0
check() { # description, expected, got
  echo "$1"; echo "   expected [$2]"; echo "   got      [$3]"
  [ "$2" != "$3" ] && bad=1
}
# sanity: the id tests, which read the same record, see the ids
check "-P -uid $ID (lstat records)" "./link_owned_by_orphan ./orphan " \
      "$($FIND -P . -uid $ID | sort | tr '\n' ' ')"
check "-P -nouser must be true exactly for the entries whose lstat uid is $ID" \
      "./link_owned_by_orphan ./orphan " "$($FIND -P . -nouser | sort | tr '\n' ' ')"
check "-P -nogroup likewise" \
      "./link_owned_by_orphan ./orphan " "$($FIND -P . -nogroup | sort | tr '\n' ' ')"
check "-L -uid $ID (stat records: the link to orphan is examined as its target)" \
      "./link_to_orphan ./orphan " "$($FIND -L . -uid $ID | sort | tr '\n' ' ')"
check "-L -nouser must agree with -L -uid $ID" \
      "./link_to_orphan ./orphan " "$($FIND -L . -nouser | sort | tr '\n' ' ')"
check "-L -nogroup likewise" \
      "./link_to_orphan ./orphan " "$($FIND -L . -nogroup | sort | tr '\n' ' ')"
check "-H link_to_orphan -nouser (starting point is followed)" \
      "link_to_orphan " "$($FIND -H link_to_orphan -nouser | tr '\n' ' ')"
if [ -x /usr/bin/find ]; then
  echo "GNU -P -nouser: [$(/usr/bin/find -P . -nouser | sort | tr '\n' ' ')]  GNU -L -nouser: [$(/usr/bin/find -L . -nouser | sort | tr '\n' ' ')]"
fi
if [ $bad = 1 ]; then echo "VIOLATION present"; exit 1; fi
echo "no violation"; exit 0
