#!/bin/bash
# usage: repro.sh <directory containing the find binary>
BIN=${1:?usage: repro.sh DIR_WITH_BINARIES}
FIND="$BIN/find"
export LC_ALL=C
T=$(mktemp -d) || exit 2
trap 'rm -rf "$T"' EXIT
cd "$T" || exit 2
bad=0
# check DESCRIPTION EXPECTED find-args... : runs $FIND, joins sorted output lines with a space
check() {
  desc=$1; exp=$2; shift 2
  got=$("$FIND" "$@" 2>"$T/.stderr" | sort | tr '\n' ' ' | sed 's/ $//')
  gnu=$(/usr/bin/find "$@" 2>/dev/null | sort | tr '\n' ' ' | sed 's/ $//')
  echo "--- $desc"
  echo "    command : find $*"
  echo "    expected: [$exp]"
  echo "    got     : [$got]"
  [ -x /usr/bin/find ] && echo "    GNU find: [$gnu]"
  [ -s "$T/.stderr" ] && sed 's/^/    stderr  : /' "$T/.stderr" | cut -c1-200
  if [ "$got" != "$exp" ]; then echo "    => VIOLATION"; bad=1; else echo "    => ok"; fi
}

mkdir w; touch w/$'x\na' w/xba w/xca
# names contain a newline, so count matches with -printf instead of comparing lines
cnt() { desc=$1; exp=$2; shift 2
  got=$("$FIND" "$@" -printf x 2>/dev/null); gnu=$(/usr/bin/find "$@" -printf x 2>/dev/null)
  echo "--- $desc"; echo "    command : find $* -printf x"; echo "    expected: ${#exp} matches; got: ${#got}; GNU find: ${#gnu}"
  if [ "${#got}" != "${#exp}" ]; then echo "    => VIOLATION"; bad=1; else echo "    => ok"; fi; }
cnt "grep syntax: '.' matches any character including newline: x<NL>a, xba, xca" xxx w -regextype grep -regex 'w/x.a'
cnt "grep syntax: [^b] matches newline: x<NL>a, xca" xx w -regextype grep -regex 'w/x[^b]a'
cnt "for comparison posix-basic (same patterns; uutils is right here)" xx w -regextype posix-basic -regex 'w/x[^b]a'
cnt "for comparison posix-basic" xxx w -regextype posix-basic -regex 'w/x.a'

if [ $bad = 1 ]; then echo "RESULT: violation present"; exit 1; else echo "RESULT: no violation"; exit 0; fi
