#!/bin/sh
# C16: %l is the link target (the bytes readlink returns).
BIN=${1:-.}; FIND="$BIN/find"
T=$(mktemp -d); trap 'rm -rf "$T"' EXIT; cd "$T" || exit 2
ln -s "$(printf 't\376x')" lk
got=$("$FIND" lk -printf '%l' | od -An -to1 | tr -d ' \n')
echo "find lk -printf %l (target is bytes 164 376 170): expected 164376170, got $got"
[ "$got" = 164376170 ] && { echo "no violation"; exit 0; }
echo "VIOLATION present"; exit 1
