#!/bin/bash
# C08: -execdir CMD {} + on the starting point "/" is never run.
BIN=${1:?usage: repro.sh DIR_WITH_BINARIES}; BIN=$(cd "$BIN" && pwd)
T=$(mktemp -d); trap 'rm -rf "$T"' EXIT; cd "$T"
out=$("$BIN/find" / -maxdepth 0 -execdir echo got {} + 2>&1); rc=$?
echo "command : find / -maxdepth 0 -execdir echo got {} +"
echo "expected: one invocation of echo receiving the entry (GNU prints 'got /'); every pending invocation has run when find exits"
echo "actual  : output='$out' rc=$rc"
# second form: the action is reached on / and then -quit
out2=$("$BIN/find" / -maxdepth 0 -execdir echo got {} + -quit 2>&1)
echo "with -quit: output='$out2'"
if [ -z "$out" ]; then echo "VIOLATION: the pending -execdir invocation was never run"; exit 1; fi
exit 0
