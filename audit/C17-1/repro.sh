#!/bin/bash
# usage: repro.sh <directory containing the find binary>
BIN=${1:?usage: repro.sh DIR_WITH_BINARIES}
FIND="$BIN/find"
export LC_ALL=C
T=$(mktemp -d) || exit 2
trap 'rm -rf "$T"' EXIT
cd "$T" || exit 2
bad=0
# check DESCRIPTION EXPECTED find-args... : runs $FIND, joins sorted output lines with a space
check() {
  desc=$1; exp=$2; shift 2
  got=$("$FIND" "$@" 2>"$T/.stderr" | sort | tr '\n' ' ' | sed 's/ $//')
  gnu=$(/usr/bin/find "$@" 2>/dev/null | sort | tr '\n' ' ' | sed 's/ $//')
  echo "--- $desc"
  echo "    command : find $*"
  echo "    expected: [$exp]"
  echo "    got     : [$got]"
  [ -x /usr/bin/find ] && echo "    GNU find: [$gnu]"
  [ -s "$T/.stderr" ] && sed 's/^/    stderr  : /' "$T/.stderr" | cut -c1-200
  if [ "$got" != "$exp" ]; then echo "    => VIOLATION"; bad=1; else echo "    => ok"; fi
}

mkdir w; touch 'w/a^b' 'w/a$b' 'w/ab'
check "posix-basic: '^' not at the start of the RE (or of a group) is an ordinary character" "w/a^b" w -regextype posix-basic -regex 'w/a^b'
check "posix-basic: '$' not at the end is an ordinary character" 'w/a$b' w -regextype posix-basic -regex 'w/a$b'
check "emacs (default): same rule" "w/a^b" w -regex 'w/a^b'
check "emacs (default): same rule" 'w/a$b' w -regex 'w/a$b'
check "sed" 'w/a$b' w -regextype sed -regex 'w/a$b'
check "grep" 'w/a^b' w -regextype grep -regex 'w/a^b'

if [ $bad = 1 ]; then echo "RESULT: violation present"; exit 1; else echo "RESULT: no violation"; exit 0; fi
