#!/bin/bash
# usage: repro.sh <directory containing the find binary>
BIN=${1:?usage: repro.sh DIR_WITH_BINARIES}
FIND="$BIN/find"
export LC_ALL=C
T=$(mktemp -d) || exit 2
trap 'rm -rf "$T"' EXIT
cd "$T" || exit 2
bad=0
# check DESCRIPTION EXPECTED find-args... : runs $FIND, joins sorted output lines with a space
check() {
  desc=$1; exp=$2; shift 2
  got=$("$FIND" "$@" 2>"$T/.stderr" | sort | tr '\n' ' ' | sed 's/ $//')
  gnu=$(/usr/bin/find "$@" 2>/dev/null | sort | tr '\n' ' ' | sed 's/ $//')
  echo "--- $desc"
  echo "    command : find $*"
  echo "    expected: [$exp]"
  echo "    got     : [$got]"
  [ -x /usr/bin/find ] && echo "    GNU find: [$gnu]"
  [ -s "$T/.stderr" ] && sed 's/^/    stderr  : /' "$T/.stderr" | cut -c1-200
  if [ "$got" != "$exp" ]; then echo "    => VIOLATION"; bad=1; else echo "    => ok"; fi
}

mkdir w; touch w/a w/aa w/aaa w/b
check "posix-extended: a{,2} = zero to two a" "w/a w/aa" w -mindepth 1 -regextype posix-extended -regex 'w/a{,2}'
check "posix-basic: a\\{,2\\}" "w/a w/aa" w -mindepth 1 -regextype posix-basic -regex 'w/a\{,2\}'
check "for comparison a{0,2}" "w/a w/aa" w -mindepth 1 -regextype posix-extended -regex 'w/a{0,2}'

if [ $bad = 1 ]; then echo "RESULT: violation present"; exit 1; else echo "RESULT: no violation"; exit 0; fi
