#!/bin/bash
# C11 (as written): an invalid operand to -printf must be rejected. Unknown directives are
# silently turned into literals.
BIN=${1:?usage: repro.sh DIR_WITH_BINARIES}
T=$(mktemp -d); trap 'rm -rf "$T"' EXIT
cd "$T" && mkdir d
bad=0
echo "expected: unknown directives are diagnosed on stderr (the property says: rejected, non-zero status)"
for f in '%q\n' '%é\n' '%5z\n'; do
  out=$("$BIN/find" d -printf "$f" 2>err.txt); rc=$?
  g=$(/usr/bin/find d -printf "$f" 2>&1 >/dev/null | head -1)
  printf "find d -printf '%s'  ours: status %s, stdout [%s], stderr [%s] | GNU: %s\n" "$f" "$rc" "$out" "$(head -1 err.txt)" "${g:-silent}"
  [ $rc -eq 0 ] && [ ! -s err.txt ] && bad=1
done
if [ $bad -eq 1 ]; then echo "VIOLATION: unknown -printf directive accepted without any diagnostic"; exit 1; fi
exit 0
