// Minimal JSON value + serializer (no external crates available for a rustc_private driver).
use std::fmt::Write;

pub enum J {
    Null,
    Bool(bool),
    Num(i128),
    Str(String),
    Arr(Vec<J>),
    Obj(Vec<(String, J)>),
}

impl J {
    pub fn obj() -> J {
        J::Obj(vec![])
    }
    pub fn s(s: &str) -> J {
        J::Str(s.to_string())
    }
    pub fn n(n: i128) -> J {
        J::Num(n)
    }
    pub fn put(&mut self, k: &str, v: J) {
        if let J::Obj(o) = self {
            o.push((k.to_string(), v));
        }
    }
    fn write(&self, out: &mut String) {
        match self {
            J::Null => out.push_str("null"),
            J::Bool(b) => out.push_str(if *b { "true" } else { "false" }),
            J::Num(n) => {
                let _ = write!(out, "{n}");
            }
            J::Str(s) => esc(s, out),
            J::Arr(v) => {
                out.push('[');
                for (i, x) in v.iter().enumerate() {
                    if i > 0 {
                        out.push(',');
                    }
                    x.write(out);
                }
                out.push(']');
            }
            J::Obj(v) => {
                out.push('{');
                for (i, (k, x)) in v.iter().enumerate() {
                    if i > 0 {
                        out.push(',');
                    }
                    esc(k, out);
                    out.push(':');
                    x.write(out);
                }
                out.push('}');
            }
        }
    }
    pub fn to_string(&self) -> String {
        let mut s = String::new();
        self.write(&mut s);
        s
    }
}

fn esc(s: &str, out: &mut String) {
    out.push('"');
    for c in s.chars() {
        match c {
            '"' => out.push_str("\\\""),
            '\\' => out.push_str("\\\\"),
            '\n' => out.push_str("\\n"),
            '\r' => out.push_str("\\r"),
            '\t' => out.push_str("\\t"),
            c if (c as u32) < 0x20 => {
                let _ = write!(out, "\\u{:04x}", c as u32);
            }
            c => out.push(c),
        }
    }
    out.push('"');
}
