// findfacts: a rustc_private driver that dumps the type-checked program (MIR at
// opt-level 0, ADTs, impls) of each workspace crate as one JSON-lines file.
// Invoked as RUSTC_WORKSPACE_WRAPPER: argv = [self, /path/to/rustc, rustc args...].
// Output: $FINDFACTS_OUT/<crate_name>-<crate_type>.jsonl (one write per process).
#![feature(rustc_private)]
#![allow(clippy::all)]

extern crate rustc_abi;
extern crate rustc_driver;
extern crate rustc_hir;
extern crate rustc_interface;
extern crate rustc_middle;
extern crate rustc_session;
extern crate rustc_span;

mod json;
use json::J;

use rustc_hir::def::DefKind;
use rustc_hir::def_id::{DefId, LocalDefId};
use rustc_middle::mir::{
    self, AggregateKind, AssertKind, BasicBlockData, Body, Const, ConstValue, Operand, Place,
    ProjectionElem, Rvalue, StatementKind, TerminatorKind, UnwindAction,
};
use rustc_middle::ty::{self, Instance, Ty, TyCtxt, TypingEnv};
use rustc_span::Span;

struct Cb;

impl rustc_driver::Callbacks for Cb {
    fn after_analysis<'tcx>(
        &mut self,
        _c: &rustc_interface::interface::Compiler,
        tcx: TyCtxt<'tcx>,
    ) -> rustc_driver::Compilation {
        if let Ok(out) = std::env::var("FINDFACTS_OUT") {
            rustc_middle::ty::print::with_resolve_crate_name!(
                rustc_middle::ty::print::with_no_trimmed_paths!(dump(tcx, &out))
            );
        }
        rustc_driver::Compilation::Continue
    }
}

fn main() {
    let mut args: Vec<String> = std::env::args().collect();
    if args.len() > 1 {
        args.remove(1);
    }
    rustc_driver::run_compiler(&args, &mut Cb);
}

fn krate_name(tcx: TyCtxt<'_>) -> String {
    tcx.crate_name(rustc_hir::def_id::LOCAL_CRATE).to_string()
}

/// Crate-qualified path of a definition (no generic arguments).
fn qpath(tcx: TyCtxt<'_>, did: DefId) -> String {
    tcx.def_path_str(did)
}

fn ty_str<'tcx>(ty: Ty<'tcx>) -> String {
    format!("{ty}")
}

fn span_json(tcx: TyCtxt<'_>, sp: Span) -> J {
    let sm = tcx.sess.source_map();
    let mut o = J::obj();
    let cs = sp.source_callsite();
    let lo = sm.lookup_char_pos(cs.lo());
    let hi = sm.lookup_char_pos(cs.hi());
    let fname = format!("{}", lo.file.name.prefer_local_unconditionally());
    o.put("file", J::s(&fname));
    o.put("line", J::n(lo.line as i128));
    o.put("col", J::n(lo.col.0 as i128 + 1));
    o.put("line_hi", J::n(hi.line as i128));
    if sp.from_expansion() {
        o.put("exp", J::Bool(true));
        let ed = sp.ctxt().outer_expn_data();
        let mname = match ed.kind {
            rustc_span::ExpnKind::Macro(_, name) => format!("{name}"),
            rustc_span::ExpnKind::Desugaring(d) => format!("desugar:{}", d.descr()),
            rustc_span::ExpnKind::AstPass(_) => "astpass".to_string(),
            rustc_span::ExpnKind::Root => "root".to_string(),
        };
        o.put("macro", J::s(&mname));
        // outermost macro name (e.g. writeln -> write -> format_args)
        let mut names = vec![];
        let mut cur = sp;
        let mut guard = 0;
        while cur.from_expansion() && guard < 16 {
            let ed = cur.ctxt().outer_expn_data();
            if let rustc_span::ExpnKind::Macro(_, name) = ed.kind {
                names.push(J::s(&format!("{name}")));
            }
            cur = ed.call_site;
            guard += 1;
        }
        o.put("macros", J::Arr(names));
        if let Ok(snip) = sm.span_to_snippet(cs) {
            let mut t = snip;
            if t.len() > 400 {
                let mut cut = 400;
                while !t.is_char_boundary(cut) {
                    cut -= 1;
                }
                t.truncate(cut);
            }
            o.put("snippet", J::s(&t));
        }
    }
    o
}

fn place_json<'tcx>(tcx: TyCtxt<'tcx>, body: &Body<'tcx>, p: &Place<'tcx>) -> J {
    let mut o = J::obj();
    o.put("l", J::n(p.local.as_usize() as i128));
    let mut proj = vec![];
    let mut ty = mir::PlaceTy::from_ty(body.local_decls[p.local].ty);
    for elem in p.projection.iter() {
        let e = match elem {
            ProjectionElem::Deref => J::s("*"),
            ProjectionElem::Field(f, fty) => {
                let mut fo = J::obj();
                fo.put("f", J::n(f.as_usize() as i128));
                // field name, if the base is an ADT
                let name = match ty.ty.kind() {
                    ty::Adt(adt, _) => {
                        let vidx = ty.variant_index.unwrap_or(rustc_abi::FIRST_VARIANT);
                        if adt.is_enum() || adt.is_struct() || adt.is_union() {
                            adt.variants()
                                .get(vidx)
                                .and_then(|v| v.fields.get(f))
                                .map(|fd| fd.name.to_string())
                        } else {
                            None
                        }
                    }
                    _ => None,
                };
                if let Some(n) = name {
                    fo.put("n", J::s(&n));
                }
                fo.put("of", J::s(&ty_str(ty.ty)));
                fo.put("ty", J::s(&ty_str(fty)));
                fo
            }
            ProjectionElem::Index(l) => {
                let mut io = J::obj();
                io.put("idx", J::n(l.as_usize() as i128));
                io
            }
            ProjectionElem::ConstantIndex { offset, min_length, from_end } => {
                let mut io = J::obj();
                io.put("cidx", J::n(offset as i128));
                io.put("min", J::n(min_length as i128));
                io.put("from_end", J::Bool(from_end));
                io
            }
            ProjectionElem::Subslice { from, to, from_end } => {
                let mut io = J::obj();
                io.put("sub_from", J::n(from as i128));
                io.put("sub_to", J::n(to as i128));
                io.put("from_end", J::Bool(from_end));
                io
            }
            ProjectionElem::Downcast(name, vidx) => {
                let mut d = J::obj();
                d.put("v", J::n(vidx.as_usize() as i128));
                if let Some(n) = name {
                    d.put("vn", J::s(&n.to_string()));
                }
                d
            }
            ProjectionElem::OpaqueCast(_) => J::s("opaque"),
            ProjectionElem::UnwrapUnsafeBinder(_) => J::s("unwrap_binder"),
        };
        proj.push(e);
        ty = ty.projection_ty(tcx, elem);
    }
    if !proj.is_empty() {
        o.put("p", J::Arr(proj));
    }
    o
}

fn const_json<'tcx>(tcx: TyCtxt<'tcx>, env: TypingEnv<'tcx>, c: &mir::ConstOperand<'tcx>) -> J {
    let mut o = J::obj();
    let ty = c.const_.ty();
    o.put("ty", J::s(&ty_str(ty)));
    o.put("text", J::s(&format!("{}", c.const_)));
    // function items
    if let ty::FnDef(did, args) = ty.kind() {
        o.put("k", J::s("fn"));
        o.put("def", J::s(&qpath(tcx, *did)));
        o.put("inst", J::s(&tcx.def_path_str_with_args(*did, args)));
        return o;
    }
    if let Const::Unevaluated(uv, _) = c.const_ {
        o.put("unevaluated", J::s(&qpath(tcx, uv.def)));
    }
    let val: Option<ConstValue> = match c.const_ {
        Const::Val(v, _) => Some(v),
        _ => {
            if c.const_.has_non_region_param_compat() {
                None
            } else {
                c.const_.eval(tcx, env, c.span).ok()
            }
        }
    };
    match val {
        Some(ConstValue::Scalar(mir::interpret::Scalar::Int(si))) => {
            let size = si.size();
            let bits = si.to_bits(size);
            match ty.kind() {
                ty::Bool => {
                    o.put("k", J::s("bool"));
                    o.put("v", J::Bool(bits != 0));
                }
                ty::Char => {
                    o.put("k", J::s("char"));
                    o.put("v", J::n(bits as i128));
                    if let Some(ch) = char::from_u32(bits as u32) {
                        o.put("ch", J::s(&ch.to_string()));
                    }
                }
                ty::Int(_) => {
                    o.put("k", J::s("int"));
                    let v = size.sign_extend(bits) as i128;
                    o.put("v", J::n(v));
                }
                ty::Uint(_) => {
                    o.put("k", J::s("int"));
                    o.put("v", J::n(bits as i128));
                }
                _ => {
                    o.put("k", J::s("scalar"));
                    o.put("v", J::n(bits as i128));
                }
            }
        }
        Some(ConstValue::ZeroSized) => {
            o.put("k", J::s("zst"));
        }
        Some(v @ ConstValue::Slice { .. }) => {
            if let Some(bytes) = v.try_get_slice_bytes_for_diagnostics(tcx) {
                o.put("k", J::s("str"));
                o.put("v", J::s(&String::from_utf8_lossy(bytes)));
                o.put("bytes_len", J::n(bytes.len() as i128));
            } else {
                o.put("k", J::s("slice"));
            }
        }
        Some(v @ ConstValue::Indirect { .. }) => {
            let is_strref = match ty.kind() {
                ty::Ref(_, inner, _) => matches!(inner.kind(), ty::Str) || matches!(inner.kind(), ty::Slice(t) if matches!(t.kind(), ty::Uint(ty::UintTy::U8))),
                _ => false,
            };
            if is_strref {
                if let Some(bytes) = v.try_get_slice_bytes_for_diagnostics(tcx) {
                    o.put("k", J::s("str"));
                    o.put("v", J::s(&String::from_utf8_lossy(bytes)));
                    o.put("bytes_len", J::n(bytes.len() as i128));
                    return o;
                }
            }
            o.put("k", J::s("indirect"));
        }
        Some(ConstValue::Scalar(_)) => {
            o.put("k", J::s("ptr"));
        }
        None => {
            o.put("k", J::s("unknown"));
        }
    }
    o
}

trait HasParamCompat {
    fn has_non_region_param_compat(&self) -> bool;
}
impl<'tcx> HasParamCompat for Const<'tcx> {
    fn has_non_region_param_compat(&self) -> bool {
        use rustc_middle::ty::TypeVisitableExt;
        self.has_non_region_param()
    }
}

fn operand_json<'tcx>(
    tcx: TyCtxt<'tcx>,
    env: TypingEnv<'tcx>,
    body: &Body<'tcx>,
    op: &Operand<'tcx>,
) -> J {
    let mut o = J::obj();
    match op {
        Operand::Copy(p) => {
            o.put("copy", place_json(tcx, body, p));
        }
        Operand::Move(p) => {
            o.put("move", place_json(tcx, body, p));
        }
        Operand::Constant(c) => {
            o.put("const", const_json(tcx, env, c));
        }
        other => {
            o.put("other", J::s(&format!("{other:?}")));
        }
    }
    o
}

fn rvalue_json<'tcx>(
    tcx: TyCtxt<'tcx>,
    env: TypingEnv<'tcx>,
    body: &Body<'tcx>,
    rv: &Rvalue<'tcx>,
) -> J {
    let mut o = J::obj();
    match rv {
        Rvalue::Use(op, _) => {
            o.put("k", J::s("use"));
            o.put("a", operand_json(tcx, env, body, op));
        }
        Rvalue::Repeat(op, n) => {
            o.put("k", J::s("repeat"));
            o.put("a", operand_json(tcx, env, body, op));
            o.put("n", J::s(&format!("{n}")));
        }
        Rvalue::Ref(_, bk, p) => {
            o.put("k", J::s("ref"));
            let m = match bk {
                mir::BorrowKind::Shared => "shared",
                mir::BorrowKind::Fake(_) => "fake",
                mir::BorrowKind::Mut { .. } => "mut",
            };
            o.put("bk", J::s(m));
            o.put("p", place_json(tcx, body, p));
        }
        Rvalue::ThreadLocalRef(d) => {
            o.put("k", J::s("tls"));
            o.put("def", J::s(&qpath(tcx, *d)));
        }
        Rvalue::RawPtr(kind, p) => {
            o.put("k", J::s("rawptr"));
            o.put("rk", J::s(&format!("{kind:?}")));
            o.put("p", place_json(tcx, body, p));
        }
        Rvalue::Cast(kind, op, ty) => {
            o.put("k", J::s("cast"));
            o.put("ck", J::s(&format!("{kind:?}")));
            o.put("a", operand_json(tcx, env, body, op));
            o.put("ty", J::s(&ty_str(*ty)));
        }
        Rvalue::BinaryOp(bop, ab) => {
            o.put("k", J::s("bin"));
            o.put("op", J::s(&format!("{bop:?}")));
            o.put("a", operand_json(tcx, env, body, &ab.0));
            o.put("b", operand_json(tcx, env, body, &ab.1));
        }
        Rvalue::UnaryOp(uop, a) => {
            o.put("k", J::s("un"));
            o.put("op", J::s(&format!("{uop:?}")));
            o.put("a", operand_json(tcx, env, body, a));
        }
        Rvalue::Discriminant(p) => {
            o.put("k", J::s("discr"));
            o.put("p", place_json(tcx, body, p));
        }
        Rvalue::Aggregate(kind, ops) => {
            o.put("k", J::s("agg"));
            match &**kind {
                AggregateKind::Array(t) => {
                    o.put("ak", J::s("array"));
                    o.put("ty", J::s(&ty_str(*t)));
                }
                AggregateKind::Tuple => {
                    o.put("ak", J::s("tuple"));
                }
                AggregateKind::Adt(did, vidx, _args, _, _) => {
                    o.put("ak", J::s("adt"));
                    o.put("adt", J::s(&qpath(tcx, *did)));
                    let adt = tcx.adt_def(*did);
                    let v = adt.variant(*vidx);
                    o.put("variant", J::s(&v.name.to_string()));
                    o.put("vidx", J::n(vidx.as_usize() as i128));
                    let names: Vec<J> =
                        v.fields.iter().map(|f| J::s(&f.name.to_string())).collect();
                    o.put("fields", J::Arr(names));
                }
                AggregateKind::Closure(did, _) => {
                    o.put("ak", J::s("closure"));
                    o.put("def", J::s(&qpath(tcx, *did)));
                }
                AggregateKind::Coroutine(did, _) => {
                    o.put("ak", J::s("coroutine"));
                    o.put("def", J::s(&qpath(tcx, *did)));
                }
                AggregateKind::CoroutineClosure(did, _) => {
                    o.put("ak", J::s("coroutine_closure"));
                    o.put("def", J::s(&qpath(tcx, *did)));
                }
                AggregateKind::RawPtr(t, _) => {
                    o.put("ak", J::s("rawptr"));
                    o.put("ty", J::s(&ty_str(*t)));
                }
            }
            let v: Vec<J> = ops.iter().map(|x| operand_json(tcx, env, body, x)).collect();
            o.put("ops", J::Arr(v));
        }
        Rvalue::CopyForDeref(p) => {
            o.put("k", J::s("copy_for_deref"));
            o.put("p", place_json(tcx, body, p));
        }
        other => {
            o.put("k", J::s("other"));
            o.put("text", J::s(&format!("{other:?}")));
        }
    }
    o
}

fn unwind_json(u: &UnwindAction) -> J {
    match u {
        UnwindAction::Cleanup(bb) => J::n(bb.as_usize() as i128),
        _ => J::Null,
    }
}

fn block_json<'tcx>(
    tcx: TyCtxt<'tcx>,
    env: TypingEnv<'tcx>,
    owner: DefId,
    body: &Body<'tcx>,
    bbd: &BasicBlockData<'tcx>,
) -> J {
    let mut b = J::obj();
    if bbd.is_cleanup {
        b.put("cleanup", J::Bool(true));
    }
    let mut stmts = vec![];
    for st in &bbd.statements {
        let mut s = J::obj();
        match &st.kind {
            StatementKind::Assign(bx) => {
                let (p, rv) = &**bx;
                s.put("k", J::s("assign"));
                s.put("lhs", place_json(tcx, body, p));
                s.put("rv", rvalue_json(tcx, env, body, rv));
            }
            StatementKind::SetDiscriminant { place, variant_index } => {
                s.put("k", J::s("setdiscr"));
                s.put("lhs", place_json(tcx, body, place));
                s.put("v", J::n(variant_index.as_usize() as i128));
            }
            StatementKind::StorageLive(_)
            | StatementKind::StorageDead(_)
            | StatementKind::Nop
            | StatementKind::FakeRead(..)
            | StatementKind::PlaceMention(..)
            | StatementKind::AscribeUserType(..)
            | StatementKind::Coverage(..)
            | StatementKind::ConstEvalCounter
            | StatementKind::BackwardIncompatibleDropHint { .. } => continue,
            other => {
                s.put("k", J::s("other"));
                s.put("text", J::s(&format!("{other:?}")));
            }
        }
        s.put("sp", span_json(tcx, st.source_info.span));
        stmts.push(s);
    }
    b.put("stmts", J::Arr(stmts));
    let term = bbd.terminator();
    let mut t = J::obj();
    match &term.kind {
        TerminatorKind::Goto { target } => {
            t.put("k", J::s("goto"));
            t.put("target", J::n(target.as_usize() as i128));
        }
        TerminatorKind::SwitchInt { discr, targets } => {
            t.put("k", J::s("switch"));
            t.put("discr", operand_json(tcx, env, body, discr));
            t.put("discr_ty", J::s(&ty_str(discr.ty(&body.local_decls, tcx))));
            let mut arms = vec![];
            for (v, bb) in targets.iter() {
                arms.push(J::Arr(vec![J::n(v as i128), J::n(bb.as_usize() as i128)]));
            }
            t.put("arms", J::Arr(arms));
            t.put("otherwise", J::n(targets.otherwise().as_usize() as i128));
        }
        TerminatorKind::UnwindResume => {
            t.put("k", J::s("resume"));
        }
        TerminatorKind::UnwindTerminate(_) => {
            t.put("k", J::s("terminate"));
        }
        TerminatorKind::Return => {
            t.put("k", J::s("return"));
        }
        TerminatorKind::Unreachable => {
            t.put("k", J::s("unreachable"));
        }
        TerminatorKind::Drop { place, target, unwind, .. } => {
            t.put("k", J::s("drop"));
            t.put("p", place_json(tcx, body, place));
            t.put("target", J::n(target.as_usize() as i128));
            t.put("unwind", unwind_json(unwind));
        }
        TerminatorKind::Call { func, args, destination, target, unwind, call_source, fn_span } => {
            t.put("k", J::s("call"));
            t.put("src", J::s(&format!("{call_source:?}")));
            let fty = func.ty(&body.local_decls, tcx);
            if let ty::FnDef(did, gargs) = fty.kind() {
                t.put("callee", J::s(&qpath(tcx, *did)));
                t.put("callee_inst", J::s(&tcx.def_path_str_with_args(*did, gargs)));
                t.put("callee_name", J::s(&tcx.item_name(*did).to_string()));
                // trait the callee belongs to, if it is a trait item
                if let Some(tr) = tcx.trait_of_assoc(*did) {
                    t.put("callee_trait", J::s(&qpath(tcx, tr)));
                }
                if let Some(imp) = tcx.impl_of_assoc(*did) {
                    t.put(
                        "callee_impl_self",
                        J::s(&ty_str(tcx.type_of(imp).instantiate_identity().skip_norm_wip())),
                    );
                }
                // self type (first generic arg) for trait calls
                if let Some(first) = gargs.iter().next() {
                    if let Some(t0) = first.as_type() {
                        t.put("self_ty", J::s(&ty_str(t0)));
                    }
                }
                let env2 = TypingEnv::post_analysis(tcx, owner);
                use rustc_middle::ty::TypeVisitableExt;
                if !gargs.has_non_region_param() {
                    if let Ok(Some(inst)) = Instance::try_resolve(tcx, env2, *did, gargs) {
                        let rdid = inst.def_id();
                        t.put("resolved", J::s(&qpath(tcx, rdid)));
                        let kind = match inst.def {
                            ty::InstanceKind::Item(_) => "item",
                            ty::InstanceKind::Virtual(..) => "virtual",
                            ty::InstanceKind::Intrinsic(_) => "intrinsic",
                            ty::InstanceKind::ClosureOnceShim { .. } => "closure_once_shim",
                            ty::InstanceKind::FnPtrShim(..) => "fnptr_shim",
                            ty::InstanceKind::DropGlue(..) => "drop_glue",
                            ty::InstanceKind::CloneShim(..) => "clone_shim",
                            _ => "other",
                        };
                        t.put("resolved_kind", J::s(kind));
                    }
                } else if let Ok(Some(inst)) = Instance::try_resolve(tcx, env2, *did, gargs) {
                    // generic context: still resolves when the impl is known
                    let rdid = inst.def_id();
                    t.put("resolved", J::s(&qpath(tcx, rdid)));
                    t.put("resolved_kind", J::s("generic"));
                }
            } else {
                t.put("callee_indirect", operand_json(tcx, env, body, func));
                t.put("callee_ty", J::s(&ty_str(fty)));
            }
            let av: Vec<J> =
                args.iter().map(|a| operand_json(tcx, env, body, &a.node)).collect();
            t.put("args", J::Arr(av));
            t.put("dest", place_json(tcx, body, destination));
            t.put(
                "target",
                match target {
                    Some(bb) => J::n(bb.as_usize() as i128),
                    None => J::Null,
                },
            );
            t.put("unwind", unwind_json(unwind));
            t.put("fn_sp", span_json(tcx, *fn_span));
        }
        TerminatorKind::Assert { cond, expected, msg, target, unwind } => {
            t.put("k", J::s("assert"));
            t.put("cond", operand_json(tcx, env, body, cond));
            t.put("expected", J::Bool(*expected));
            let mut m = J::obj();
            match &**msg {
                AssertKind::BoundsCheck { len, index } => {
                    m.put("k", J::s("bounds"));
                    m.put("len", operand_json(tcx, env, body, len));
                    m.put("index", operand_json(tcx, env, body, index));
                }
                AssertKind::Overflow(op, a, b2) => {
                    m.put("k", J::s("overflow"));
                    m.put("op", J::s(&format!("{op:?}")));
                    m.put("a", operand_json(tcx, env, body, a));
                    m.put("b", operand_json(tcx, env, body, b2));
                }
                AssertKind::OverflowNeg(a) => {
                    m.put("k", J::s("overflow_neg"));
                    m.put("a", operand_json(tcx, env, body, a));
                }
                AssertKind::DivisionByZero(a) => {
                    m.put("k", J::s("div_zero"));
                    m.put("a", operand_json(tcx, env, body, a));
                }
                AssertKind::RemainderByZero(a) => {
                    m.put("k", J::s("rem_zero"));
                    m.put("a", operand_json(tcx, env, body, a));
                }
                other => {
                    m.put("k", J::s("other"));
                    m.put("text", J::s(&format!("{other:?}")));
                }
            }
            t.put("msg", m);
            t.put("target", J::n(target.as_usize() as i128));
            t.put("unwind", unwind_json(unwind));
        }
        TerminatorKind::FalseEdge { real_target, .. } => {
            t.put("k", J::s("goto"));
            t.put("target", J::n(real_target.as_usize() as i128));
        }
        TerminatorKind::FalseUnwind { real_target, .. } => {
            t.put("k", J::s("goto"));
            t.put("target", J::n(real_target.as_usize() as i128));
        }
        other => {
            t.put("k", J::s("other"));
            t.put("text", J::s(&format!("{other:?}")));
        }
    }
    t.put("sp", span_json(tcx, term.source_info.span));
    b.put("term", t);
    b
}

fn body_json<'tcx>(tcx: TyCtxt<'tcx>, owner: DefId, body: &Body<'tcx>) -> (J, J) {
    let env = TypingEnv::post_analysis(tcx, owner);
    let mut locals = vec![];
    let mut names: std::collections::HashMap<usize, String> = Default::default();
    for vdi in &body.var_debug_info {
        if let mir::VarDebugInfoContents::Place(p) = &vdi.value {
            if p.projection.is_empty() {
                names.entry(p.local.as_usize()).or_insert(vdi.name.to_string());
            }
        }
    }
    for (l, decl) in body.local_decls.iter_enumerated() {
        let mut lo = J::obj();
        lo.put("ty", J::s(&ty_str(decl.ty)));
        if let Some(n) = names.get(&l.as_usize()) {
            lo.put("name", J::s(n));
        }
        if decl.mutability.is_mut() {
            lo.put("mut", J::Bool(true));
        }
        locals.push(lo);
    }
    // closure upvar debug names
    let mut upvars = vec![];
    for vdi in &body.var_debug_info {
        if let mir::VarDebugInfoContents::Place(p) = &vdi.value {
            if !p.projection.is_empty() {
                let mut u = J::obj();
                u.put("name", J::s(&vdi.name.to_string()));
                u.put("place", place_json(tcx, body, p));
                upvars.push(u);
            }
        }
    }
    let mut blocks = vec![];
    for (_bb, bbd) in body.basic_blocks.iter_enumerated() {
        blocks.push(block_json(tcx, env, owner, body, bbd));
    }
    let mut extra = J::obj();
    extra.put("locals", J::Arr(locals));
    extra.put("upvar_names", J::Arr(upvars));
    extra.put("arg_count", J::n(body.arg_count as i128));
    (extra, J::Arr(blocks))
}

fn dump(tcx: TyCtxt<'_>, outdir: &str) {
    let kname = krate_name(tcx);
    let ctypes: Vec<String> = tcx.crate_types().iter().map(|c| format!("{c:?}")).collect();
    let mut lines: Vec<String> = vec![];
    let mut hdr = J::obj();
    hdr.put("kind", J::s("crate"));
    hdr.put("name", J::s(&kname));
    hdr.put("crate_types", J::Arr(ctypes.iter().map(|c| J::s(c)).collect()));
    hdr.put("nonce", J::s(&std::env::var("FINDFACTS_NONCE").unwrap_or_default()));
    lines.push(hdr.to_string());

    // ADTs, traits, impls
    for id in tcx.hir_free_items() {
        let did = id.owner_id.to_def_id();
        match tcx.def_kind(did) {
            DefKind::Struct | DefKind::Enum | DefKind::Union => {
                let adt = tcx.adt_def(did);
                let mut o = J::obj();
                o.put("kind", J::s("adt"));
                o.put("path", J::s(&qpath(tcx, did)));
                o.put(
                    "adt_kind",
                    J::s(if adt.is_enum() {
                        "enum"
                    } else if adt.is_struct() {
                        "struct"
                    } else {
                        "union"
                    }),
                );
                let mut vs = vec![];
                for (vi, v) in adt.variants().iter_enumerated() {
                    let mut vo = J::obj();
                    vo.put("name", J::s(&v.name.to_string()));
                    vo.put("idx", J::n(vi.as_usize() as i128));
                    if adt.is_enum() {
                        let d = adt.discriminant_for_variant(tcx, vi);
                        vo.put("discr", J::n(d.val as i128));
                    }
                    let mut fs = vec![];
                    for f in v.fields.iter() {
                        let mut fo = J::obj();
                        fo.put("name", J::s(&f.name.to_string()));
                        fo.put(
                            "ty",
                            J::s(&ty_str(
                                tcx.type_of(f.did).instantiate_identity().skip_norm_wip(),
                            )),
                        );
                        fo.put("vis_public", J::Bool(f.vis.is_public()));
                        fs.push(fo);
                    }
                    vo.put("fields", J::Arr(fs));
                    vs.push(vo);
                }
                o.put("variants", J::Arr(vs));
                o.put("sp", span_json(tcx, tcx.def_span(did)));
                lines.push(o.to_string());
            }
            DefKind::Trait => {
                let mut o = J::obj();
                o.put("kind", J::s("trait"));
                o.put("path", J::s(&qpath(tcx, did)));
                let mut items = vec![];
                for it in tcx.associated_items(did).in_definition_order() {
                    let mut io = J::obj();
                    io.put("name", J::s(&it.name().to_string()));
                    io.put("def", J::s(&qpath(tcx, it.def_id)));
                    io.put("has_default", J::Bool(it.defaultness(tcx).has_value()));
                    io.put("is_fn", J::Bool(matches!(it.kind, ty::AssocKind::Fn { .. })));
                    items.push(io);
                }
                o.put("items", J::Arr(items));
                lines.push(o.to_string());
            }
            DefKind::Impl { .. } => {
                let mut o = J::obj();
                o.put("kind", J::s("impl"));
                let self_ty = tcx.type_of(did).instantiate_identity().skip_norm_wip();
                o.put("self_ty", J::s(&ty_str(self_ty)));
                if let ty::Adt(adt, _) = self_ty.kind() {
                    o.put("self_adt", J::s(&qpath(tcx, adt.did())));
                }
                if let Some(tr) = tcx.impl_opt_trait_ref(did) {
                    let tr = tr.instantiate_identity().skip_norm_wip();
                    o.put("trait", J::s(&qpath(tcx, tr.def_id)));
                    o.put("trait_ref", J::s(&format!("{tr}")));
                }
                let mut items = vec![];
                for it in tcx.associated_items(did).in_definition_order() {
                    let mut io = J::obj();
                    io.put("name", J::s(&it.name().to_string()));
                    io.put("def", J::s(&qpath(tcx, it.def_id)));
                    io.put("is_fn", J::Bool(matches!(it.kind, ty::AssocKind::Fn { .. })));
                    items.push(io);
                }
                o.put("items", J::Arr(items));
                o.put("sp", span_json(tcx, tcx.def_span(did)));
                o.put("automatically_derived", J::Bool(tcx.is_automatically_derived(did)));
                lines.push(o.to_string());
            }
            _ => {}
        }
    }

    // bodies
    let keys: Vec<LocalDefId> = tcx.mir_keys(()).iter().copied().collect();
    for ldid in keys {
        let did = ldid.to_def_id();
        let dk = tcx.def_kind(did);
        let is_fn_like = matches!(dk, DefKind::Fn | DefKind::AssocFn | DefKind::Closure);
        if !is_fn_like {
            continue;
        }
        if tcx.is_constructor(did) {
            continue;
        }
        let body: &Body<'_> = tcx.optimized_mir(did);
        let mut o = J::obj();
        o.put("kind", J::s("fn"));
        o.put("path", J::s(&qpath(tcx, did)));
        o.put("def_kind", J::s(&format!("{dk:?}")));
        if !matches!(dk, DefKind::Closure) {
            o.put("name", J::s(&tcx.item_name(did).to_string()));
        }
        // enclosing item for closures
        if matches!(dk, DefKind::Closure) {
            let parent = tcx.typeck_root_def_id(did);
            o.put("closure_of", J::s(&qpath(tcx, parent)));
        }
        if matches!(dk, DefKind::AssocFn) {
            if let Some(imp) = tcx.impl_of_assoc(did) {
                let self_ty = tcx.type_of(imp).instantiate_identity().skip_norm_wip();
                o.put("impl_self", J::s(&ty_str(self_ty)));
                if let ty::Adt(adt, _) = self_ty.kind() {
                    o.put("impl_self_adt", J::s(&qpath(tcx, adt.did())));
                }
                if let Some(tr) = tcx.impl_opt_trait_ref(imp) {
                    let tr = tr.instantiate_identity().skip_norm_wip();
                    o.put("impl_trait", J::s(&qpath(tcx, tr.def_id)));
                }
            } else if let Some(tr) = tcx.trait_of_assoc(did) {
                o.put("trait_default_of", J::s(&qpath(tcx, tr)));
            }
        }
        if matches!(dk, DefKind::Fn | DefKind::AssocFn) {
            let sig = tcx.fn_sig(did).instantiate_identity().skip_norm_wip();
            o.put("sig", J::s(&format!("{sig}")));
            o.put("vis_public", J::Bool(tcx.visibility(did).is_public()));
        }
        o.put("sp", span_json(tcx, tcx.def_span(did)));
        let (extra, blocks) = body_json(tcx, did, body);
        o.put("body", extra);
        o.put("blocks", blocks);
        // promoted bodies
        let promoted = tcx.promoted_mir(did);
        let mut pv = vec![];
        for pb in promoted.iter() {
            let (pextra, pblocks) = body_json(tcx, did, pb);
            let mut po = J::obj();
            po.put("body", pextra);
            po.put("blocks", pblocks);
            pv.push(po);
        }
        if !pv.is_empty() {
            o.put("promoted", J::Arr(pv));
        }
        lines.push(o.to_string());
    }

    let fname = format!("{}/{}-{}.jsonl", outdir, kname, ctypes.join("_"));
    let mut data = lines.join("\n");
    data.push('\n');
    std::fs::create_dir_all(outdir).ok();
    std::fs::write(&fname, data).expect("write facts");
}
