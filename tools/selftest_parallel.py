#!/usr/bin/env python3
"""Run the whole sensitivity corpus (seeded + mutants + benign) in parallel worker processes and print one line per
case; a development aid (the registered thorough commands run the per-property selftest themselves)."""
import os
import sys
from concurrent.futures import ProcessPoolExecutor

sys.path.insert(0, os.path.dirname(os.path.dirname(os.path.abspath(__file__))))
from sa import selftest  # noqa: E402


def one(case):
    try:
        return selftest.run_case(case)
    except Exception as e:  # a rule-engine exception is a defect of the machinery
        return {"name": case["name"], "status": "ENGINE-ERROR", "detail": repr(e)[:300]}


def main():
    pat = sys.argv[1:] 
    cases = [c for c in selftest.corpus() if not pat or any(p in c["name"] for p in pat)]
    with ProcessPoolExecutor(max_workers=int(os.environ.get("JOBS", "6"))) as ex:
        for r in ex.map(one, cases):
            by = "; ".join("%s:%s" % (p, ",".join(sorted({x[0] for x in v}))) for p, v in r.get("by", {}).items())
            print("%-40s %-24s %s" % (r["name"], r["status"], by or r.get("detail", "")))
            sys.stdout.flush()


if __name__ == "__main__":
    main()
