#!/usr/bin/env python3
"""Development aid: apply one or more patches to a scratch copy of /repo's current tree and run the rules on it.

    tools/check_patch.py [-p C04,C19] PATCH [PATCH...]

Prints every violation (rule, key, site, message); exit status 1 if there is any. Without -p all twenty properties are
run. Nothing under /repo or /verif/evidence is touched (the scratch copy lives under /tmp and is removed)."""
import contextlib
import io
import os
import shutil
import sys

HERE = os.path.dirname(os.path.dirname(os.path.abspath(__file__)))
sys.path.insert(0, HERE)
from sa import engine, selftest  # noqa: E402


def main(argv):
    props = None
    args = argv[1:]
    if args and args[0] == "-p":
        props = [p.strip().upper() for p in args[1].split(",")]
        args = args[2:]
    if not args:
        sys.stderr.write(__doc__)
        return 2
    allp = sorted(f[:-3].upper() for f in os.listdir(os.path.join(HERE, "sa", "rules")) if f.startswith("c") and f[1:3].isdigit() and f.endswith(".py"))
    sc = selftest.make_scratch()
    bad = 0
    try:
        for p in args:
            ok, msg = selftest.apply_patch(sc, os.path.abspath(p))
            if not ok:
                sys.stderr.write("patch does not apply: %s\n%s\n" % (p, msg))
                return 2
        for p in props or allp:
            buf = io.StringIO()
            with contextlib.redirect_stdout(buf):
                rc, summ = engine.run_property(p, tier="quick", repo=sc, write_evidence=False, quiet=True)
            if rc == 2:
                print("%s: the patched tree does not compile\n%s" % (p, str(summ.get("error"))[-1500:]))
                return 2
            for o in summ.get("violations", []):
                bad += 1
                print("%s [%s] %s\n    %s" % (o.rule, o.key, o.where, o.msg.replace("\n", "\n    ")))
        print("%d violation(s)" % bad)
    finally:
        shutil.rmtree(sc, ignore_errors=True)
    return 1 if bad else 0


if __name__ == "__main__":
    sys.exit(main(sys.argv))
