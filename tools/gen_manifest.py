#!/usr/bin/env python3
"""Regenerates /verif/MANIFEST.json from the rule modules present (sa/rules/cNN.py with META) — keeps the interface file valid."""
import importlib
import json
import os
import sys

HERE = os.path.dirname(os.path.dirname(os.path.abspath(__file__)))
sys.path.insert(0, HERE)

TECH = "static analysis: custom rules over rustc MIR (rustc_private driver) — dispatch tables, dominating guards, must-pass, event-graph shape, provenance slices, who-may-call"
NA_REASONS = {}

props = [json.loads(l) for l in open(os.path.join(HERE, "properties.jsonl"))]
checks = []
na = []
for p in props:
    pid = p["id"]
    modp = os.path.join(HERE, "sa", "rules", pid.lower() + ".py")
    if not os.path.exists(modp):
        na.append({"property_id": pid, "reason": NA_REASONS.get(pid, "rules not built yet in this round (see DESIGN.md section 5 for the planned structural clauses); no verdict is claimed")})
        continue
    mod = importlib.import_module("sa.rules." + pid.lower())
    meta = getattr(mod, "META", {})
    checks.append({
        "property_id": pid,
        "quick_cmd": "./vcheck %s" % pid,
        "thorough_cmd": "./vcheck %s --tier thorough" % pid,
        "evidence_file": "/verif/evidence/%s.json" % pid,
        "replay_cmd_template": "./vcheck explain {path}",
        "engine": "findfacts+sa",
        "technique": meta.get("technique", TECH),
        "level_claimed": {
            "category": "other",
            "text": "Static decision of the structural (code-shape) clauses of the property, for all paths of the analysed functions: " + meta.get("decides", "") +
                    ". Exhaustive over code paths, not over inputs; a necessary-condition check, not a proof of the behavioural statement.",
            "design_ref": "DESIGN.md section 5 (%s)" % pid,
        },
        "level_note": "Does not decide: " + meta.get("does_not_decide", "") + ". Trusted: rustc MIR construction/type resolution, dependency crates behave as their source says (API contract table in DESIGN section 2), linux/x86-64 cfg only.",
    })
m = {
    "version": 1,
    "setup_cmd": "./vcheck setup",
    "hooks": {
        "guard": "uutils_findutils_verif",
        "enable": "none needed: the driver reads the MIR of the unmodified sources (RUSTC_WORKSPACE_WRAPPER under cargo +nightly check); no cfg-guarded code was added to /repo",
        "baseline_off_cmd": "cd /repo && cargo nextest run --workspace --no-fail-fast --offline || cargo test --workspace --no-fail-fast --offline",
        "source_commits": [],
        "add_only": True,
    },
    "engines": [
        {"name": "findfacts", "path": "driver/", "serves_properties": [c["property_id"] for c in checks], "kind_free_text": "rustc_private driver dumping type-checked MIR (opt-level 0), ADTs, impls of all workspace crates as JSON facts"},
        {"name": "sa", "path": "sa/", "serves_properties": [c["property_id"] for c in checks], "kind_free_text": "Python analysis library over the MIR facts: model normalisation (renamed functions/fields mapped to the reference inventory, new helpers spliced into their callers, optional second normal form with Option/Result combinators written out), CFG, dominators, call graph, origin/provenance trees, guards in normal form, event graphs, dispatch tables, format-template decoder, zone (difference-bound) abstract interpreter, panic audit; one rule module per property"},
    ],
    "checks": checks,
    "not_applicable": na,
    "notes": "All checks are static: they read /repo's current working tree through the compiler and never run find/xargs or the test-suite. `thorough` adds the sensitivity self-test on scratch copies of the current tree: 100 independently seeded breaking changes and the reverse of every fix commit must be reported, six behaviour-preserving refactorings must stay silent (results go into the evidence as rule_sensitivity; never a property verdict).",
}
json.dump(m, open(os.path.join(HERE, "MANIFEST.json"), "w"), indent=1)
print("claimed:", [c["property_id"] for c in checks], "not applicable:", [n["property_id"] for n in na])
