#!/usr/bin/env python3
"""Prints every external (std / dependency) entry point called from non-test code of the findutils crates, with call
counts and whether the panic audit treats it as a panic-capable site. The deny-list sa/panic.py:EXTERNAL_PANICKY was
reviewed against this list; rerun after a dependency bump or when new APIs appear."""
import collections
import os
import sys

sys.path.insert(0, os.path.dirname(os.path.dirname(os.path.abspath(__file__))))
from sa import facts, panic  # noqa: E402
from sa.model import Program  # noqa: E402

p = Program(facts.ensure_facts())
cnt = collections.Counter()
site = {}
for f in p.fns.values():
    if f.crate not in ("findutils", "find", "xargs") or "::tests::" in f.path or f.path.startswith("findutils::find::tests"):
        continue
    for b, t in f.calls():
        c = t.callee or "?"
        if c.startswith("findutils::"):
            continue
        k = panic.strip_generics_path(c)
        cnt[k] += 1
        kc = panic.classify_call(f, b, t)
        if kc:
            site[k] = kc[0]
for c, n in sorted(cnt.items()):
    print("%4d  %-70s %s" % (n, c, site.get(c, "")))
print("%d distinct external entry points, %d panic-capable kinds" % (len(cnt), len(site)))
