#!/usr/bin/env python3
"""Writes tables/panic_obligations.json: the reviewed (T3) panic obligations, one entry per site, keyed without line
numbers, each with a written reason and a machine-checked side condition from the vocabulary of sa/panic.py."""
import json
import os

HERE = os.path.dirname(os.path.dirname(os.path.abspath(__file__)))
M = "findutils::find::matchers::"
LM = M + "logical_matchers::"
P = M + "printf::FormatStringParser::<'_>::"
X = "findutils::xargs::"
ob = []


def add(key, reason, cond=None):
    ob.append({"key": key, "reason": reason, "condition": cond or {"type": "none"}})


# ---- st_ctime arithmetic -------------------------------------------------------------------------------------
CH = "<std::fs::Metadata as %stime::ChangeTime>::changed" % M
add(CH + "|timeop|<std::time::SystemTime as Add<std::time::Duration>>::add", "UNIX_EPOCH + (ctime_sec >= 0 as u64, nsec < 1e9): at most i64::MAX seconds, representable by SystemTime on Linux")
add(CH + "|assert:overflow_neg|overflow_neg", "-ctime_sec overflows only for i64::MIN; st_ctime is stamped by the kernel from the system clock and cannot be set by a user")
add(CH + "|timeop|<std::time::SystemTime as Sub<std::time::Duration>>::sub", "UNIX_EPOCH - |ctime_sec| for a negative kernel-stamped ctime: within SystemTime's i64 range")
add(M + "printf::format_directive|timeop|<std::time::SystemTime as Add<std::time::Duration>>::add", "%c: UNIX_EPOCH + st_ctime seconds; st_ctime is kernel-stamped from the system clock (non-negative, far below i64::MAX)")
add(M + "printf::format_directive|timeop|<std::time::SystemTime as Add<std::time::Duration>>::add#1", "%c: + st_ctime nanoseconds (< 1e9)")
add(M + "time::get_time|assert:overflow|overflow:Sub", "-daystart: timestamp of 'now' minus seconds since midnight (< 86400); 'now' is the system clock")
add(M + "time::get_time|timeop|<std::time::SystemTime as Add<std::time::Duration>>::add", "-daystart: UNIX_EPOCH + local midnight of 'now'")
add(M + "time::FileTimeMatcher::matches_impl|assert:overflow|overflow:Mul", "age_secs * (+1|-1) overflows only when the age is exactly 2^63 s (as_secs() as i64 == i64::MIN) with a future timestamp; not reachable with kernel-representable times relative to a present-day clock")
add(M + "time::FileAgeRangeMatcher::matches_impl|assert:overflow|overflow:Mul", "as for -mtime: only an age of exactly 2^63 seconds")
add(M + "printf::format_directive|assert:overflow|overflow:Mul", "%S: st_blocks * 512 overflows u64 only for 2^55 allocated blocks (16 EiB), beyond any file system's capacity")
add(M + "ls::Ls::print|unwrap|unwrap on Result::<std::time::SystemTime, std::io::Error>::unwrap", "Metadata::modified() is always Ok on the analysed (unix) configuration")
add(CH + "|extapi|std::time::Duration::new: carry from nanoseconds overflows the seconds", "Duration::new(ctime_sec as u64, nsec) under ctime_sec >= 0: at most i64::MAX seconds plus a carry of at most 4 (u32 nanoseconds) — below u64::MAX")
add(CH + "|extapi|std::time::Duration::new: carry from nanoseconds overflows the seconds#1", "Duration::new((-ctime_sec) as u64, nsec) for a negative ctime: at most 2^63 seconds plus a carry of at most 4")
add(M + "printf::TimeFormat::apply|extapi|chrono::DateTime::format: the returned DelayedFormat's Display fails on an invalid item, and to_string()/format!/write! unwrap that#1",
    "the user's %A<k>/%C<k>/%T<k> specifier was parsed by chrono at parse time (parse_time_specifier rejects None and Item::Error), `%+` is replaced by a valid constant; a DateTime<Local> provides every field an item can ask for",
    {"type": "strftime_validated", "adt": M + "printf::TimeFormat", "variant": "Strftime", "error_discr": 6})
for n_ in ("#2", "#4"):
    add(M + "printf::Printf::print|unwrap|unwrap on Result::<(), std::io::Error>::unwrap" + n_, "result of write_padding: io::copy of blanks to the output stream fails only when the output does (output-failure category, outside the quantifier)", {"type": "operand_from", "callee": "write_padding"})
add(X + "MaxCharsCommandSizeLimiter::new_system|extapi|std::iter::Iterator::sum: integer overflow with overflow checks on", "sum of the byte lengths (+1 each) of the environment's strings: they are all resident in memory at once, so the total is below the address-space size")
add(X + "MaxCharsCommandSizeLimiter::new_system::{closure#0}|assert:overflow|overflow:Add#1", "cost(name) + cost(value) + pointer size for one environment entry: both strings are resident in memory, the sum is far below usize::MAX")
CLAP_IDS = "the id comes from a constant array of option ids declared in the same argument table; whether it exists and has this type is the same on every run"
add(X + "do_xargs::{closure#0}|extapi|clap::ArgMatches::contains_id: panics (debug) when the id is unknown", CLAP_IDS)
add(X + "do_xargs::{closure#0}::{closure#0}|extapi|clap::ArgMatches::get_one: panics when the id is unknown or the type differs from the argument's value parser", CLAP_IDS)
add(X + "normalize_options::{closure#2}|extapi|clap::ArgMatches::indices_of: panics (debug) when the id is unknown", CLAP_IDS)
# ---- entry point -------------------------------------------------------------------------------------------------
add("findutils::find::find_main|index|<[&str] as Index<RangeFrom<usize>>>::index", "args[1..]: argv always has the program name (execve convention, enforced by Linux >= 5.18); both callers pass std::env::args()")
add("findutils::find::parse_args|index|<Vec<String> as Index<usize>>::index#1", "paths[0] in the 'extra operand' message: the list is never empty here ('.' is pushed when no operand was consumed, otherwise at least one was); needs the three-variable relation len(paths) = i - paths_start, outside the zone domain")
# ---- expression parser ---------------------------------------------------------------------------------------------
B = M + "build_matcher_tree"
add(B + "|explicit|panic_fmt", "unreachable!() of the inner match on -atime/-ctime/-mtime", {"type": "inner_match_covers_arm", "arm": ["-mtime", "-atime", "-ctime"]})
add(B + "|explicit|panic_fmt#1", "unreachable!() of the inner match on -amin/-cmin/-mmin", {"type": "inner_match_covers_arm", "arm": ["-amin", "-cmin", "-mmin"]})
add(B + "|explicit|panic_fmt#2", "unreachable!() after the -exec scan: the scan loop only stops inside the slice at ';' or at '+' (arg_index == len is rejected just before)", {"type": "inner_match_covers_arm", "arm": [";", "+"]})
add(B + "|index|<[&str] as Index<Range<usize>>>::index", "args[i+2..arg_index]: the missing-argument guard `arg_index < i + required_arg` is false here and required_arg is 2 or 3", {"type": "guard_false_lt_sum", "end": "arg_index", "base": "i", "k": "required_arg", "min": 2})
add(B + "|assert:overflow|overflow:Sub#21", "exec_args.len() - 1 under `count of \"{}\" == 1`: a slice with one matching element is non-empty", {"type": "dominated_by_count_eq", "value": 1})
add(B + "|assert:overflow|overflow:Sub#30", "args[i - 1] at ')': only reached in a nested parse (expecting_bracket), which starts at i + 1 >= 1 of its caller and never moves backwards", {"type": "param_true_and_callers", "param": "expecting_bracket", "index_param": "arg_index"})
add(B + "|assert:overflow|overflow:Add#54", "i += 1 at the end of an iteration: after a nested parse i may exceed len(args) by the nesting depth (-help inside parentheses), so i <= 2*len(args) <= 2^63: cannot reach usize::MAX")
for fn_, n in ((M + "convert_arg_to_comparable_value", 2), (M + "convert_arg_to_comparable_value_and_suffix", 3)):
    for i in range(n):
        add(fn_ + "|index|<regex::Captures<'_> as Index<usize>>::index" + ("" if i == 0 else "#%d" % i), "caps[i] on a successful match: the group takes part in every match of the constant pattern", {"type": "captures_group_total"})
add(M + "exec::MultiExecMatcher::new_command|unwrap|unwrap on Result::<argmax::Command, std::io::Error>::unwrap", "the same executable and fixed arguments were accepted by try_new_command()? when the matcher was constructed (environment unchanged)", {"type": "constructor_validates", "ctor": M + "exec::MultiExecMatcher::new", "callee": "try_new_command"})
add(M + "glob::Pattern::new::{closure#0}|unwrap|unwrap on Result::<onig::Regex, onig::Error>::unwrap", "the BRE is generated by glob_to_regex: literals are escaped, bracket expressions were compiled once already by extract_bracket_expr", {"type": "operand_from", "callee": "parse_bre"})
add(M + "glob::extract_bracket_expr|assert:overflow|overflow:Add", "find()? + 2: an index returned by str::find is < len <= isize::MAX")
# ---- builders --------------------------------------------------------------------------------------------------------
add(LM + "AndMatcherBuilder::build|unwrap|unwrap on Option::<Box<dyn Matcher>>::unwrap", "pop() right after len() == 1", {"type": "dominated_by_len_eq", "value": 1})
add(LM + "OrMatcherBuilder::build|unwrap|unwrap on Option::<logical_matchers::AndMatcherBuilder>::unwrap", "pop() right after len() == 1", {"type": "dominated_by_len_eq", "value": 1})
add(LM + "ListMatcherBuilder::build|unwrap|unwrap on Option::<logical_matchers::OrMatcherBuilder>::unwrap", "pop() right after len() == 1", {"type": "dominated_by_len_eq", "value": 1})
OR_INV = {"type": "vec_nonempty_invariant", "adt": LM + "OrMatcherBuilder", "field": "submatchers"}
LIST_INV = {"type": "vec_nonempty_invariant", "adt": LM + "ListMatcherBuilder", "field": "submatchers"}
add(LM + "OrMatcherBuilder::new_and_condition|unwrap|unwrap on Option::<&mut logical_matchers::AndMatcherBuilder>::unwrap", "last_mut() on a vector that is never empty", OR_INV)
add(LM + "OrMatcherBuilder::new_or_condition|unwrap|unwrap on Option::<&logical_matchers::AndMatcherBuilder>::unwrap", "last() on a vector that is never empty", OR_INV)
add(LM + "ListMatcherBuilder::new_and_condition|unwrap|unwrap on Option::<&mut logical_matchers::OrMatcherBuilder>::unwrap", "last_mut() on a vector that is never empty", LIST_INV)
add(LM + "ListMatcherBuilder::new_or_condition|unwrap|unwrap on Option::<&mut logical_matchers::OrMatcherBuilder>::unwrap", "last_mut() on a vector that is never empty", LIST_INV)
add(LM + "ListMatcherBuilder::check_new_and_condition|unwrap|unwrap on Option::<&logical_matchers::OrMatcherBuilder>::unwrap", "last() on a vector that is never empty", LIST_INV)
add(LM + "ListMatcherBuilder::check_new_and_condition|unwrap|unwrap on Option::<&logical_matchers::AndMatcherBuilder>::unwrap", "last() of the inner Or builder, never empty", OR_INV)
add(LM + "ListMatcherBuilder::new_list_condition|unwrap|unwrap on Option::<&logical_matchers::OrMatcherBuilder>::unwrap", "last() on a vector that is never empty", LIST_INV)
add(LM + "ListMatcherBuilder::new_list_condition|unwrap|unwrap on Option::<&logical_matchers::AndMatcherBuilder>::unwrap", "last() of the inner Or builder, never empty", OR_INV)
# ---- -files0-from -------------------------------------------------------------------------------------------------------
add(M + "parse_files0_args|unwrap|unwrap on Option::<&String>::unwrap", "only called when config.files0_argument is Some", {"type": "callers_pass_some", "field": "files0_argument"})
add(M + "parse_files0_args|assert:overflow|overflow:Sub", "len() - 1 under last().is_some_and(..): the vector has a last element", {"type": "dominated_by_true", "callee": "is_some_and"})
add(M + "parse_files0_args|seqop|remove on Vec::<&[u8]>::remove", "remove(len - 1) under last().is_some_and(..)", {"type": "dominated_by_true", "callee": "is_some_and"})
# ---- -printf parser --------------------------------------------------------------------------------------------------------
add(P + "parse|unwrap|unwrap on Result::<&str, Box<dyn std::error::Error>>::unwrap", "advance_by(i) with i returned by str::find on the same string: in range and on a char boundary", {"type": "operand_from", "callee": "find", "arg": 0})
add(P + "parse|unwrap|unwrap on Result::<char, Box<dyn std::error::Error>>::unwrap", "advance_one() inside `while let Some(i) = find(..)`: the string still holds the character that was found", {"type": "dominated_by_discr", "callee": "find", "label": 1})
add(P + "parse|explicit|panic_display", "the character at the index returned by find(['%', '\\\\']) is one of those two", {"type": "dominated_by_discr", "callee": "find", "label": 1})
add(P + "parse_escape_sequence|unwrap|unwrap on Result::<&str, Box<dyn std::error::Error>>::unwrap", "advance_by(3) inside the Ok arm of peek(3) on the unchanged string", {"type": "dominated_by_discr", "callee": "and_then", "label": 0})
add(P + "parse_format_specifier|unwrap|unwrap on Result::<char, Box<dyn std::error::Error>>::unwrap", "advance_one() right after front()? succeeded on the unchanged string", {"type": "operand_from", "callee": "advance_one"})
add(P + "parse_format_width|unwrap|unwrap on Result::<char, Box<dyn std::error::Error>>::unwrap", "advance_one() inside `while front().map(is_ascii_digit).unwrap_or(false)`: a character is present", {"type": "dominated_by_true", "callee": ["unwrap_or", "is_ok_and", "is_some_and"]})
add(P + "parse_format_width|assert:overflow|overflow:Add", "digits counts characters of the format string: bounded by its length")
add(P + "parse_format_width|index|<str as Index<Range<usize>>>::index", "start[0..digits]: `digits` ASCII digits (one byte each) were consumed from `start`")
add(M + "printf::format_directive|unwrap|unwrap on Result::<&std::path::Path, std::path::StripPrefixError>::unwrap", "%P: the prefix is an ancestor of the same path", {"type": "operand_from", "callee": "strip_prefix"})
add(M + "printf::get_starting_point::{closure#0}|unwrap|unwrap on Option::<&std::path::Path>::unwrap", "ancestors().nth(depth): a path yielded at depth d below its root has at least d ancestors (each level appended one component)")
# ---- xargs ---------------------------------------------------------------------------------------------------------------------
BR = "<findutils::xargs::ByteDelimitedArgumentReader<R> as findutils::xargs::ArgumentReader>::next"
add(BR + "|assert:overflow|overflow:Sub", "buf.len() - 1 under bytes_read > 0: read_until appended that many bytes to the fresh buffer", {"type": "dominated_by_gt_zero"})
add("<%sMaxArgsCommandSizeLimiter as %sCommandSizeLimiter>::try_arg|assert:overflow|overflow:Add" % (X, X), "current_args += 1 under current_args < max_args", {"type": "dominated_by_field_lt", "lhs": "current_args", "rhs": "max_args"})
add("<%sMaxLinesCommandSizeLimiter as %sCommandSizeLimiter>::try_arg|assert:overflow|overflow:Add" % (X, X), "current_line counts input lines accepted so far: 2^64 lines cannot be read")
add("<%sMaxCharsCommandSizeLimiter as %sCommandSizeLimiter>::try_arg|assert:overflow|overflow:Add" % (X, X), "current_size + cost: current_size is the byte total of arguments held in memory, cost <= isize::MAX + 1")
add("<%sMaxCharsCommandSizeLimiter as %sCommandSizeLimiter>::try_arg|assert:overflow|overflow:Add#1" % (X, X), "current_size += cost right after `current_size + cost <= max_chars` held for the same values")
add(X + "MaxCharsCommandSizeLimiter::new_system::{closure#0}|assert:overflow|overflow:Add", "cost(name) + cost(value) of one environment entry: both strings are in memory, their lengths cannot sum to 2^64")
add(X + "CommandBuilder::<'_>::execute|index|<Vec<std::ffi::OsString> as Index<usize>>::index", "args[0] of ExecAction::Command", {"type": "variant_constructed_under_len_gt", "adt": X + "ExecAction", "variant": "Command"})
add(X + "CommandBuilder::<'_>::execute|index|<Vec<std::ffi::OsString> as Index<RangeFrom<usize>>>::index", "args[1..] of ExecAction::Command", {"type": "variant_constructed_under_len_gt", "adt": X + "ExecAction", "variant": "Command"})
add(X + "LimiterCursor::<'_>::try_next|seqop|split_at_mut on core::slice::<impl [Box<dyn CommandSizeLimiter>]>::split_at_mut", "split_at_mut(1) on the non-empty branch", {"type": "dominated_by_true", "callee": "is_empty", "value": False})
add(X + "LimiterCursor::<'_>::try_next|assert:bounds|bounds", "current[0]: current is the first half of split_at_mut(1), of length 1", {"type": "dominated_by_true", "callee": "is_empty", "value": False})
add(X + "normalize_options|unwrap|unwrap on Option::<clap::parser::Indices<'_>>::unwrap", "clap: indices_of(id) is Some for an argument that was given; this arm is only taken when -0 was given (get_flag true, no default)")
add(X + "normalize_options|unwrap|unwrap on Option::<clap::parser::Indices<'_>>::unwrap#1", "clap: indices_of(id) is Some for an argument that was given; this arm is only taken when -d was given (get_one is Some, no default)")
add(X + "parse_delimiter|index|<str as Index<RangeFrom<usize>>>::index", "&hex[1..] after starts_with('x'): the first character is one ASCII byte", {"type": "dominated_by_true", "callee": "starts_with"})
add(X + "parse_delimiter|index|<str as Index<RangeFrom<usize>>>::index#1", "&oct[1..] after starts_with('0'): the first character is one ASCII byte", {"type": "dominated_by_true", "callee": "starts_with"})
json.dump({
    "_comment": "generated by tools/gen_panic_table.py; reviewed by hand. `preconditions` are assumed at function entry and verified (zone) at every call site.",
    "preconditions": {
        M + "are_more_expressions": [{"lhs": ["local", "index"], "lhs_c": 1, "rhs": ["len", "args"], "rhs_c": 0}],
    },
    "obligations": ob,
}, open(os.path.join(HERE, "tables", "panic_obligations.json"), "w"), indent=1)
print(len(ob), "entries")
