"""C01 — expression semantics: precedence, short-circuit, default -print, -quit."""
from .. import prim
from ..dispatch import arm_of
from . import common as C

META = {
    "explanation": "R1 precedence = type nesting of the builders (List > Or > And) and append-only, forward-order construction; "
                   "R2 token -> builder action table from the parser's string dispatch, pending-negation flag writers and guards, operator arms yield no primary, '(' recurses; "
                   "R3 event graphs of And/Or/List/Not::matches compared with the reference evaluation (short-circuit, quit exits, rc of the list, negation); "
                   "R4 has_side_effects classification per Matcher impl vs the action list of the property composed with the token->type table, and the default -print branch of build_top_level_matcher; "
                   "R5 -quit plumbing: MatcherIO.quit writers, QuitMatcher, walk loop and starting-point loop leave without further evaluation",
    "decides": "the shape of expression construction and evaluation for every expression (all paths of the parser and the combinators)",
    "does_not_decide": "the truth value of individual primaries; that bytes reach stdout in call order (std buffering)",
}

LM = C.M + "logical_matchers::"
MIO = C.M + "MatcherIO"
ACTIONS = ["-print", "-print0", "-printf", "-fprint", "-fprint0", "-fprintf", "-ls", "-fls", "-exec", "-execdir", "-delete"]
NON_ACTIONS = ["-prune", "-quit"]
OPERATORS = {"-o": "new_or_condition", "-or": "new_or_condition", ",": "new_list_condition", "-a": "check_new_and_condition", "-and": "check_new_and_condition"}

ORACLE = {
    "AndMatcher": [("ENTRY", "", "iter"), ("iter", "", "next"), ("next", "1", "child"), ("next", "0", "RET(const:True)"),
                   ("child", "0", "RET(const:False)"), ("child", "else", "quit?"), ("quit?", "0", "next"), ("quit?", "else", "RET(const:True)")],
    "OrMatcher": [("ENTRY", "", "iter"), ("iter", "", "next"), ("next", "1", "child"), ("next", "0", "RET(const:False)"),
                  ("child", "else", "RET(const:True)"), ("child", "0", "quit?"), ("quit?", "0", "next"), ("quit?", "else", "RET(const:False)")],
    "ListMatcher": [("ENTRY", "", "iter"), ("iter", "", "next"), ("next", "1", "child"), ("next", "0", "RET(var:rc)"),
                    ("child", "", "quit?"), ("quit?", "0", "next"), ("quit?", "else", "RET(var:rc)")],
    "NotMatcher": [("ENTRY", "", "child"), ("child", "", "RET(not(ev:child))")],
}

ITER_ADAPTORS = ("rev", "iter", "iter_mut", "any", "all", "fold", "skip", "take", "last", "nth", "step_by", "filter", "map", "for_each", "find",
                 "position", "chain", "zip", "enumerate", "peekable", "cloned", "get", "first", "get_unchecked", "index", "len", "skip_while",
                 "take_while", "try_fold", "find_map", "filter_map", "rposition", "rfind", "split_first", "split_last")


def comb_role(t):
    c = t.callee or ""
    n = t.j.get("callee_name")
    inst = t.j.get("callee_inst") or ""
    if c == C.MATCHER_TRAIT + "::matches" or (n == "matches" and C.MATCHER_TRAIT in inst):
        return "child"
    if c.endswith("::should_quit"):
        return "quit?"
    if n == "next" and "Iterator" in inst:
        return "next"
    if n == "into_iter":
        return "iter"
    if n in ITER_ADAPTORS and ("Iterator" in inst or "slice" in inst or "Vec" in inst):
        return "other:" + n
    if c.endswith("MatcherIO::<'_>::quit") or c.endswith("set_exit_code") or c.endswith("mark_current_dir_to_be_skipped"):
        return "effect:" + n
    return None


def is_const_bool(o, val):
    return o is not None and o.k == "const" and o.a.get("v") is val


def run(ctx):
    prog = ctx.prog
    # ---- R1 -----------------------------------------------------------------------------------
    want_fields = {
        LM + "ListMatcherBuilder": "std::vec::Vec<%sOrMatcherBuilder>" % LM,
        LM + "OrMatcherBuilder": "std::vec::Vec<%sAndMatcherBuilder>" % LM,
        LM + "AndMatcherBuilder": "std::vec::Vec<std::boxed::Box<(dyn %s + 'static)>>" % C.MATCHER_TRAIT,
    }
    for adt, fty in want_fields.items():
        a = prog.adts.get(adt)
        if a is None:
            ctx.missing("R1", adt)
            continue
        fs = a["variants"][0]["fields"]
        got = {f["name"]: f["ty"] for f in fs}
        ok = list(got) == ["submatchers"] and got["submatchers"].replace(" ", "") == fty.replace(" ", "")
        ctx.ob("R1", "nesting:%s" % adt.split("::")[-1], ok, "%s fields %s; oracle: single field submatchers: %s (',' loosest > -o > -a tightest)" % (adt, got, fty), where=a["sp"]["file"] + ":" + str(a["sp"]["line"]), how="type fact")
    builds = {"ListMatcherBuilder": ("ListMatcher", "OrMatcherBuilder"), "OrMatcherBuilder": ("OrMatcher", "AndMatcherBuilder"), "AndMatcherBuilder": ("AndMatcher", None)}
    ALLOWED_VEC = {"push", "last", "last_mut", "len", "is_empty", "pop", "into_iter", "new", "next", "deref", "deref_mut"}
    nb = 0
    for f in prog.fns.values():
        if f.impl_self in [LM + b for b in builds] and f.impl_trait is None:
            nb += 1
            for b, t in f.calls():
                inst = t.j.get("callee_inst") or ""
                n = t.j.get("callee_name")
                # `subs.into_iter().map(Child::build).collect()`: every element once, in order — the loop with push written as a pipeline
                ordered_pipe = n in ("map", "collect") and not any(cn_.a["name"] in ("rev", "filter", "filter_map", "skip", "take", "step_by", "chain", "zip", "skip_while", "take_while", "flat_map", "sort", "sort_by", "dedup")
                                                                  for a_ in t.args for cn_ in prim.origin_of_operand(f, a_).call_nodes())
                if ordered_pipe and n == "map":
                    fo_ = prim.origin_of_operand(f, t.args[1]).strip() if len(t.args) > 1 else None
                    ordered_pipe = fo_ is not None and (fo_.k == "const" and str(fo_.a.get("def", fo_.a.get("text", ""))).endswith("::build") or (fo_.k == "agg" and str(fo_.a).startswith("closure:")))
                if ("std::vec::Vec" in inst or "core::slice" in inst or "std::vec::IntoIter" in inst) and n not in ALLOWED_VEC and n not in ("unwrap", "drop") and not ordered_pipe:
                    ctx.ob("R1", "builder-vec-op:%s@%s" % (n, prim.short(f.path)), False, "%s uses %s on the sub-matcher vector; only append-at-end/last-element access keeps operands in command-line order" % (f.path, inst), fn=f, where=prim.site(f, b))
                if n == "pop":
                    gs = prim.dominating_guards(f, b)
                    ok = any(gd["bool"] is True and gd["pred"].strip().k == "bin" and gd["pred"].strip().a == "Eq" and any(cc.get("v") == 1 for cc in gd["pred"].consts()) for gd in gs)
                    ctx.ob("R1", "pop-only-singleton@%s" % prim.short(f.path), ok, "pop() in %s must be under len()==1 (the single-operand shortcut); guards: %s" % (f.path, prim.guards_fmt(gs)), fn=f, where=prim.site(f, b), how="dominating guard")
    ctx.floor("R1", "builder methods", nb, 12)
    for bname, (comb, child) in builds.items():
        f = ctx.fn("R1", LM + bname + "::build")
        if f is None:
            continue
        ctor = [(b, t) for b, t in f.calls() if t.callee == LM + comb + "::new"]
        ctx.ob("R1", "build:%s=>%s" % (bname, comb), len(ctor) == 1, "%s::build must construct exactly one %s; found %d" % (bname, comb, len(ctor)), fn=f, how="call sites")
        others = [t.callee for b, t in f.calls() if (t.callee or "").startswith(LM) and (t.callee or "").endswith("::new") and t.callee != LM + comb + "::new"]
        ctx.ob("R1", "build:%s-no-other-combinator" % bname, not others, "%s::build also constructs %s" % (bname, others), fn=f, nontrivial=False)
        if child:
            # children built in forward order of self.submatchers
            its = [(b, t) for b, t in f.calls() if t.j.get("callee_name") == "into_iter"]
            ok = len(its) == 1
            if ok:
                o = prim.origin_of_operand(f, its[0][1].args[0]).strip()
                ok = o.k == "field" and o.a == "submatchers"
            cb = [(b, t) for b, t in f.calls() if t.callee == LM + child + "::build"]
            ctx.ob("R1", "build:%s-forward-order" % bname, ok and len(cb) >= 1, "%s::build must iterate self.submatchers forward (IntoIterator on the field) and build every child" % bname, fn=f, how="provenance slice")
    # delegation chain of new_and_condition
    chain = [(LM + "ListMatcherBuilder::new_and_condition", LM + "OrMatcherBuilder::new_and_condition", "last_mut"),
             (LM + "OrMatcherBuilder::new_and_condition", LM + "AndMatcherBuilder::new_and_condition", "last_mut")]
    for src, dst, acc in chain:
        f = prog.fns.get(src)
        # generic fns: path carries no generic args in facts
        f = f or next((x for p, x in prog.fns.items() if p.startswith(src)), None)
        if f is None:
            ctx.missing("R1", src)
            continue
        ctx.analysed_fns.add(f.path)
        cs = [(b, t) for b, t in f.calls() if (t.callee or "").startswith(dst)]
        ok = len(cs) == 1
        if ok:
            o = prim.origin_of_operand(f, cs[0][1].args[0])
            ok = any(c.endswith("::last_mut") for c in o.callees()) and any(x.k == "field" and x.a == "submatchers" for x in o.walk())
        ctx.ob("R1", "delegate:%s" % prim.short(src), ok, "%s must forward the operand to the *last* element of its vector (tightest open group)" % src, fn=f, how="provenance slice")
    f = next((x for p, x in prog.fns.items() if p.startswith(LM + "AndMatcherBuilder::new_and_condition")), None)
    if f is not None:
        ps = [(b, t) for b, t in f.calls() if t.j.get("callee_name") == "push"]
        ctx.ob("R1", "and-append", len(ps) == 1, "AndMatcherBuilder::new_and_condition must append (Vec::push) the operand", fn=f, how="call sites")
        # ... on every path, unconditionally: every operand written on the command line is part of the tree (has_side_effects
        # and the lifecycle calls range over the tree, so an operand dropped as "unreachable" changes the default -print)
        unconditional = bool(ps) and all(prim.must_pass(f, 0, [r], [b for b, _ in ps]) for r in f.return_blocks())
        ctx.ob("R1", "and-append-unconditional", unconditional, "AndMatcherBuilder::new_and_condition must push the operand on every path (a conditional early return drops operands from the expression tree)", fn=f, how="must-pass on the CFG")
        for b, t in ps:
            o = prim.origin_of_operand(f, t.args[1])
            ok = any(x.k == "arg" for x in o.walk()) and [c.a["name"] for c in o.call_nodes()] in (["into_box"], [])
            ctx.ob("R1", "and-append-operand", ok, "the pushed value is %s; must be the given operand (boxed)" % o.fmt(), fn=f, where=prim.site(f, b), how="provenance slice", nontrivial=False)
    for name, pushed in (("OrMatcherBuilder::new_or_condition", "AndMatcherBuilder::new"), ("ListMatcherBuilder::new_list_condition", "OrMatcherBuilder::new")):
        f = ctx.fn("R1", LM + name)
        if f is None:
            continue
        ps = [(b, t) for b, t in f.calls() if t.j.get("callee_name") == "push"]
        ok = len(ps) == 1
        if ok:
            o = prim.origin_of_operand(f, ps[0][1].args[1])
            ok = any(c == LM + pushed for c in o.callees())
        ctx.ob("R1", "open-group:%s" % name, ok, "%s must open a new group by pushing %s()" % (name, pushed), fn=f, how="provenance slice")
    f = ctx.fn("R1", LM + "ListMatcherBuilder::new_or_condition")
    if f is not None:
        cs = [(b, t) for b, t in f.calls() if t.callee == LM + "OrMatcherBuilder::new_or_condition"]
        ok = len(cs) == 1 and any(c.endswith("::last_mut") for c in prim.origin_of_operand(f, cs[0][1].args[0]).callees())
        ctx.ob("R1", "delegate:new_or_condition", ok, "ListMatcherBuilder::new_or_condition must forward to the last Or group", fn=f, how="provenance slice")

    # ---- R2 token dispatch -----------------------------------------------------------------------
    fn, d, arms, info = C.parser_arms(ctx, "R2")
    mt = C.matcher_types(ctx)
    if arms:
        ctx.floor("R2", "token literals in the parser dispatch", len(d.tests), 70)
        for tok, meth in OPERATORS.items():
            a = arm_of(arms, tok)
            if a is None:
                ctx.missing("R2", "operator arm %s" % tok)
                continue
            cs = [t.callee for b, t in a.calls if (t.callee or "").startswith(LM + "ListMatcherBuilder::")]
            ctx.ob("R2", "operator:%s=>%s" % (tok, meth), cs == [LM + "ListMatcherBuilder::" + meth], "token %s calls %s on the builder; oracle: exactly %s" % (tok, [prim.short(c) for c in cs], meth), fn=fn, where=prim.site(fn, a.entry), how="dispatch table")
            ctx.ob("R2", "operator:%s-yields-no-primary" % tok, not a.boxed_matcher_types(), "operator %s must not produce a primary; produces %s" % (tok, a.boxed_matcher_types()), fn=fn, where=prim.site(fn, a.entry), how="dispatch table")
            # receiver is the function's own top-level builder
            for b, t in a.calls:
                if (t.callee or "").startswith(LM + "ListMatcherBuilder::"):
                    o = prim.origin_of_operand(fn, t.args[0])
                    ok = any(x.k == "var" and fn.local_ty(x.a["local"]).endswith("logical_matchers::ListMatcherBuilder") for x in o.walk()) or any(c == LM + "ListMatcherBuilder::new" for c in o.callees())
                    ctx.ob("R2", "operator:%s-receiver" % tok, ok, "receiver of %s is %s" % (meth, o.fmt()), fn=fn, where=prim.site(fn, b), nontrivial=False)
        # negation
        inv = fn.locals_named("invert_next_matcher")
        flag = inv[0] if inv else None
        if flag is None:
            # role: bool local assigned Not(itself)
            for l, defs in prim.local_defs(fn).items():
                if fn.local_ty(l) != "bool" or fn.local_name(l) is None:
                    continue
                for d_ in defs:
                    if d_[1] == "assign" and _is_toggle(fn, d_, l):
                        flag = l
        if flag is None:
            ctx.missing("R2", "pending-negation flag")
        else:
            for tok in ("!", "-not"):
                a = arm_of(arms, tok)
                ws = a.local_writes(flag) if a else []
                ok = len(ws) == 1 and ws[0][1] == "assign" and _is_toggle(fn, ws[0], flag)
                ctx.ob("R2", "negation:%s-toggles" % tok, ok, "the %s arm must toggle the pending-negation flag (flag = !flag), so that '! !' cancels" % tok, fn=fn, where=prim.site(fn, a.entry) if a else None, how="local writers")
                ctx.ob("R2", "negation:%s-yields-no-primary" % tok, a is not None and not a.boxed_matcher_types(), "'!' must not itself produce a primary", fn=fn, nontrivial=False)
            # all writers of the flag
            allw = [(bb, kind, obj) for bb, kind, obj in prim.local_defs(fn).get(flag, []) if bb in fn.reachable()]
            kinds = []
            for bb, kind, obj in allw:
                if kind == "assign" and obj.rv.k == "use" and obj.rv.ops[0].kind == "const":
                    kinds.append(("const", obj.rv.ops[0].const_value(), bb))
                elif kind == "assign" and _is_toggle(fn, (bb, kind, obj), flag):
                    kinds.append(("toggle", None, bb))
                else:
                    kinds.append(("other", None, bb))
            toggles = [k for k in kinds if k[0] == "toggle"]
            falses = [k for k in kinds if k[0] == "const" and k[1] is False]
            bad = [k for k in kinds if k[0] == "other" or (k[0] == "const" and k[1] is not False)]
            ctx.ob("R2", "negation-flag-writers", len(toggles) == 1 and len(falses) == 2 and not bad,
                   "writers of the pending-negation flag: %s; oracle: one toggle (the !/-not arm), `false` at start and `false` after it has been applied — nothing else" % [(k[0], k[1]) for k in kinds], fn=fn, how="local writers")
            # tail: NotMatcher::new under flag==true, followed by reset; plain append under flag==false
            nots = [(b, t) for b, t in fn.calls() if (t.callee or "").startswith(LM + "NotMatcher::new")]
            ctx.ob("R2", "negation-wrap-site", len(nots) == 1, "NotMatcher::new call sites in the parser: %d" % len(nots), fn=fn, nontrivial=False)
            join = info["join"]
            appends = [(b, t) for b, t in fn.calls() if (t.callee or "").startswith(LM + "ListMatcherBuilder::new_and_condition")]
            ctx.ob("R2", "append-sites", len(appends) == 2, "new_and_condition call sites in the parser: %d (negated and plain)" % len(appends), fn=fn, nontrivial=False)
            for b, t in nots:
                gs = prim.dominating_guards(fn, b)
                ok = any(gd["bool"] is True and gd["pred"].strip().k == "var" and gd["pred"].strip().a.get("local") == flag for gd in gs)
                ctx.ob("R2", "negation-wrap-guard", ok, "NotMatcher::new must be applied exactly when the pending-negation flag is set; guards: %s" % prim.guards_fmt(gs), fn=fn, where=prim.site(fn, b), how="dominating guard")
                # the wrapped operand is this iteration's primary
                o = prim.origin_of_operand(fn, t.args[0])
                ok2 = any(x.k == "var" and x.a.get("local") == info["res_local"] for x in o.walk()) or "possible_submatcher" in o.fmt() or any(x.k == "variant" for x in o.walk())
                ctx.ob("R2", "negation-wraps-this-primary", ok2, "NotMatcher::new receives %s" % o.fmt(), fn=fn, where=prim.site(fn, b), nontrivial=False)
                # reset on every path from the wrap to the loop head
                resets = [k[2] for k in falses]
                ok3 = prim.must_pass(fn, b, [d.head], resets)
                if not ok3:
                    # test-and-reset in one step (`if mem::take(&mut flag) { wrap }`): the reset comes first, it dominates the
                    # wrap and nothing writes the flag between the two
                    writers = [bb_ for bb_, _, _ in allw]
                    for r_ in resets:
                        if r_ != 0 and fn.dominates(r_, b) and fn.dominates(d.head, r_):
                            between = [w_ for w_ in writers if w_ != r_ and w_ in fn.reach_from(fn.succs(r_), avoid=(r_,)) and b in fn.reach_from([w_], avoid=(r_,))]
                            if not between:
                                ok3 = True
                ctx.ob("R2", "negation-reset-after-use", ok3, "after wrapping a primary in NotMatcher the flag must be reset on every path before the next token ('!' applies to exactly one primary)", fn=fn, where=prim.site(fn, b), how="must-pass")
            for b, t in appends:
                o = prim.origin_of_operand(fn, t.args[1])
                is_neg = any(c.startswith(LM + "NotMatcher::new") for c in o.callees())
                if not is_neg:
                    gs = prim.dominating_guards(fn, b)
                    ok = any(gd["bool"] is False and gd["pred"].strip().k == "var" and gd["pred"].strip().a.get("local") == flag for gd in gs)
                    ctx.ob("R2", "plain-append-guard", ok, "the un-negated append must happen only when no negation is pending; guards: %s" % prim.guards_fmt(gs), fn=fn, where=prim.site(fn, b), how="dominating guard")
            # every primary produced by an arm reaches an append: from the join with Some(..) every path to the loop head passes an append
        # parenthesis: recursion with i+1, result is the primary
        a = arm_of(arms, "(")
        if a is None:
            ctx.missing("R2", "arm for '('")
        else:
            rec = [(b, t) for b, t in a.calls if t.callee == fn.path]
            ok = len(rec) == 1
            desc = ""
            if ok:
                t = rec[0][1]
                o = prim.origin_of_operand(fn, t.args[2]).strip()
                desc = o.fmt()
                ok = o.k == "field" and o.kids[0].strip().k == "bin" and o.kids[0].strip().a in ("AddWithOverflow", "Add") and any(c.get("v") == 1 for c in o.kids[0].consts())
                ok = ok or (o.k == "bin" and o.a == "Add")
                eb = t.args[3].const_value()
                ok = ok and eb is True
            ctx.ob("R2", "paren-recurses", ok, "'(' must parse the group by a recursive call starting at the next token (i+1) expecting ')'; start index = %s" % desc, fn=fn, where=prim.site(fn, a.entry), how="dispatch table + provenance")
        # every non-operator, non-option token yields a primary (a boxed matcher or the recursive result)
        prim_missing = []
        for lits, a in arms.items():
            if lits == ("_",):
                continue
            if any(l in OPERATORS or l in ("!", "-not", "(", ")", "-help", "--help", "-version", "--version") for l in lits):
                continue
            if not a.boxed_matcher_types():
                prim_missing.append(lits)
        ctx.ob("R2", "every-primary-token-yields-a-matcher", not prim_missing, "tokens whose arm constructs no matcher: %s" % prim_missing, fn=fn, how="dispatch table (%d arms)" % len(arms))

    # ---- R3 combinator evaluation shape ----------------------------------------------------------------
    for ty, want in ORACLE.items():
        f = ctx.fn("R3", C.matcher_impl(LM + ty, "matches"))
        if f is None:
            continue
        try:
            g = prim.event_graph(f, comb_role)
        except RuntimeError as e:
            ctx.ob("R3", "shape:%s" % ty, False, "cannot decide: %s" % e, fn=f)
            continue
        got = g.canon()
        if ty == "ListMatcher":
            rcl = C.find_local(f, "rc", ty="bool", pred=lambda fn_, l_: any(d[1] == "assign" and d[2].rv is not None and d[2].rv.k == "use" and d[2].rv.ops[0].place is not None and d[2].rv.ops[0].place.local == l_ for d in prim.local_defs(fn_).get(0, [])))
            if rcl and f.local_name(rcl[0]) != "rc":
                got = [(a, l, b.replace("RET(var:%s)" % f.local_name(rcl[0]), "RET(var:rc)")) for a, l, b in got]
        if ty == "ListMatcher":
            # before the first element the accumulator still holds its initial `false`: the same return, seen more precisely
            got = sorted(set((a, l, "RET(var:rc)" if (C.base(a) == "next" and l == "0" and b == "RET(const:False)") else b) for a, l, b in got))
        extra, missing = C.diff_edges(got, want)
        ctx.ob("R3", "shape:%s" % ty, not extra and not missing,
               "evaluation event graph of %s::matches differs from the reference evaluation.\n  unexpected edges: %s\n  missing edges: %s\n  (events: child=sub-matcher matches(), quit?=should_quit(), next=iterator step; labels are the outcome of the source event)" % (ty, C.edges_str(extra), C.edges_str(missing)),
               fn=f, how="event graph == oracle (%d edges)" % len(want))
        # iteration subject: forward over self.submatchers
        if ty != "NotMatcher":
            its = [(b, t) for b, t in f.calls() if comb_role(t) == "iter"]
            ok = len(its) == 1
            if ok:
                o = prim.origin_of_operand(f, its[0][1].args[0]).strip()
                ok = o.k == "field" and o.a == "submatchers" and "slice::Iter" in fn_ret_ty(f, its[0][1])
            ctx.ob("R3", "order:%s" % ty, ok, "%s must iterate self.submatchers front to back (slice::Iter from &Vec)" % ty, fn=f, how="provenance slice")
            # the child evaluated is the iterator's current element, with the same entry and io
            for b, t in f.calls():
                if comb_role(t) == "child":
                    o0 = prim.origin_of_operand(f, t.args[0])
                    ok = any(c.endswith("Iterator::next") for c in o0.callees())
                    a1 = prim.origin_of_operand(f, t.args[1]).strip()
                    a2 = prim.origin_of_operand(f, t.args[2]).strip()
                    ctx.ob("R3", "child-args:%s" % ty, ok and a1.k == "arg" and a2.k == "arg", "child call: receiver %s, entry %s, io %s" % (o0.fmt(), a1.fmt(), a2.fmt()), fn=f, where=prim.site(f, b), how="provenance slice")
        else:
            for b, t in f.calls():
                if comb_role(t) == "child":
                    o0 = prim.origin_of_operand(f, t.args[0]).strip()
                    ctx.ob("R3", "child-args:NotMatcher", o0.k == "field" and o0.a == "submatcher", "NotMatcher evaluates %s" % o0.fmt(), fn=f, where=prim.site(f, b), how="provenance slice")
        if ty == "ListMatcher":
            rc = C.find_local(f, "rc", ty="bool", pred=lambda fn_, l_: any(d[1] == "assign" and d[2].rv is not None and d[2].rv.k == "use" and d[2].rv.ops[0].place is not None and d[2].rv.ops[0].place.local == l_ for d in prim.local_defs(fn_).get(0, [])))
            ok = False
            if rc:
                ds = [d for d in prim.local_defs(f).get(rc[0], []) if d[0] in f.reachable() and d[1] != "partial"]
                os_ = [prim._origin_of_def(f, d, 6, {rc[0]}).strip() for d in ds]
                n_init = len([o for o in os_ if o.k == "const" and o.a.get("v") is False])
                n_child = len([o for o in os_ if o.k == "call" and comb_role(o.a["term"]) == "child"])
                ok = len(os_) == 2 and n_init == 1 and n_child == 1
            ctx.ob("R3", "list-yields-last", ok, "ListMatcher's result variable must be assigned only its initial value and each child's result (so the right-most evaluated operand decides)", fn=f, how="local writers")

    # ---- R4 default -print ----------------------------------------------------------------------------
    klass = {}
    for ty, ms in mt.items():
        f = ms.get("has_side_effects")
        if f is None:
            klass[ty] = "default-false"
            continue
        ctx.analysed_fns.add(f.path)
        vals, nonconst = C.const_return(f)
        if vals == {True} and not nonconst:
            klass[ty] = "true"
        elif vals == {False} and not nonconst:
            klass[ty] = "false"
        else:
            o = prim.origin_of_local(f, 0).strip()
            if o.k == "call" and o.a["name"] == "any":
                it = o.kids[0]
                fnarg = o.kids[1].strip() if len(o.kids) > 1 else None
                ok_it = any(x.k == "field" and x.a == "submatchers" for x in it.walk()) and not any(c.split("::")[-1] in ("skip", "take", "rev", "filter", "step_by") for c in it.callees())
                ok_fn = fnarg is not None and fnarg.k == "const" and (fnarg.a.get("def") or "").endswith("Matcher::has_side_effects")
                klass[ty] = "any-over-all-children" if ok_it and ok_fn else "any-partial:" + o.fmt()
            elif o.k == "call" and o.a["name"] == "has_side_effects":
                klass[ty] = "delegate"
            else:
                klass[ty] = "other:" + o.fmt()
    ctx.floor("R4", "impl Matcher blocks", len(mt), 38)
    composites = {LM + "AndMatcher": "any-over-all-children", LM + "OrMatcher": "any-over-all-children", LM + "ListMatcher": "any-over-all-children",
                  LM + "NotMatcher": "delegate", "std::boxed::Box<(dyn %s + 'static)>" % C.MATCHER_TRAIT: "delegate"}
    for ty, want in composites.items():
        ctx.ob("R4", "class:%s" % ty.split("::")[-1], klass.get(ty) == want, "has_side_effects of %s is `%s`; oracle `%s` (an action counts even when nested, negated or unreachable)" % (ty, klass.get(ty), want), how="classification of the override body")
    if arms:
        action_types = set()
        for tok in ACTIONS:
            a = arm_of(arms, tok)
            if a is None:
                ctx.ob("R4", "action-token:%s" % tok, False, "action token %s is not recognised by the parser dispatch" % tok, fn=fn)
                continue
            tys = a.boxed_matcher_types()
            bad = [t for t in tys if klass.get(t) != "true"]
            action_types.update(tys)
            ctx.ob("R4", "action-token:%s" % tok, bool(tys) and not bad, "token %s builds %s; has_side_effects must be constantly true for an action, classes: %s" % (tok, [t.split("::")[-1] for t in tys], {t.split("::")[-1]: klass.get(t) for t in tys}), fn=fn, where=prim.site(fn, a.entry), how="dispatch table x override classification")
        for lits, a in arms.items():
            if any(l in ACTIONS for l in lits):
                continue
            for t in a.boxed_matcher_types():
                k = klass.get(t)
                if k not in ("default-false", "false"):
                    ctx.ob("R4", "non-action:%s=>%s" % ("|".join(lits), t.split("::")[-1]), False,
                           "token(s) %s build %s whose has_side_effects is `%s`; only the actions listed in the property suppress the default -print (-prune and -quit do not count)" % (lits, t, k), fn=fn, where=prim.site(fn, a.entry))
        for tok in NON_ACTIONS:
            a = arm_of(arms, tok)
            tys = a.boxed_matcher_types() if a else []
            ok = bool(tys) and all(klass.get(t) in ("default-false", "false") for t in tys)
            ctx.ob("R4", "non-action-token:%s" % tok, ok, "%s builds %s with has_side_effects classes %s; oracle: false" % (tok, tys, [klass.get(t) for t in tys]), fn=fn, how="dispatch table x override classification")
        # every type classified true is an action type
        for ty, k in klass.items():
            if k == "true":
                ctx.ob("R4", "true-class-is-action:%s" % ty.split("::")[-1], ty in action_types, "%s reports side effects but is not built by an action token" % ty, how="dispatch table x override classification")
    bt = ctx.fn("R4", C.BTLM)
    if bt is not None:
        def role(t):
            c = t.callee or ""
            n = t.j.get("callee_name")
            if n == "has_side_effects":
                return "has_side_effects"
            if c.startswith(LM + "AndMatcherBuilder::new_and_condition"):
                return "append"
            if c == C.M + "printer::Printer::new":
                return "printer"
            if c == C.BMT:
                return "parse"
            if c == LM + "AndMatcherBuilder::build":
                return "build"
            return None
        g = C.G(prim.event_graph(bt, role))
        hs = g.nodes("has_side_effects")
        ok = len(hs) == 1
        if ok:
            t_side = g.reach(g.succ(hs[0], "else")) | set(g.succ(hs[0], "else"))
            f_side = g.reach(g.succ(hs[0], "0")) | set(g.succ(hs[0], "0"))
            ok = not any(C.base(x) in ("printer", "append", "build") for x in t_side) and any(C.base(x) == "printer" for x in f_side) and len([x for x in f_side if C.base(x) == "append"]) == 2
        ctx.ob("R4", "default-print-branch", ok, "build_top_level_matcher must add -print exactly when has_side_effects() is false; events: %s" % g.fmt(), fn=bt, how="event graph")
        # order: And[tree, Printer] and the printer is newline/stdout
        apps = sorted([(b, t) for b, t in bt.calls() if role(t) == "append"], key=lambda x: x[0])
        if len(apps) == 2:
            o1 = prim.origin_of_operand(bt, apps[0][1].args[1])
            o2 = prim.origin_of_operand(bt, apps[1][1].args[1])
            first_is_tree = any(c == C.BMT for c in o1.callees()) or "top_level_matcher" in o1.fmt()
            second_is_print = any(c == C.M + "printer::Printer::new" for c in o2.callees())
            order_ok = bt.dominates(apps[0][0], apps[1][0]) if first_is_tree and second_is_print else (bt.dominates(apps[1][0], apps[0][0]) and False)
            ctx.ob("R4", "default-print-order", first_is_tree and second_is_print and order_ok, "the implied -print must come after the user's expression: And[expr, -print]; got first=%s second=%s" % (o1.fmt(), o2.fmt()), fn=bt, how="provenance + dominance")
        for b, t in bt.calls():
            if role(t) == "printer":
                d0 = prim.origin_of_operand(bt, t.args[0]).strip()
                d1 = prim.origin_of_operand(bt, t.args[1]).strip()
                ok = d0.k == "agg" and str(d0.a).endswith("PrintDelimiter::Newline") and d1.k == "agg" and str(d1.a).endswith("Option::None")
                ctx.ob("R4", "default-print-is-print", ok, "the implied action must be -print (newline, stdout); got Printer::new(%s, %s)" % (d0.fmt(), d1.fmt()), fn=bt, where=prim.site(bt, b), how="constant arguments")
            if role(t) == "has_side_effects":
                o = prim.origin_of_operand(bt, t.args[0])
                ctx.ob("R4", "asks-whole-expression", any(c == C.BMT for c in o.callees()) or "top_level_matcher" in o.fmt(), "has_side_effects is asked of %s; must be the whole parsed expression" % o.fmt(), fn=bt, where=prim.site(bt, b), nontrivial=False)

    # ---- R5 -quit ----------------------------------------------------------------------------------------
    ws = prim.field_writes(prog, MIO, "quit")
    for f, b, obj, val, kind in ws:
        if kind == "construct":
            ok = f.path.endswith("MatcherIO::<'_>::new") and is_const_bool(val, False)
        else:
            ok = f.path.endswith("MatcherIO::<'_>::quit") and is_const_bool(val, True)
        ctx.ob("R5", "quit-writer@%s" % prim.short(f.path), ok, "MatcherIO.quit written with %s in %s (only quit() may set it, nothing may clear it)" % (val.fmt() if val else "?", f.path), fn=f, where=prim.site(f, b, obj), how="field writers")
    ctx.floor("R5", "writers of MatcherIO.quit", len(ws), 2)
    sq = next((x for p, x in prog.fns.items() if p.endswith("MatcherIO::<'_>::should_quit")), None)
    if sq is None:
        ctx.missing("R5", "MatcherIO::should_quit")
    else:
        o = prim.origin_of_local(sq, 0).strip()
        ctx.ob("R5", "should_quit-reads-flag", o.k == "field" and o.a == "quit", "should_quit returns %s" % o.fmt(), fn=sq, how="provenance slice")
    qm = ctx.fn("R5", C.matcher_impl(C.M + "quit::QuitMatcher", "matches"))
    if qm is not None:
        qc = [b for b, t in qm.calls() if (t.callee or "").endswith("MatcherIO::<'_>::quit")]
        ok = len(qc) == 1 and prim.must_pass(qm, 0, qm.return_blocks(), qc)
        vals, nonconst = C.const_return(qm)
        ctx.ob("R5", "quit-matcher", ok and vals == {True} and not nonconst, "-quit must call MatcherIO::quit on every path and be true", fn=qm, how="must-pass + constant return")
    if arms:
        a = arm_of(arms, "-quit")
        ctx.ob("R5", "token:-quit", a is not None and a.boxed_matcher_types() == [C.M + "quit::QuitMatcher"], "-quit builds %s" % (a.boxed_matcher_types() if a else None), fn=fn, how="dispatch table")
    pf, g = C.walk_graph(ctx, "R5")
    if pf is not None:
        gg = C.G(g)
        for n in gg.nodes("should_quit"):
            tr = set(gg.succ(n, "else"))
            r = tr | gg.reach(list(tr))
            bad = [x for x in r if C.base(x) in ("matches", "next", "from_walkdir", "skip")]
            ctx.ob("R5", "walk-stops-on-quit", bool(tr) and not bad, "after should_quit()==true the walk must not fetch or evaluate anything more; reachable events: %s" % sorted(r), fn=pf, how="event graph")
        for m in gg.nodes("matches"):
            r = gg.reach([m], stop_roles=("next",))
            ctx.ob("R5", "quit-consulted-after-every-evaluation", any(C.base(x) == "should_quit" for x in r) and not any(C.base(x) == "next" and not _behind_quit(gg, m) for x in []), "should_quit must be consulted between an evaluation and the next fetch", fn=pf, how="event graph")
            # every path matches -> next passes should_quit
            mb = [b for b, t in pf.calls() if C.walk_role(t) == "matches"]
            nb2 = [b for b, t in pf.calls() if C.walk_role(t) == "next"]
            sb = [b for b, t in pf.calls() if C.walk_role(t) == "should_quit"]
            ok = bool(mb) and all(prim.must_pass(pf, pf.blocks[b].term.target, nb2, sb) for b in mb)
            ctx.ob("R5", "no-bypass-of-quit-check", ok, "a path from the evaluation to the next fetch bypasses should_quit()", fn=pf, how="must-pass")
        # *quit = true on the quit edge
        qw = []
        for b in pf.reachable():
            for s in pf.blocks[b].stmts:
                if s.lhs is not None and s.lhs.proj == ["*"] and 1 <= s.lhs.local <= pf.arg_count and pf.local_ty(s.lhs.local) == "&mut bool":
                    qw.append((b, s))
        ok = len(qw) == 1 and qw[0][1].rv.k == "use" and qw[0][1].rv.ops[0].const_value() is True
        if ok:
            gs = prim.dominating_guards(pf, qw[0][0])
            ok = any(gd["bool"] is True and gd["pred"].strip().k == "call" and gd["pred"].strip().a["callee"].endswith("::should_quit") for gd in gs)
        ctx.ob("R5", "quit-reported-to-caller", ok, "process_dir must set *quit = true exactly on the should_quit()==true edge", fn=pf, how="writers + dominating guard")
    df = ctx.fn("R5", C.DO_FIND)
    if df is not None:
        def role(t):
            c = t.callee or ""
            if c == C.PROCESS_DIR:
                return "process_dir"
            if t.j.get("callee_name") == "next" and "Iterator" in (t.j.get("callee_inst") or ""):
                return "next_root"
            return None
        def brole(f, bb, o):
            o = o.strip() if o is not None else None
            if o is not None and o.k == "var" and o.a.get("local") is not None and o.a.get("local") == C.quit_flag_local(f):
                return "quit_flag"
            return None
        g2 = C.G(prim.event_graph(df, role, branch_role=brole))
        qn = g2.nodes("quit_flag")
        ok = len(qn) == 1
        if ok:
            tr = set(g2.succ(qn[0], "else"))
            r = tr | g2.reach(list(tr))
            ok = bool(tr) and not any(C.base(x) in ("process_dir", "next_root") for x in r)
            after = g2.reach(g2.nodes("process_dir"), stop_roles=("next_root",))
            ok = ok and any(C.base(x) == "quit_flag" for x in after) and not any(C.base(x) == "next_root" for x in after if False)
        ctx.ob("R5", "no-later-starting-point-after-quit", ok, "do_find must test the quit flag after each starting point and walk no further one when it is set; events: %s" % g2.fmt(), fn=df, how="event graph")
        # the flag passed to process_dir is the one tested
        for b, t in df.calls():
            if t.callee == C.PROCESS_DIR:
                o = prim.origin_of_operand(df, t.args[4])
                ctx.ob("R5", "same-quit-flag", any(x.k == "var" and x.a.get("local") == C.quit_flag_local(df) for x in o.walk()), "process_dir receives %s as quit flag" % o.fmt(), fn=df, where=prim.site(df, b), nontrivial=False)


def _is_toggle(fn, d, flag):
    o = prim._origin_of_def(fn, d, 6, {flag})
    return o.k == "un" and o.a == "Not" and o.kids[0].k == "var" and o.kids[0].a.get("local") == flag


def _behind_quit(gg, m):
    return True


def fn_ret_ty(f, t):
    if t.dest is not None and t.dest.is_local():
        return f.local_ty(t.dest.local)
    return ""
