"""C10 — -delete removes exactly the matched entries and nothing else."""
import itertools

from .. import prim
from . import common as C
from . import shared

META = {
    "explanation": "C10.R1 who-may-call over every fs-mutating API in all workspace crates (removal only via remove_dir/remove_file in the removal routine — DeleteMatcher::delete, or DeleteMatcher::matches where the routine was folded into it — argument = the entry's own path()); "
                   "R2 decision table remove_dir iff is_dir && !path_is_symlink recovered from the event graph and compared on all assignments; "
                   "R3 failure path of DeleteMatcher::matches (Err => non-zero exit code, false; Ok => true; no quit/prune); R4 -delete arm sets depth_first; R5 nothing reachable from argument parsing removes anything",
    "decides": "which APIs can remove/rename/overwrite, with which path, under which decision; the shape of the failure path; the implied -depth",
    "does_not_decide": "set equality of deleted entries with `-depth EXPR -print` on a concrete tree (follows from R4 plus the shared evaluator only informally); behaviour of the kernel's unlink/rmdir",
}

REMOVERS = {"std::fs::remove_dir": "dir", "std::fs::remove_file": "file"}
FORBIDDEN = [
    "std::fs::remove_dir_all", "std::fs::rename", "std::fs::write", "std::fs::copy", "std::fs::hard_link",
    "std::fs::set_permissions", "std::fs::create_dir", "std::fs::create_dir_all", "std::os::unix::fs::symlink",
    "std::os::unix::fs::chown", "std::os::unix::fs::lchown", "std::fs::File::set_len", "std::fs::File::set_permissions",
    "std::fs::File::create_new", "std::fs::OpenOptions::open", "std::fs::File::options",
    "nix::unistd::unlink", "nix::unistd::unlinkat", "nix::unistd::truncate", "nix::fcntl::renameat",
    "libc::unlink", "libc::rmdir", "libc::rename", "libc::unlinkat", "libc::truncate",
]
DELETE_FN = C.M + "delete::DeleteMatcher::delete"
DELETE_MATCHES = C.matcher_impl(C.M + "delete::DeleteMatcher", "matches")


def is_entry_path(o):
    """value is exactly WalkEntry::path(<the entry argument>) up to references"""
    o = o.strip()
    if o.k != "call" or o.a["callee"] != C.M + "entry::WalkEntry::path":
        return False
    a = o.kids[0].strip()
    return a.k == "arg"


def run(ctx):
    prog = ctx.prog
    # The removal routine: `DeleteMatcher::delete` where it exists as a function of its own; where it was folded into (or
    # written as a private helper spliced into) `<DeleteMatcher as Matcher>::matches`, that function is the routine.
    separate = DELETE_FN in prog.fns
    owner = DELETE_FN if separate else DELETE_MATCHES
    # ---- R1 removal API discipline -------------------------------------------------------
    n_rem = 0
    for f, b, t in prog.all_calls():
        if f.crate == "testing_commandline":
            continue        # helper binary used by the test-suite only; not part of find/xargs
        callee = t.callee or ""
        base = callee.split("::<")[0]
        if base in REMOVERS:
            n_rem += 1
            ok_where = f.path == owner
            ctx.ob("R1", "remover-site:%s@%s" % (prim.short(base), prim.short(f.path)), ok_where,
                   "%s called in %s; allowed only in %s" % (base, f.path, owner), fn=f, where=prim.site(f, b),
                   how="who-may-call")
            o = prim.origin_of_operand(f, t.args[0])
            ok_arg = is_entry_path(o)
            ctx.ob("R1", "remover-arg:%s@%s" % (prim.short(base), prim.short(f.path)), ok_arg,
                   "argument of %s is %s; must be the entry's own WalkEntry::path() with no transformation (no canonicalize/join/parent)" % (base, o.fmt()),
                   fn=f, where=prim.site(f, b), how="provenance slice")
        for forb in FORBIDDEN:
            if base == forb or base.startswith(forb + "::"):
                ctx.ob("R1", "forbidden-api:%s@%s" % (forb, prim.short(f.path)), False,
                       "%s is called in %s: this API can remove/overwrite/rename file-system objects and is not part of -delete's discipline (contract S2)" % (callee, f.path),
                       fn=f, where=prim.site(f, b))
    ctx.floor("R1", "calls to remove_dir/remove_file", n_rem, 2)
    # File::create: only the -fprint* helper
    creators = [(f, b, t) for f, b, t in prog.all_calls() if (t.callee or "").split("::<")[0] in ("std::fs::File::create",)]
    for f, b, t in creators:
        ok = f.path == C.M + "get_or_create_file" and f.crate == "findutils"
        if f.crate == "testing_commandline":
            ok = True       # the test helper binary, not part of find/xargs
        ctx.ob("R1", "file-create@%s" % prim.short(f.path), ok,
               "File::create (truncates an existing file) called in %s; allowed only in get_or_create_file (the -fprint* output)" % f.path,
               fn=f, where=prim.site(f, b), how="who-may-call")

    # ---- R2 decision table -----------------------------------------------------------------
    f = ctx.fn("R2", owner)
    if f is not None:
        def role(t):
            c = t.callee or ""
            if c.endswith("FileType::is_dir"):
                return "is_dir"
            if c.endswith("WalkEntry::path_is_symlink"):
                return "is_link"
            b = c.split("::<")[0]
            if b in REMOVERS:
                return "remove_" + REMOVERS[b]
            if c.endswith("FileType::is_symlink") or c.endswith("FileType::is_file") or "metadata" in c.split("::")[-1]:
                return "other_test:" + c.split("::")[-1]
            return None
        g = prim.event_graph(f, role)
        roles = {n[2] for n in g.nodes if isinstance(n, tuple) and n[0] == "ev"}
        # is_dir must be asked of the entry's own (follow-aware) file_type()
        for b, t in f.calls():
            if role(t) == "is_dir":
                o = prim.origin_of_operand(f, t.args[0]).strip()
                ok = o.k == "call" and o.a["callee"].endswith("WalkEntry::file_type") and o.kids[0].strip().k == "arg"
                ctx.ob("R2", "is_dir-subject", ok, "is_dir() is asked of %s; must be the entry's file_type()" % o.fmt(), fn=f, where=prim.site(f, b), how="provenance slice")
        unknown = [r for r in roles if r.startswith("other_test")]
        ctx.ob("R2", "atoms", not unknown and {"remove_dir", "remove_file"} <= roles,
               "decision atoms found: %s (need is_dir, is_link, both removers; unknown tests make the table undecidable)" % sorted(roles), fn=f)
        if not unknown:
            # where the routine is part of `matches`, the table starts at its first question and ends at the removal
            # (what follows the removal is R3's business; R3 also shows that no second removal can follow)
            firstq = sorted(n for n in {a for a, _, _ in g.canon()} if C.base(n) in ("is_dir", "is_link"))
            start = "ENTRY" if separate or not firstq else ([n for n in firstq if C.base(n) == "is_dir"] or firstq)[0]
            if not separate:
                # the first question must be asked on every path that reaches a removal
                can = g.canon()
                def reach_avoiding(avoid):
                    seen, st = {"ENTRY"}, ["ENTRY"]
                    while st:
                        x = st.pop()
                        for a, _, b2 in can:
                            if a == x and b2 not in seen and b2 != avoid:
                                seen.add(b2)
                                st.append(b2)
                    return seen
                leak = sorted(n for n in reach_avoiding(start) if n.startswith("remove_"))
                ctx.ob("R2", "table-guards-every-removal", not leak, "removals reachable without passing the first type question %s: %s" % (start, leak), fn=f, how="event graph reachability")
            for is_dir, is_link in itertools.product([False, True], repeat=2):
                tr = C.simulate(g, {"is_dir": is_dir, "is_link": is_link}, start=start, stop=None if separate else (lambda n: n.startswith("remove_")))
                want = "remove_dir" if (is_dir and not is_link) else "remove_file"
                got = None
                if tr:
                    got = [C.base(n) for n in tr if n.startswith("remove_")]
                ok = tr is not None and got == [want]
                ctx.ob("R2", "row:is_dir=%s,is_link=%s" % (is_dir, is_link), ok,
                       "with is_dir=%s, path_is_symlink=%s the code performs %s; oracle: exactly %s (a symbolic link is removed itself, a directory with rmdir)" % (is_dir, is_link, got, want),
                       fn=f, how="event-graph truth table")

    # "is the path itself a link" must be answered from an lstat whenever the entry's own type follows links
    ps = ctx.fn("R2", C.M + "entry::WalkEntry::path_is_symlink")
    if ps is not None:
        def prole(t):
            c = (t.callee or "").split("::<")[0]
            if c == C.M + "entry::WalkEntry::follow":
                return "follows?"
            if c in ("std::path::Path::symlink_metadata", "std::fs::symlink_metadata"):
                return "lstat"
            if c == C.M + "entry::WalkEntry::file_type":
                return "entry_type"
            if c == "walkdir::DirEntry::path_is_symlink":
                return "walkdir_answer"
            if c in ("std::path::Path::metadata", "std::fs::metadata", "std::path::Path::is_symlink"):
                return "other:" + c.split("::")[-1]
            return None
        def pbrole(fn_, bb, o):
            ty = prim.discr_type_of_switch(fn_, bb) or ""
            return "kind" if ty.endswith("entry::Entry") else None
        g = C.G(prim.event_graph(ps, prole, branch_role=pbrole))
        fq = g.nodes("follows?")
        ok = len(fq) == 1 and [C.base(x) for x in g.succ(fq[0], "else")] == ["lstat"] and [C.base(x) for x in g.succ(fq[0], "0")] == ["entry_type"] and not [n for n in g.out if C.base(n).startswith("other:")]
        kinds = g.nodes("kind")
        ok = ok and len(kinds) == 1 and sorted(C.base(x) for x in g.succ(kinds[0])) == ["follows?", "walkdir_answer"]
        ctx.ob("R2", "path_is_symlink-table", ok,
               "WalkEntry::path_is_symlink decision: %s; oracle: walkdir-backed entry -> walkdir's own answer; explicit entry -> lstat of the path when the entry follows links (its file_type() is then the *target's* type), its own type otherwise. Answering from the followed type makes -delete rmdir() a starting-point link under -H/-L" % g.fmt(),
               fn=ps, how="event graph == oracle")

    # ---- R3 failure path -------------------------------------------------------------------
    f = ctx.fn("R3", DELETE_MATCHES)
    if f is not None:
        def role3(t):
            c = t.callee or ""
            if c == DELETE_FN or (not separate and c.split("::<")[0] in REMOVERS):
                return "delete"
            if c.endswith("MatcherIO::<'_>::set_exit_code"):
                return "set_exit_code"
            if c.endswith("MatcherIO::<'_>::quit"):
                return "quit"
            if c.endswith("mark_current_dir_to_be_skipped"):
                return "mark_skip"
            return None
        g = prim.event_graph(f, role3)
        edges = g.canon()
        by_src = {}
        for a, l, b in edges:
            by_src.setdefault(a, []).append((l, b))
        ctx.ob("R3", "no-quit-or-prune", not any(n in by_src or any(b == n for _, b in sum(by_src.values(), [])) for n in ("quit", "mark_skip")),
               "DeleteMatcher::matches must not quit or prune; events: %s" % C.edges_str(edges), fn=f, how="event graph")
        del_edges = [(l, b) for a in sorted(by_src) if C.base(a) == "delete" for l, b in by_src[a]]
        ok_edges = [(l, b) for l, b in del_edges if l.split(",")[0] == "0"]
        err_edges = [(l, b) for l, b in del_edges if l.split(",")[0] == "1"]
        ctx.ob("R3", "result-decides", bool(del_edges) and len(ok_edges) + len(err_edges) == len(del_edges),
               "every edge leaving a removal attempt must be decided by its Result; got %s" % del_edges, fn=f, how="event graph")
        ctx.ob("R3", "ok=>true", bool(ok_edges) and all(b == "RET(const:True)" for _, b in ok_edges),
               "after a successful removal -delete must be true; got %s" % ok_edges, fn=f, how="event graph")
        ctx.ob("R3", "err=>exit-code", bool(err_edges) and all(b.startswith("set_exit_code") for _, b in err_edges),
               "a failed removal must set the exit code on every path; got %s" % err_edges, fn=f, how="event graph")
        after = [(l, b) for src, es in by_src.items() if src.startswith("set_exit_code") for l, b in es]
        ctx.ob("R3", "err=>false", bool(after) and all(b == "RET(const:False)" for _, b in after),
               "a failed removal must make -delete false for that entry (and nothing else must happen); got %s" % after, fn=f, how="event graph")
        for b, t in f.calls():
            if role3(t) == "set_exit_code":
                v = t.args[1].const_value() if len(t.args) > 1 else None
                ctx.ob("R3", "exit-code-nonzero", isinstance(v, int) and v != 0,
                       "set_exit_code argument is %s; must be a non-zero constant" % (t.args[1].fmt(f) if len(t.args) > 1 else "?"), fn=f, where=prim.site(f, b), how="constant argument")
        # only the delete() Result decides truth; it must be called at most once per path (one removal attempt per entry)
        n_del = len([1 for n in g.nodes if isinstance(n, tuple) and n[0] == "ev" and n[2] == "delete"])
        if separate:
            ctx.ob("R3", "single-attempt", n_del == 1, "delete() call sites in matches: %d (exactly one removal attempt per entry)" % n_del, fn=f)
        else:
            # removal calls written in `matches` itself: none may be reachable from another
            def after(n0):
                seen, st = set(), [n0]
                while st:
                    x = st.pop()
                    for l, b2 in by_src.get(x, []):
                        if b2 not in seen:
                            seen.add(b2)
                            st.append(b2)
                return seen
            twice = sorted((a, b2) for a in by_src if C.base(a) == "delete" for b2 in after(a) if C.base(b2) == "delete")
            ctx.ob("R3", "single-attempt", n_del >= 1 and not twice, "removal attempts in matches: %d; one reachable after another: %s (exactly one removal attempt per entry)" % (n_del, twice), fn=f)

    # find's exit status keeps a failed removal (sticky through later entries and starting points)
    shared.sticky_exit_status(ctx, "R3")

    # ---- R4 -delete implies -depth -----------------------------------------------------------
    fn, d, arms, info = C.parser_arms(ctx, "R4")
    if arms:
        from ..dispatch import arm_of
        a = arm_of(arms, "-delete")
        if a is None:
            ctx.missing("R4", "parser arm for -delete")
        else:
            ws = [(n, v) for n, v, _, _ in a.field_writes("find::Config") if n == "depth_first"]
            ok = any(v is not None and v.k == "const" and v.a.get("v") is True for _, v in ws)
            # and on every path through the arm
            wblocks = [b for n, v, b, _ in a.field_writes("find::Config") if n == "depth_first"]
            allpaths = bool(wblocks) and prim.must_pass(fn, a.entry, [info["join"]], wblocks)
            ctx.ob("R4", "delete-sets-depth_first", ok and allpaths,
                   "the -delete arm must assign Config.depth_first = true on every path (found writes: %s)" % [(n, v.fmt()) for n, v in ws],
                   fn=fn, where=prim.site(fn, a.entry), how="dispatch table + must-pass")
            ctx.ob("R4", "delete-builds-DeleteMatcher", a.boxed_matcher_types() == [C.M + "delete::DeleteMatcher"],
                   "-delete constructs %s" % a.boxed_matcher_types(), fn=fn, where=prim.site(fn, a.entry), how="dispatch table")

    # ---- R5 nothing reachable from parse_args removes anything -------------------------------
    reach = prog.reachable_fns([C.PARSE_ARGS])
    bad = []
    for p in sorted(reach):
        f2 = prog.fns[p]
        for b, t in f2.calls():
            base = (t.callee or "").split("::<")[0]
            if base in REMOVERS or base in FORBIDDEN:
                bad.append((p, base))
    matches_impls = {f3.path for f3 in prog.trait_method_impls(C.MATCHER_TRAIT, "matches")}
    reached_matches = sorted(reach & matches_impls)
    ctx.ob("R5", "parse-time-no-removal", not bad, "functions reachable from parse_args that call a removal API: %s" % bad, how="call-graph closure (%d functions)" % len(reach))
    ctx.ob("R5", "parse-time-no-evaluation", not reached_matches, "Matcher::matches implementations reachable from parse_args: %s" % reached_matches, how="call-graph closure")
    ctx.floor("R5", "functions reachable from parse_args", len(reach), 60)
