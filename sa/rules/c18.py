"""C18 — starting points: processed in order, spelled as given, isolated on error; -files0-from."""
from .. import fmtlit, prim
from . import common as C
from . import shared

M = C.M
META = {
    "explanation": "R1 operand scan of parse_args: every operand is pushed once, in order, as the unmodified token (to_string of args[i]); '.' is pushed iff no operand was consumed; nothing sorts, dedups, reverses or filters the list; "
                   "R2 do_find walks the list front to back, one process_dir per element with that element's own string (WalkDir::new receives it unchanged: clauses shared with C07), the exit status is sticky (a later success cannot clear an earlier failure), the loop is left early only on -quit; "
                   "R3 isolation: an error yielded by the walker (a starting point that cannot be examined) sets a non-zero status, is diagnosed, and the walk and the remaining starting points continue (clause shared with C02); "
                   "R4 -files0-from: the bytes read are split on NUL only and not edited before the split; exactly one trailing empty field (final NUL) is dropped; empty names are diagnosed and removed; the remaining names are appended in order; the list replaces only the implicit '.', an explicit operand together with -files0-from is an error",
    "decides": "R3 also: a starting point is examined by the walk alone (no raw status call in process_dir/do_find/parse_args, no return of process_dir before the walk); R4: -files0-from names decided one by one, unusable names diagnosed and reflected in the exit status; order, spelling, count and isolation of starting points as far as find's own code handles them, and the shape of the -files0-from splitter",
    "does_not_decide": "walkdir's handling of a root it cannot open (trusted to yield an error item); names that are not valid UTF-8",
}

ORDER_BREAKERS = ("sort", "sort_by", "sort_by_key", "sort_unstable", "sort_unstable_by", "sort_unstable_by_key", "dedup", "dedup_by", "dedup_by_key", "reverse", "swap", "rotate_left",
                  "rotate_right", "swap_remove", "insert", "retain", "retain_mut", "drain", "truncate", "clear", "pop", "remove", "split_off", "resize", "extend_from_slice", "append")



def _same_flag_local(fn, b1, b2):
    """both switches test a copy of one single-definition local (the same value, not a recomputation that merely looks alike)"""
    def root(b):
        d = fn.blocks[b].term.j.get("discr", {})
        pl = d.get("move") or d.get("copy")
        seen = 0
        while pl and not pl.get("p") and seen < 4:
            seen += 1
            ds = [x for x in prim.local_defs(fn).get(pl["l"], []) if x[1] != "partial"]
            if len(ds) == 1 and ds[0][1] == "assign" and ds[0][2].rv.k == "use" and ds[0][2].rv.ops[0].place is not None and not ds[0][2].rv.ops[0].place.proj:
                pl = {"l": ds[0][2].rv.ops[0].place.local}
                continue
            return pl["l"] if len(ds) == 1 else None
        return None
    r1, r2 = root(b1), root(b2)
    return r1 is not None and r1 == r2


def vec_calls_on(f, local):
    """(bb, term, name) of calls whose receiver (arg 0) refers to user local `local`"""
    out = []
    for b, t in f.calls():
        if t.args and prim.user_local_behind(f, t.args[0]) == local:
            out.append((b, t, t.j.get("callee_name")))
    return out


def run(ctx):
    prog = ctx.prog
    # ---- R1 operand scan ---------------------------------------------------------------------------------
    pa = ctx.fn("R1", C.PARSE_ARGS)
    if pa is not None:
        pl = C.find_local(pa, "paths", ty="std::vec::Vec<std::string::String>")
        if not pl:
            ctx.missing("R1", "paths local of parse_args")
        else:
            paths = pl[0]
            calls = vec_calls_on(pa, paths)
            names = [n for _, _, n in calls]
            bad = [n for n in names if n in ORDER_BREAKERS]
            ctx.ob("R1", "no-reordering", not bad, "parse_args applies %s to the starting-point list; operands must stay in command-line order, duplicates included" % bad, fn=pa, how="call sites on the list")
            pushes = [(b, t) for b, t, n in calls if n == "push"]
            kinds = []
            # the operand scan written as a pipeline: `args[k..].iter().take_while(is operand).map(to_string).collect()`
            pipe = None
            for bb_, kind_, obj_ in prim.local_defs(pa).get(paths, []):
                if kind_ == "call" and obj_.j.get("callee_name") == "collect":
                    po = prim.origin_of_operand(pa, obj_.args[0])
                    pn = [cn_.a["name"] for cn_ in po.call_nodes()]
                    adaptors = [n_ for n_ in pn if n_ in ORDER_BREAKERS or n_ in ("filter", "filter_map", "skip", "skip_while", "step_by", "rev", "chain", "zip", "flat_map")]
                    maps = [cn_ for cn_ in po.call_nodes() if cn_.a["name"] == "map"]
                    verbatim = False
                    if len(maps) == 1 and len(maps[0].kids) == 2:
                        clo = [x for x in maps[0].kids[1].walk() if x.k == "agg" and str(x.a).startswith("closure:")]
                        cf_ = prog.fns.get(str(clo[0].a).split(":", 1)[1]) if len(clo) == 1 else None
                        if cf_ is not None:
                            r_ = prim.origin_of_local(cf_, 0)
                            verbatim = set(cn_.a["name"] for cn_ in r_.call_nodes()) <= {"to_string", "to_owned", "into", "from", "deref"} and any(x.k == "arg" and x.a.get("idx") == 2 for x in r_.walk()) and not r_.consts()
                    from_args = any(cn_.a["name"] in ("iter", "into_iter") and any(x.k == "arg" and x.a["name"] == "args" for x in cn_.walk()) for cn_ in po.call_nodes())
                    pipe = (bb_, not adaptors and verbatim and from_args and "take_while" in pn, po.fmt()[:160])
            if pipe is not None:
                kinds.append("operand")
                ctx.ob("R1", "operand-verbatim", pipe[1], "the operands are collected by %s; oracle: the run of operand tokens of args, each copied unchanged, in order (take_while + map(to_string), nothing that drops, reorders or edits)" % pipe[2], fn=pa, where=prim.site(pa, pipe[0]), how="provenance slice of the pipeline")
            ctx.ob("R1", "push-sites", len(pushes) == 2 or (len(pushes) == 1 and pipe is not None), "parse_args pushes starting points at %d sites%s; oracle: the operand scan and the implicit '.'" % (len(pushes), " besides the collecting pipeline" if pipe else ""), fn=pa, how="call sites", nontrivial=False)
            for b, t in pushes:
                o = prim.origin_of_operand(pa, t.args[1])
                cn = [c.a["name"] for c in o.call_nodes()]
                s = o.strip()
                lit = [c.get("v") for c in o.consts() if c.get("k") == "str"]
                if lit == ["."] and set(cn) <= {"to_string", "to_owned", "into", "from"}:
                    gs = prim.dominating_guards(pa, b)
                    ok = False
                    for gd in gs:
                        pr = gd["pred"].strip()
                        if pr.k == "bin" and pr.a == "Eq" and gd["bool"] is True:
                            # operands of the comparison as written: the scan index and its value before the scan
                            for st in pa.blocks[gd["bb"]].stmts:
                                if st.rv is not None and st.rv.k == "bin" and st.rv.j["op"] == "Eq":
                                    ls = [prim.user_local_behind(pa, x) for x in st.rv.ops if x.place is not None]
                                    if len(ls) == 2 and None not in ls and ls[0] != ls[1]:
                                        # role: one operand is a snapshot (single plain copy) of the other, the scan index
                                        for snap, idx in ((ls[0], ls[1]), (ls[1], ls[0])):
                                            ds = [d for d in prim.local_defs(pa).get(snap, []) if d[1] != "partial"]
                                            if len(ds) == 1 and ds[0][1] == "assign" and ds[0][2].rv.k == "use" and ds[0][2].rv.ops[0].place is not None and ds[0][2].rv.ops[0].place.local == idx and pa.dominates(ds[0][0], b):
                                                ok = True
                        if pr.k == "call" and pr.a["name"] == "is_empty" and gd["bool"] is True:
                            ok = True
                    kinds.append("default")
                    ctx.ob("R1", "default-dot-iff-no-operand", ok, "'.' is pushed under %s; oracle: exactly when the operand scan consumed nothing" % prim.guards_fmt(gs), fn=pa, where=prim.site(pa, b), how="dominating guard")
                else:
                    idx = [x for x in o.walk() if x.k == "index"]
                    ok = set(cn) <= {"to_string", "to_owned", "into", "from"} and len(idx) == 1 and any(x.k == "arg" and x.a["name"] == "args" for x in idx[0].walk()) and idx[0].kids[1].strip().k == "var"
                    kinds.append("operand")
                    ctx.ob("R1", "operand-verbatim", ok, "an operand is stored as %s; oracle: args[i] copied unchanged (no trimming of slashes, no normalisation)" % o.fmt(), fn=pa, where=prim.site(pa, b), how="provenance slice")
                    # index advances by exactly one after each push, inside the loop
                    il = C.scan_index(pa)
                    if il:
                        incs = []
                        for bb, kind, obj in prim.local_defs(pa).get(il[0], []):
                            if bb in pa.reach_from([b]) and kind == "assign":
                                oo = prim._origin_of_def(pa, (bb, kind, obj), 6, set()).strip()
                                core = oo.kids[0].strip() if oo.k == "field" and oo.kids else oo
                                if core.k == "bin" and core.a in ("Add", "AddWithOverflow"):
                                    incs.append((bb, [c.get("v") for c in core.consts()]))
                        nxt = [x for x in incs if prim.must_pass(pa, pa.blocks[b].term.target, [b], [x[0]])]
                        ctx.ob("R1", "scan-advances-by-one", bool(nxt) and all(v == [1] for _, v in nxt), "after storing an operand the scan index advances by %s before the next push; oracle 1 (no operand skipped or taken twice)" % [v for _, v in nxt], fn=pa, where=prim.site(pa, b), how="must-pass + constant")
            ctx.ob("R1", "push-kinds", sorted(kinds) == ["default", "operand"], "push sites classified as %s" % kinds, fn=pa, nontrivial=False)
            # -files0-from replacement
            assigns = [d for d in prim.local_defs(pa).get(paths, []) if d[1] != "partial" and d[0] in pa.reachable()]
            repl = []
            for d in assigns:
                o = prim._origin_of_def(pa, d, 8, {paths})
                if any(x.k == "field" and x.a == "new_paths" for x in o.walk()) or "new_paths" in o.fmt():
                    repl.append((d, o))
            # the compiler may emit the assignment twice (one copy per drop-flag state of the old value): same value, same guard
            ok = len(repl) >= 1 and len({o_.fmt() for _, o_ in repl}) == 1 and len({tuple(sorted((g_["bb"], str(g_["bool"])) for g_ in prim.dominating_guards(pa, d_[0]) if g_["bool"] is not None and not g_["pred"].fmt().startswith("phi("))) for d_, _ in repl}) == 1
            if ok:
                d, o = repl[0]
                cn = [c.a["name"] for c in o.call_nodes()]
                gs = prim.dominating_guards(pa, d[0])
                atoms = prim.norm_guards(gs)
                is_c = lambda v: (lambda x: x.strip().k == "const" and x.strip().a.get("v") == v)
                anyo = lambda x: True
                only_dot = prim.atom_holds(atoms, "eq", anyo, is_c(".")) is not None and prim.atom_holds(atoms, "eq", lambda x: any(c.a["name"] == "len" for c in x.call_nodes()), is_c(1)) is not None
                if not only_dot:
                    # or: under the very flag that made parse_args supply the default "." (no operand was given) — an
                    # explicit "." is an operand like any other
                    dots = [bb for bb, tt in pa.calls() if tt.j.get("callee_name") == "push" and any(c.get("v") == "." for c in prim.origin_of_operand(pa, tt.args[1]).consts())]
                    # (the '.' push guard itself is decided by default-dot-iff-no-operand above)
                    same_flag = False
                    for gd1 in gs:
                        p1 = prim.expand_single_def_vars(pa, gd1["pred"]).strip()
                        if gd1["bool"] is not True or not ((p1.k == "bin" and p1.a == "Eq") or (p1.k == "call" and p1.a["name"] == "is_empty")):
                            continue
                        for db in dots:
                            for gd2 in prim.dominating_guards(pa, db):
                                if gd2["bool"] is True and prim.expand_single_def_vars(pa, gd2["pred"]).fmt() == p1.fmt() and _same_flag_local(pa, gd1["bb"], gd2["bb"]):
                                    same_flag = True
                    only_dot = same_flag and bool(dots)
                ok = set(cn) <= {"to_vec", "clone", "to_owned", "deref", "as_ref", "into"} and only_dot
            ctx.ob("R1", "files0-replaces-only-implicit-dot", ok, "the -files0-from list must replace the starting points only when they are just the implicit '.', unchanged and in order (otherwise: error 'file operands cannot be combined')", fn=pa, how="local writers + dominating guards")
    # ---- R2 do_find -------------------------------------------------------------------------------------------
    C.import_rules(ctx, "C07", ["R2"], "R2", key_prefix="spelling")
    shared.sticky_exit_status(ctx, "R2")
    df = ctx.fn("R2", C.DO_FIND)
    if df is not None:
        def role(t):
            n = t.j.get("callee_name")
            if t.callee == C.PROCESS_DIR:
                return "walk"
            if n == "next" and "Iterator" in (t.j.get("callee_inst") or ""):
                return "next"
            if n == "into_iter":
                return "iter"
            return None
        def brole(fn, bb, o):
            o = o.strip()
            if o.k == "var" and o.a.get("local") is not None and o.a.get("local") == C.quit_flag_local(fn):
                return "quit?"
            return None
        g = C.G(prim.event_graph(df, role, branch_role=brole))
        nx = g.nodes("next")
        wk = g.nodes("walk")
        qn = g.nodes("quit?")
        ok = len(nx) == 1 and len(wk) == 1 and len(qn) == 1
        if ok:
            ok = g.succ(nx[0], "1") == wk and all(x.startswith("RET(agg:Result::Ok") for x in g.succ(nx[0], "0")) and g.succ(wk[0]) == qn and g.succ(qn[0], "0") == nx and all(x.startswith("RET(agg:Result::Ok") for x in g.succ(qn[0], "else"))
        ctx.ob("R2", "one-walk-per-starting-point", ok, "do_find must walk each starting point once, in list order, and leave the loop early only when -quit was evaluated; events: %s" % g.fmt(), fn=df, how="event graph")
        for b, t in df.calls():
            if role(t) == "iter":
                o = prim.origin_of_operand(df, t.args[0])
                cn = [c.a["name"] for c in o.call_nodes() if c.a["name"] not in ("branch", "parse_args")]
                ok = any(x.k == "field" and x.a == "paths" for x in o.walk()) and not cn
                ctx.ob("R2", "iterates-the-list-forward", ok, "do_find iterates %s; oracle: the parsed list itself, front to back (no rev/skip/filter)" % o.fmt(), fn=df, where=prim.site(df, b), how="provenance slice")
            if role(t) == "walk":
                qo = prim.origin_of_operand(df, t.args[4])
                ok = prim.user_local_behind(df, t.args[4]) is not None and prim.user_local_behind(df, t.args[4]) == C.quit_flag_local(df)
                ctx.ob("R2", "quit-flag-shared", ok, "process_dir reports -quit through %s" % qo.fmt(), fn=df, where=prim.site(df, b), how="provenance slice", nontrivial=False)
    # ---- R3 isolation -------------------------------------------------------------------------------------------
    C.import_rules(ctx, "C02", ["R3"], "R3", key_prefix="walk-error")
    fm = ctx.fn("R3", C.FIND_MAIN)
    if fm is not None:
        rets = set()
        g = C.G(prim.event_graph(fm, lambda t: "do_find" if t.callee == C.DO_FIND else None))
        dn = g.nodes("do_find")
        ok = len(dn) == 1
        if ok:
            ok = g.succ(dn[0], "0") == ["RET(var:ret)"] or all(x.startswith("RET(") and "const" not in x for x in g.succ(dn[0], "0"))
            er = g.succ(dn[0], "1")
            ok = ok and bool(er) and all(x.startswith("RET(const:") and x != "RET(const:0)" for x in er)
        ctx.ob("R3", "status-returned", ok, "find_main must return the accumulated status on success and a non-zero constant when parsing failed; events %s" % g.fmt(), fn=fm, how="event graph")
    # a starting point is examined by the walk alone (which applies the follow mode and turns a dangling link into an
    # entry): no raw status call on it in the functions that handle starting points, and no way out of process_dir that
    # does not go through the walk
    from . import c13 as _c13
    pd = prog.fns.get(C.PROCESS_DIR)
    n_fn = 0
    for f in [prog.fns.get(C.PROCESS_DIR), prog.fns.get(C.DO_FIND), prog.fns.get(C.PARSE_ARGS)]:
        if f is None:
            continue
        n_fn += 1
        for b, t in f.calls():
            rn = _c13.raw_name(t)
            if rn is None:
                continue
            ok = False
            ctx.ob("R3", "starting-point-examined-by-the-walk:%s@%s" % (prim.short(rn), prim.short(f.path)), ok,
                   "%s calls %s (%s) itself: what a starting point is — also one that is a dangling symbolic link, or unreadable — is for the walk to find out with the follow mode applied; a status call of its own decides differently for links "
                   "(`find -L dangling` must visit the link, not report it missing)" % (f.path, rn, _c13.RAW[rn]), fn=f, where=prim.site(f, b), how="who-may-call")
    ctx.floor("R3", "starting-point functions scanned for raw status calls", n_fn, 3)
    if pd is not None:
        its = [b for b, t in pd.calls() if t.j.get("callee_name") == "into_iter" and "walkdir::WalkDir" in (t.j.get("callee_inst") or "")]
        rets = pd.return_blocks()
        ok = len(its) == 1 and all(pd.dominates(its[0], r) for r in rets)
        ctx.ob("R3", "no-way-out-before-the-walk", ok, "process_dir returns from blocks %s; every return must come after the walk was started (a starting point is never given up on before the walker has seen it)" % [prim.site(pd, r) for r in rets if not (its and pd.dominates(its[0], r))],
               fn=pd, how="dominators")
    # ---- R4 -files0-from ------------------------------------------------------------------------------------------
    pf = ctx.fn("R4", M + "parse_files0_args")
    if pf is not None:
        bl = C.find_local(pf, "buffer", ty="std::vec::Vec<u8>")
        sl = C.find_local(pf, "buffer_split", ty="std::vec::Vec<&[u8]>")
        if not (bl and sl):
            ctx.missing("R4", "locals buffer/buffer_split of parse_files0_args (role anchors)")
        else:
            bc = vec_calls_on(pf, bl[0])
            names = sorted({n for _, _, n in bc})
            extra = [n for n in names if n not in ("read_to_end", "deref", "as_slice", "split", "new", "as_ref", "borrow", "len", "is_empty", "iter")]
            ctx.ob("R4", "bytes-not-edited-before-split", not extra, "the bytes read for -files0-from are touched by %s before/besides the NUL split; names may end in newline or carriage return and must not be trimmed (every byte except NUL belongs to a name)" % extra, fn=pf, how="call sites on the buffer")
            # the read fills that buffer
            reads = [(b, t) for b, t in pf.calls() if t.j.get("callee_name") == "read_to_end"]
            okr = len(reads) == 2 and all(prim.user_local_behind(pf, t.args[1]) == bl[0] for _, t in reads)
            ctx.ob("R4", "whole-input-read", okr, "both input modes (stdin, file) must read everything into the buffer that is split (%d read_to_end sites)" % len(reads), fn=pf, how="call sites + provenance")
            # split predicate: byte == 0
            sp = [(b, t) for b, t in pf.calls() if t.j.get("callee_name") in ("split", "splitn", "rsplit", "split_inclusive", "split_terminator", "rsplitn", "lines")]
            ok = len(sp) == 1 and sp[0][1].j.get("callee_name") == "split" and "slice" in (sp[0][1].callee or "")
            pred = "?"
            if ok:
                so = prim.origin_of_operand(pf, sp[0][1].args[0])
                ok = prim.user_local_behind(pf, sp[0][1].args[0]) == bl[0] or any(x.k == "var" and x.a.get("local") == bl[0] for x in prim.expand_single_def_vars(pf, so).walk()) or "buffer" in so.fmt()
                # what is split is the buffer itself: between the read and the split only views of the same bytes
                # (Deref, as_slice, ...) — a trim/strip/sub-slice on the way drops bytes that belong to the last name
                via = sorted({c.a["name"] for c in prim.expand_single_def_vars(pf, so).call_nodes()} - {"deref", "deref_mut", "as_slice", "as_mut_slice", "as_ref", "borrow", "as_bytes", "as_mut", "new", "with_capacity", "default"})
                sliced = [x.k for x in prim.expand_single_def_vars(pf, so).walk() if x.k in ("index", "subslice")]
                ctx.ob("R4", "split-receives-the-whole-buffer", not via and not sliced, "the NUL split is applied to the buffer through %s; oracle: the bytes read, all of them (views only: deref/as_slice) — a trailing newline or blank belongs to the last name when no NUL ends the list" % (via + sliced), fn=pf, where=prim.site(pf, sp[0][0]), how="provenance slice of the split receiver")
                co = prim.origin_of_operand(pf, sp[0][1].args[1]).strip()
                cf = prog.fns.get(str(co.a)[8:]) if co.k == "agg" and str(co.a).startswith("closure:") else None
                if cf is None:
                    ok = False
                else:
                    ctx.analysed_fns.add(cf.path)
                    ro = prim.origin_of_local(cf, 0).strip()
                    pred = ro.fmt()
                    ok = ok and ro.k == "bin" and ro.a == "Eq" and [c.get("v") for c in ro.consts()] == [0] and not ro.call_nodes()
            ctx.ob("R4", "split-on-NUL-only", ok, "the name list is cut with %s where the predicate is %s; oracle: slice::split(|b| b == 0) on the whole buffer" % ([t.j.get("callee_name") for _, t in sp], pred), fn=pf, how="API choice + closure body")
            # trailing empty field: remove(len-1) under last().is_some_and(is_empty); nothing else removes
            scalls = vec_calls_on(pf, sl[0])
            snames = [n for _, _, n in scalls]
            # (`pop()` removes the last field, as `remove(len - 1)` does)
            bad = [n for n in snames if n in ORDER_BREAKERS and n not in ("remove", "pop")]
            ctx.ob("R4", "fields-keep-order", not bad, "the split fields are modified with %s; only the final empty field may be removed" % bad, fn=pf, how="call sites on the field list")
            rem = [(b, t, n) for b, t, n in scalls if n in ("remove", "pop")]
            ok = len(rem) == 1
            if ok:
                b, t, n_ = rem[0]
                if n_ == "pop":
                    last_idx = True
                else:
                    io = prim.origin_of_operand(pf, t.args[1]).strip()
                    core = io.kids[0].strip() if io.k == "field" and io.kids else io
                    last_idx = core.k == "bin" and core.a in ("Sub", "SubWithOverflow") and [c.get("v") for c in core.consts()] == [1] and any(c.a["name"] == "len" for c in core.call_nodes())
                gs = prim.dominating_guards(pf, b)
                guard = False
                for gd in gs:
                    pr = gd["pred"].strip()
                    if pr.k == "call" and pr.a["name"] == "is_some_and" and gd["bool"] is True and any(c.a["name"] == "last" for c in pr.call_nodes()):
                        cl = [prog.fns.get(str(x.a)[8:]) for x in pr.walk() if x.k == "agg" and str(x.a).startswith("closure:")]
                        for cf in cl:
                            if cf is not None:
                                ctx.analysed_fns.add(cf.path)
                                ro = prim.origin_of_local(cf, 0).strip()
                                if ro.k == "call" and ro.a["name"] == "is_empty":
                                    guard = True
                ok = last_idx and guard
            ctx.ob("R4", "one-trailing-empty-field-dropped", ok, "exactly the last field is removed, and only when it is empty (input ends with NUL); an unterminated last name is kept as is", fn=pf, how="provenance slice + dominating guard")
            # every field, front to back, decides for itself: a valid non-empty name is appended as it is; an empty name and a
            # name that is not valid Unicode are diagnosed and skipped (the latter also marks the run as failed)
            def role(t):
                n = t.j.get("callee_name")
                c = t.callee or ""
                if n == "next" and "IntoIter" in (t.j.get("callee_inst") or ""):
                    return "next"
                if n == "into_iter":
                    return "into_iter"
                if n == "from_utf8":
                    return "utf8"
                if n == "push":
                    return "push"
                if c.endswith("_eprint"):
                    return "diag"
                if prim.is_str_eq(t) or (n == "is_empty" and "str" in (t.callee or "")):
                    return "is_empty"
                return None
            g = C.G(prim.event_graph(pf, role))
            its = [(b, t) for b, t in pf.calls() if t.j.get("callee_name") == "into_iter"]
            ok = len(its) == 1 and prim.user_local_behind(pf, its[0][1].args[0]) == sl[0] and "std::vec::Vec" in (its[0][1].j.get("callee_inst") or "")
            ok = ok and not [t.j.get("callee_name") for b, t in pf.calls() if t.j.get("callee_name") in ("rev", "skip", "take", "step_by", "filter", "take_while", "skip_while", "filter_map", "retain", "sort", "dedup")]
            ctx.ob("R4", "names-from-all-fields", ok, "the names must be every field in order: a plain front-to-back iteration over the split fields (no rev/skip/filter); iterates %s" % [prim.origin_of_operand(pf, t.args[0]).fmt()[:60] for b, t in its], fn=pf, how="call sites + provenance")
            un = g.nodes("utf8")
            okt = len(un) == 1 and len(g.nodes("next")) == 1
            if okt:
                nx = g.nodes("next")[0]
                okt = g.succ(nx, "1") == un and all(x.startswith("RET(agg:Result::Ok") for x in g.succ(nx, "0"))
                oks = g.succ(un[0], "0")
                ers = g.succ(un[0], "1")
                okt = okt and len(oks) == 1 and C.base(oks[0]) == "is_empty" and bool(ers) and all(C.base(x) == "diag" for x in ers)
                if okt:
                    ie = oks[0]
                    okt = [C.base(x) for x in g.succ(ie, "0")] == ["push"] and all(C.base(x) == "diag" for x in g.succ(ie, "else")) and bool(g.succ(ie, "else"))
                    for x in g.succ(ie, "0") + g.succ(ie, "else") + ers:
                        okt = okt and g.succ(x) == [nx]
            ctx.ob("R4", "per-name-decision", okt, "per field: valid and non-empty => appended; empty => diagnostic, skipped; not valid Unicode => diagnostic, skipped; then the next field — events: %s" % g.fmt()[:400], fn=pf, how="event graph")
            for b, t in pf.calls():
                if prim.is_str_eq(t):
                    lits = [c.get("v") for a in t.args for c in prim.origin_of_operand(pf, a).consts() if c.get("k") == "str"]
                    ctx.ob("R4", "empty-name-test", lits == [""], "the name is compared with %s; oracle the empty string" % lits, fn=pf, where=prim.site(pf, b), how="constant operand", nontrivial=False)
            ps = [(b, t) for b, t in pf.calls() if t.j.get("callee_name") == "push"]
            ok = len(ps) == 1
            if ok:
                ro = prim.expand_single_def_vars(pf, prim.origin_of_operand(pf, ps[0][1].args[0]))
                vo = prim.origin_of_operand(pf, ps[0][1].args[1])
                vn = [c.a["name"] for c in vo.call_nodes()]
                ok = (any(x.k == "field" and x.a == "new_paths" for x in ro.walk()) or "new_paths" in ro.fmt()) and set(vn) <= {"to_string", "to_owned", "into", "from_utf8", "next", "deref", "as_ref"} and "from_utf8" in vn
            ctx.ob("R4", "names-appended-in-order", ok, "each usable name is pushed, unchanged, onto config.new_paths as it is met", fn=pf, how="provenance slice")
            # unusable (non-Unicode) names make the run fail: the flag set on that branch is what Config carries
            ws = [(f, val) for f, bb, obj, val, kind in prim.field_writes(prog, "findutils::find::Config", "files0_invalid_names") if f.path == pf.path]
            ok = len(ws) == 1
            if ok:
                fl = [x.a.get("local") for x in ws[0][1].walk() if x.k == "var"]
                ok = len(fl) == 1
                if ok:
                    trues = [bb for bb, v in prim.const_assigns_to(pf, fl[0]) if v is True]
                    er_blocks = [b for b, t in pf.calls() if (t.callee or "").endswith("_eprint")]
                    # set exactly on the invalid-Unicode branch: dominated by the Err edge of from_utf8
                    def on_err(bb):
                        return any(gd["labels"] == [1] and any(c.a["name"] == "from_utf8" for c in gd["pred"].call_nodes()) for gd in prim.dominating_guards(pf, bb))
                    ok = bool(trues) and all(on_err(bb) for bb in trues)
            ctx.ob("R4", "unusable-names-fail-the-run", ok, "config.files0_invalid_names is set from a flag that becomes true exactly on the not-valid-Unicode branch (do_find turns it into a non-zero exit status, shared rule status-init)", fn=pf, how="field writers + dominating guards")
        # the input selector: "-" = stdin, otherwise the named file
        st = [(b, t) for b, t in pf.calls() if (t.callee or "").startswith("std::io::stdin")]
        op = [(b, t) for b, t in pf.calls() if (t.callee or "").startswith("std::fs::File::open")]
        ok = len(st) == 1 and len(op) == 1
        if ok:
            gs = prim.dominating_guards(pf, st[0][0])
            ok = any(gd["pred"].strip().k == "call" and gd["pred"].strip().a["name"] == "eq" and gd["bool"] is True and any(c.get("v") == "-" for c in gd["pred"].consts()) for gd in gs)
            fo = prim.origin_of_operand(pf, op[0][1].args[0])
            ok = ok and any(x.k == "field" and x.a == "files0_argument" for x in prim.expand_single_def_vars(pf, fo).walk())
        ctx.ob("R4", "input-selector", ok, "-files0-from reads standard input for '-' and otherwise the named file (the operand itself)", fn=pf, how="dominating guard + provenance")
    fn, d, arms, info = C.parser_arms(ctx, "R4")
    if arms:
        from ..dispatch import arm_of
        a = arm_of(arms, "-files0-from")
        if a is None:
            ctx.ob("R4", "token", False, "-files0-from not recognised", fn=fn)
        else:
            ws = [(n, v) for n, v, _, _ in a.field_writes("find::Config") if n == "files0_argument"]
            ins = [(b, t) for b, t in a.calls if t.j.get("callee_name") in ("insert", "replace", "get_or_insert")]
            ok = False
            for b, t in ins:
                ro = prim.origin_of_operand(fn, t.args[0])
                vo = prim.origin_of_operand(fn, t.args[1])
                if any(x.k == "field" and x.a == "files0_argument" for x in ro.walk()) and any(x.k == "index" for x in vo.walk()) and set(c.a["name"] for c in vo.call_nodes()) <= {"to_string", "to_owned", "into", "from"}:
                    ok = True
            for n, v in ws:
                if v is not None and any(x.k == "index" for x in v.walk()):
                    ok = True
            ctx.ob("R4", "operand-stored", ok, "the -files0-from arm must store its operand token unchanged in config.files0_argument", fn=fn, where=prim.site(fn, a.entry), how="dispatch table + provenance")
