"""C16 — -printf renders escapes, directives, width and justification faithfully."""
from .. import dispatch, fmtlit, prim
from . import common as C
from . import c07

M = C.M
P = M + "printf::"
FSP = P + "FormatStringParser::<'_>::"
E = M + "entry::"
META = {
    "explanation": "R1 escape table recovered from the char dispatch of parse_escape_sequence and compared row by row (\\a 07 \\b 08 \\f 0C \\n 0A \\r 0D \\t 09 \\v 0B \\0 00 \\\\ 5C), octal escapes radix 8 / three digits, anything else rejected; "
                   "R2 directive tables: letter -> directive (with its flag) from parse_format_specifier, directive -> accessor from the variant dispatch of format_directive (%s len, %n nlink, %i ino, %U uid, %G gid, %d depth, %f file_name, %h parent rules, %l link target, %y/%Y type with the follow flag), every record through WalkEntry::metadata; %m masks all twelve mode bits (0o7777, sibling of -perm); "
                   "%p is the same value -print writes: WalkEntry::path() through identity conversions only (a strip_prefix/components/join on the way re-normalises the spelling); "
                   "R3 padding: the width templates are `{:<w$}` under Left and `{:>w$}` under Right with the width taken from the directive and no precision (never truncated), no width => bare `{}`, every directive value is written on every path (an empty value is still padded), flag '-' => Left, default Right; "
                   "R4 literal text and %% are written with a bare `{}` by write! (nothing appended); R5 information flow for %H/%P: the starting point as given cannot be recomputed from (entry path, depth), so its value must have a source other than those two",
    "decides": "the escape and directive tables, which record field each directive prints, that %p equals -print's value, the padding templates and that nothing is skipped or appended",
    "does_not_decide": "time formats (chrono), symbolic permission rendering (uucore), what Path normalisation does to one particular spelling (only whether the needed information can reach the site)",
}

ESCAPES = {"a": "\x07", "b": "\x08", "f": "\x0c", "n": "\n", "r": "\r", "t": "\t", "v": "\x0b", "0": "\0", "\\": "\\"}
LETTERS = {
    "d": ("Depth", None), "f": ("Basename", None), "h": ("Dirname", None), "H": ("StartingPoint", None), "i": ("Inode", None), "l": ("SymlinkTarget", None),
    "n": ("HardlinkCount", None), "s": ("Size", None), "p": ("Path", False), "P": ("Path", True), "U": ("User", False), "u": ("User", True),
    "G": ("Group", False), "g": ("Group", True), "y": ("Type", False), "Y": ("Type", True), "m": ("Permissions", "Octal"), "M": ("Permissions", "Symbolic"),
}
ACCESSORS = {"Size": ({"len"}, {"blocks"}), "HardlinkCount": ({"nlink"}, {"len", "ino"}), "Inode": ({"ino"}, {"nlink", "dev"}), "User": ({"uid"}, {"gid"}),
             "Group": ({"gid"}, {"uid"}), "Depth": ({"depth"}, set()), "Basename": ({"file_name"}, {"path", "parent"}), "Dirname": ({"parent", "path"}, {"file_name"}),
             "SymlinkTarget": ({"read_link", "file_type", "is_symlink"}, {"path_is_symlink"}), "Type": ({"path_is_symlink", "file_type", "format_non_link_file_type"}, set())}


def char_switches(f):
    """switch terminators on a `char` local: list of (bb, local name, {label: target})"""
    out = []
    for b in f.reachable():
        t = f.blocks[b].term
        if t.k == "switch" and t.discr.place is not None and t.discr.place.is_local() and f.local_ty(t.discr.place.local) == "char":
            out.append((b, f.local_name(t.discr.place.local), dict(prim.switch_edges(f, b))))
    return out


def form2_seen(ctx):
    return bool(getattr(ctx, "_c16_flags_form2", False))


def _flags_as_prefix(ctx, pf):
    """The flags read in one piece: `flags` = the longest prefix of the rest of the format made of blanks and dashes (cut
    with `find(|c| c != ' ' && c != '-')` + the parser's own advance), justification Left iff it contains a dash. The same
    table as the character loop: Right initially, Left on '-', blanks skipped, anything else ends the flags."""
    prog = ctx.prog
    aggs = []
    for b in pf.reachable():
        for s in pf.blocks[b].stmts:
            if s.rv is not None and s.rv.k == "agg" and s.rv.j.get("adt") == P + "Justify":
                aggs.append((b, s.rv.j.get("variant")))
    if sorted(v for _, v in aggs) != ["Left", "Right"]:
        return False
    subj = None
    for b, v in aggs:
        hit = None
        for gd in prim.dominating_guards(pf, b):
            pr = prim.resolve_promoted(pf, gd["pred"]).strip()
            if pr.k == "call" and pr.a["name"] == "contains" and gd["bool"] is not None and len(pr.kids) == 2:
                pat = pr.kids[1].strip()
                if pat.k == "const" and (pat.a.get("ch") == "-" or pat.a.get("v") in ("-", 45)):
                    hit = (gd["bool"], pr.kids[0])
        if hit is None or hit[0] != (v == "Left"):
            return False
        subj = hit[1]
    # the searched text: what the parser's advance hands back for the offset `find(not a flag character)` of its own text
    so = prim.renorm(prim.expand_single_def_vars(pf, subj, depth=6))
    adv = [c for c in so.call_nodes() if c.a["callee"] == FSP + "advance_by"]
    fnd = [c for c in so.call_nodes() if c.a["name"] == "find" and "str" in c.a["callee"]]
    if len(adv) != 1 or len(fnd) != 1 or len(fnd[0].kids) != 2:
        return False
    if not any(x.k == "field" and str(x.a) == "string" for x in fnd[0].kids[0].walk()):
        return False
    clo = [x for x in fnd[0].kids[1].walk() if x.k == "agg" and str(x.a).startswith("closure:")]
    cf = prog.fns.get(str(clo[0].a).split(":", 1)[1]) if len(clo) == 1 else None
    if cf is None:
        return False
    ctx.analysed_fns.add(cf.path)
    cmps = []
    for b in cf.reachable():
        for s in cf.blocks[b].stmts:
            if s.rv is not None and s.rv.k == "bin" and s.rv.j["op"] in ("Eq", "Ne", "Lt", "Le", "Gt", "Ge"):
                cs = [o_.const.get("ch") for o_ in s.rv.ops if o_.kind == "const"]
                cmps.append((s.rv.j["op"], cs[0] if cs else None))
    if sorted(cmps, key=str) != sorted([("Ne", " "), ("Ne", "-")], key=str) or any(t.k == "call" for _, t in cf.calls()):
        return False
    # `a && b`: true only when both hold (the result is false on the path where the first comparison fails)
    ro = prim.origin_of_local(cf, 0)
    alts = [a_.strip() for a_ in prim.flatten_phi(ro)]
    if not (len(alts) == 2 and any(a_.k == "const" and a_.a.get("v") is False for a_ in alts) and any(a_.k == "bin" and a_.a == "Ne" for a_ in alts)):
        return False
    ctx._c16_flags_form2 = True
    return True


def run(ctx):
    prog = ctx.prog
    # ---- R1 escapes -----------------------------------------------------------------------------------------
    pe = ctx.fn("R1", FSP + "parse_escape_sequence")
    if pe is not None:
        sws = [s for s in char_switches(pe) if len(s[2]) >= 8]
        ctx.ob("R1", "escape-dispatch", len(sws) == 1, "parse_escape_sequence must dispatch on the escape character once; found %d wide char switches" % len(sws), fn=pe, nontrivial=False)
        if len(sws) == 1:
            b, nm, edges = sws[0]
            got = {}
            for lab, tgt in edges.items():
                if lab == "else":
                    continue
                val = None
                for s in pe.blocks[tgt].stmts:
                    if s.rv is not None and s.rv.k == "use" and s.rv.ops[0].kind == "const" and s.rv.ops[0].const.get("k") == "str":
                        val = s.rv.ops[0].const_value()
                got[chr(lab)] = val
            for ch, want in ESCAPES.items():
                ctx.ob("R1", "escape:%s" % ("backslash" if ch == "\\" else ch), got.get(ch) == want, "escape \\%s is rendered as %r; oracle %r" % (ch, got.get(ch), want), fn=pe, how="char dispatch table")
            extra = sorted(set(got) - set(ESCAPES))
            # `\c` (stop printing and flush) may be one of the arms instead of a test before the dispatch
            if "c" in extra:
                tgt_c = edges.get(ord("c"))
                reg_c = [x for x in pe.reach_from([tgt_c]) if pe.dominates(tgt_c, x)] if tgt_c is not None else []
                if any(s.rv is not None and s.rv.k == "agg" and s.rv.j.get("adt") == P + "FormatComponent" and s.rv.j.get("variant") == "Flush" for x in reg_c for s in pe.blocks[x].stmts) and \
                   not any(s.rv is not None and s.rv.k == "agg" and s.rv.j.get("adt") == P + "FormatComponent" and s.rv.j.get("variant") != "Flush" for x in reg_c for s in pe.blocks[x].stmts):
                    extra.remove("c")
            ctx.ob("R1", "no-extra-escapes", not extra, "unexpected escapes %s" % extra, fn=pe, how="char dispatch table", nontrivial=False)
            # default arm => Err
            dreg = [x for x in pe.reach_from([edges["else"]]) if pe.dominates(edges["else"], x)]
            errs = any(s.rv is not None and s.rv.k == "agg" and s.rv.j.get("adt") == "std::result::Result" and s.rv.j.get("variant") == "Err" for x in dreg for s in pe.blocks[x].stmts)
            lits = any(s.rv is not None and s.rv.k == "agg" and s.rv.j.get("adt") == P + "FormatComponent" for x in dreg for s in pe.blocks[x].stmts)
            ctx.ob("R1", "unknown-escape=>error", errs and not lits, "an unknown escape must be rejected", fn=pe, how="char dispatch table")
        # octal: radix 8, three digits
        radix = []
        lens = []
        for f2 in [pe] + prog.closures_of(pe):
            for b, t in f2.calls():
                n = t.j.get("callee_name")
                if n in ("is_digit", "from_str_radix", "to_digit"):
                    v = t.args[1].const_value()
                    if v is None:
                        o = prim.origin_of_operand(f2, t.args[1]).strip()
                        v = o.a.get("v") if o.k == "const" else None
                    radix.append((n, v))
                if (t.callee or "").startswith(FSP) and n in ("peek", "advance_by"):
                    lens.append((n, prim.origin_of_operand(f2, t.args[1])))
        ctx.ob("R1", "octal-radix", bool(radix) and all(v == 8 for _, v in radix) and {"is_digit", "from_str_radix"} <= {n for n, _ in radix}, "octal escape parsing uses %s; oracle radix 8 for the digit test and the conversion" % radix, fn=pe, how="constant arguments")
        # \N, \NN, \NNN: the run of octal digits at the front, at most three, is consumed — no more, no fewer
        okl = len(lens) == 1 and lens[0][0] == "advance_by"
        ldesc = [(n, o.fmt()[:160]) for n, o in lens]
        if okl:
            o = lens[0][1].strip()
            chain = [c.a["name"] for c in o.call_nodes()]
            tk = [c for c in o.call_nodes() if c.a["name"] == "take"]
            okl = o.k == "call" and chain[:4] == ["count", "take_while", "take", "chars"] and len(tk) == 1 and tk[0].kids[1].strip().k == "const" and tk[0].kids[1].strip().a.get("v") == 3 and any(x.k == "field" and str(x.a) == "string" for x in o.walk())
        ctx.ob("R1", "octal-length", okl, "octal escapes consume %s; oracle: advance_by(count of the leading octal digits of the remaining format, at most three) — one to three digits, like printf(3)" % ldesc, fn=pe, how="provenance slice")
        # the value is one byte: ASCII as a literal character, anything else as a raw byte (never a multi-byte encoding of it)
        comps = []
        for b in pe.reachable():
            for st in pe.blocks[b].stmts:
                if st.rv is not None and st.rv.k == "agg" and st.rv.j.get("adt") == P + "FormatComponent" and st.rv.ops:
                    vo = prim.origin_of_operand(pe, st.rv.ops[0])
                    if any(c.a["name"] == "from_str_radix" for c in vo.call_nodes()):
                        asc = None
                        for at in prim.norm_guards(prim.dominating_guards(pe, b)):
                            if at["a"].strip().k == "call" and at["a"].strip().a["name"] == "is_ascii" and at["b"].strip().k == "const":
                                asc = (at["rel"] == "eq") == (at["b"].strip().a.get("v") is True)
                        single = any(x.k == "cast" and str(x.a) == "u8" for x in vo.walk())
                        comps.append((st.rv.j.get("variant"), asc, single))
        ctx.ob("R1", "octal-value-is-one-byte", sorted(comps, key=str) == sorted([("Literal", True, True), ("Byte", False, True)], key=str), "components built from an octal escape (variant, value is ASCII, value narrowed to u8): %s; oracle: Literal only for an ASCII value, Byte for 0200..0377 — char::from_u32 of such a value would be written as two bytes" % comps, fn=pe, how="provenance slice + dominating guards")
    # ---- R2 directive letters ---------------------------------------------------------------------------------
    pf = ctx.fn("R2", FSP + "parse_format_specifier")
    if pf is not None:
        sws = [s for s in char_switches(pf) if len(s[2]) >= 20]
        ctx.ob("R2", "letter-dispatch", len(sws) == 1, "parse_format_specifier must dispatch on the directive letter once", fn=pf, nontrivial=False)
        if len(sws) == 1:
            b, nm, edges = sws[0]
            got = {}
            for lab, tgt in edges.items():
                if lab == "else":
                    continue
                reg = [x for x in pf.reach_from([tgt]) if pf.dominates(tgt, x)]
                vs = []
                for x in sorted(reg):
                    for s in pf.blocks[x].stmts:
                        if s.rv is not None and s.rv.k == "agg" and s.rv.j.get("adt") == P + "FormatDirective":
                            payload = None
                            if s.rv.ops:
                                o = prim.origin_of_operand(pf, s.rv.ops[0]).strip()
                                if o.k == "const":
                                    payload = o.a.get("v")
                                elif o.k == "agg":
                                    payload = str(o.a).split("::")[-1]
                                elif o.k == "bin" and o.a in ("Eq", "Ne") and len(o.kids) == 2:
                                    # arms merged for two letters, the flag computed from the letter itself (`first == 'k'`)
                                    cs = [k_.strip() for k_ in o.kids if k_.strip().k == "const" and k_.strip().a.get("ch") is not None]
                                    ot = [k_.strip() for k_ in o.kids if not (k_.strip().k == "const")]
                                    scrut = prim.switch_pred(pf, b).strip()
                                    if len(cs) == 1 and len(ot) == 1 and ot[0].fmt() == scrut.fmt():
                                        payload = (chr(lab) == cs[0].a["ch"]) == (o.a == "Eq")
                            vs.append((s.rv.j.get("variant"), payload))
                got[chr(lab)] = vs
            for ch, want in LETTERS.items():
                g = got.get(ch)
                ok = g is not None and len(g) == 1 and g[0][0] == want[0] and (want[1] is None or g[0][1] == want[1])
                ctx.ob("R2", "letter:%%%s" % ch, ok, "%%%s parses to %s; oracle %s%s" % (ch, g, want[0], "" if want[1] is None else "(%s)" % want[1]), fn=pf, how="char dispatch table")
        # %% => Literal("%"); flag '-' => Left; default Right
        pct = False
        for b in pf.reachable():
            t = pf.blocks[b].term
            if t.k == "switch":
                pr = prim.switch_pred(pf, b).strip()
                if pr.k == "bin" and pr.a == "Eq" and any(c.get("ch") == "%" for c in pr.consts()):
                    for lab, tgt in prim.switch_edges(pf, b):
                        if lab == "else":
                            reg = [x for x in pf.reach_from([tgt]) if pf.dominates(tgt, x)]
                            for x in reg:
                                for s in pf.blocks[x].stmts:
                                    if s.rv is not None and s.rv.k == "agg" and s.rv.j.get("adt") == P + "FormatComponent" and s.rv.j.get("variant") == "Literal":
                                        o = prim.origin_of_operand(pf, s.rv.ops[0])
                                        if any(c.get("v") == "%" for c in o.consts()):
                                            pct = True
        if not pct:
            # the same decision as an arm of the directive dispatch (`'%' => Literal("%")`)
            for x in pf.reachable():
                for s in pf.blocks[x].stmts:
                    if s.rv is not None and s.rv.k == "agg" and s.rv.j.get("adt") == P + "FormatComponent" and s.rv.j.get("variant") == "Literal":
                        o = prim.origin_of_operand(pf, s.rv.ops[0])
                        if any(c.get("v") == "%" for c in o.consts()):
                            atoms = prim.norm_guards(prim.dominating_guards(pf, x))
                            is_pct = lambda y: y.strip().k == "const" and (y.strip().a.get("v") in (37, "%") or y.strip().a.get("ch") == "%")
                            if prim.atom_holds(atoms, "eq", lambda y: y.strip().k != "const", is_pct) is not None:
                                pct = True
        ctx.ob("R4", "percent-percent", pct, "%% must become the literal text \"%\"", fn=pf, how="branch + constant")
        jl = C.find_local(pf, "justify", ty="printf::Justify")
        # (the flag loop may sit in a helper that was spliced in: its own `justify` is the one written by the '-' arm)
        jall = [l_ for l_ in range(len(pf.locals)) if (pf.local_name(l_) or "").split("::")[-1] == "justify" and pf.local_ty(l_).endswith("printf::Justify")] or jl
        if jl or jall:
            vals = []
            for bb, o in [x_ for l_ in (jall or jl) for x_ in prim.defs_origins(pf, l_)]:
                s = o.strip()
                if s.k == "agg":
                    ch = None
                    for gd in prim.dominating_guards(pf, bb):
                        if pf.blocks[gd["bb"]].term.j.get("discr_ty") == "char" and all(isinstance(x, int) for x in gd["labels"]):
                            ch = "".join(chr(x) for x in gd["labels"])
                    vals.append((ch, str(s.a).split("::")[-1]))
            form2 = False
            if sorted(vals, key=str) != sorted([(None, "Right"), ("-", "Left")], key=str):
                form2 = _flags_as_prefix(ctx, pf)
            ctx.ob("R3", "flag-table", form2 or sorted(vals, key=str) == sorted([(None, "Right"), ("-", "Left")], key=str), "justification writers %s; oracle: Right initially, Left on the '-' flag, nothing else" % vals, fn=pf, how="local writers + char dispatch")
        else:
            ctx.missing("R3", "justify local in parse_format_specifier")
        for b in pf.reachable():
            for s in pf.blocks[b].stmts:
                if s.rv is not None and s.rv.k == "agg" and s.rv.j.get("adt") == P + "FormatComponent" and s.rv.j.get("variant") == "Directive":
                    names = s.rv.j["fields"]
                    wo = prim.origin_of_operand(pf, s.rv.ops[names.index("width")]).strip()
                    jo = prim.origin_of_operand(pf, s.rv.ops[names.index("justify")]).strip()
                    wcalls = [c.a["callee"] for c in wo.call_nodes()]
                    if form2_seen(ctx) and FSP + "parse_format_width" in wcalls and set(c.a["name"] for c in wo.call_nodes()) <= {"parse_format_width", "branch"}:
                        # the flag is the value the prefix form computes (judged by flag-table): Left or Right, nothing else
                        alts_ = [a_.strip() for a_ in prim.flatten_phi(prim.renorm(prim.expand_single_def_vars(pf, jo, depth=5)))]
                        if alts_ and all(a_.k == "agg" and str(a_.a).startswith(P + "Justify::") for a_ in alts_):
                            ctx.ob("R3", "directive-carries-width-and-flag", True, "Directive{width: %s, justify: %s}" % (wo.fmt(), jo.fmt()), fn=pf, where=prim.site(pf, b, s), how="provenance slice")
                            continue
                    ok = FSP + "parse_format_width" in wcalls and set(c.a["name"] for c in wo.call_nodes()) <= {"parse_format_width", "branch"} and \
                        ((jo.k == "var" and (jo.a.get("name") or "").split("::")[-1] == "justify") or
                         (not jo.consts() or True) and any(x.k == "var" and (x.a.get("name") or "").split("::")[-1] == "justify" for x in prim.renorm(prim.expand_single_def_vars(pf, jo, depth=5)).walk()) and not any(cn_.a["name"] not in ("branch", "from_residual") for cn_ in jo.call_nodes()))
                    ctx.ob("R3", "directive-carries-width-and-flag", ok, "Directive{width: %s, justify: %s}; oracle: the parsed width and flag" % (wo.fmt(), jo.fmt()), fn=pf, where=prim.site(pf, b, s), how="provenance slice")
    # ---- R2 accessors --------------------------------------------------------------------------------------------
    fd = ctx.fn("R2", P + "format_directive")
    if fd is not None:
        adt = prog.adts.get(P + "FormatDirective")
        vn = {v["idx"]: v["name"] for v in adt["variants"]} if adt else {}
        sw = [b for b in fd.reachable() if fd.blocks[b].term.k == "switch" and (prim.discr_type_of_switch(fd, b) or "").endswith("printf::FormatDirective")]
        ctx.ob("R2", "directive-dispatch", len(sw) == 1, "format_directive must dispatch once on the directive; found %d" % len(sw), fn=fd, nontrivial=False)
        regions = {}
        if len(sw) == 1:
            for lab, tgt in prim.switch_edges(fd, sw[0]):
                if lab != "else":
                    regions[vn.get(lab, lab)] = (tgt, [x for x in fd.reach_from([tgt]) if fd.dominates(tgt, x)])
        for var, (must, forbid) in ACCESSORS.items():
            if var not in regions:
                ctx.ob("R2", "accessor:%s" % var, False, "no arm for directive %s" % var, fn=fd)
                continue
            tgt, reg = regions[var]
            names = {fd.blocks[x].term.j.get("callee_name") for x in reg if fd.blocks[x].term.k == "call"}
            # values computed once before the dispatch (`let path = file_info.path();`) and used in the arm count as read there
            for x in reg:
                tt = fd.blocks[x].term
                if tt.k == "call":
                    for a_ in tt.args:
                        if a_.place is not None:
                            names |= {cn_.a["name"] for cn_ in prim.expand_single_def_vars(fd, prim.origin_of_operand(fd, a_)).call_nodes() if cn_.a["name"] in (must | forbid)}
            stat_fields = {"len", "nlink", "ino", "uid", "gid", "dev", "blocks", "mode", "size"} & names
            ok = must <= names and not (forbid & names) and (not (must & {"len", "nlink", "ino", "uid", "gid"}) or stat_fields == (must & stat_fields))
            # a status-record field must be read from the record itself (std::fs::Metadata), not from a look-alike accessor
            # (walkdir's d_ino, a cached copy, ...): the follow mode selects the record, and only the record is authoritative
            for x in reg:
                tt = fd.blocks[x].term
                if tt.k == "call" and tt.j.get("callee_name") in (must & {"len", "nlink", "ino", "uid", "gid"}):
                    if "std::fs::Metadata" not in (tt.j.get("callee_inst") or tt.callee or ""):
                        ok = False
            ctx.ob("R2", "accessor:%s" % var, ok, "directive %s reads %s; oracle: %s and none of %s" % (var, sorted(names & (must | forbid | stat_fields)), sorted(must), sorted(forbid)), fn=fd, where=prim.site(fd, tgt), how="variant dispatch table")
        # %h: "the part before the last component ('.' when there is none)": the constant "." is produced exactly under
        # `parent == ""` (a path of one component has the empty parent), never under another comparison
        if "Dirname" in regions:
            tgt, reg = regions["Dirname"]
            dots = []
            for x in sorted(reg):
                tt = fd.blocks[x].term
                cands_ = [prim.resolve_promoted(fd, prim.origin_of_operand(fd, a_)).strip() for a_ in (tt.args if tt.k == "call" else [])]
                for s_ in fd.blocks[x].stmts:
                    if s_.rv is not None and s_.rv.k in ("use", "agg") and s_.rv.ops:
                        cands_ += [prim.resolve_promoted(fd, prim.origin_of_operand(fd, o_)).strip() for o_ in s_.rv.ops]
                if any(c_.k == "const" and c_.a.get("v") == "." for c_ in cands_):
                    eqs = []
                    for gd in prim.dominating_guards(fd, x):
                        if gd["bb"] not in reg and gd["bb"] != tgt:
                            continue
                        pr = prim.resolve_promoted(fd, gd["pred"]).strip()
                        if pr.k == "call" and pr.a["name"] in ("eq", "ne") and gd["bool"] is not None:
                            lit = [c.get("v") for c in pr.consts() if c.get("k") == "str"]
                            if len(lit) == 1 and ((pr.a["name"] == "eq") == (gd["bool"] is True)):
                                eqs.append((lit[0], any(c.a["name"] == "parent" for c in prim.expand_single_def_vars(fd, pr).call_nodes())))
                    dots.append((x, eqs))
            okh = bool(dots) and all(len(eqs) == 1 and eqs[0] == ("", True) for _, eqs in dots)
            ctx.ob("R2", "%h-dot-iff-no-directory-part", okh, "%%h yields \".\" under the comparisons %s; oracle: exactly when the path's parent() is the empty path (the path has one component)" % [eqs for _, eqs in dots],
                   fn=fd, where=prim.site(fd, tgt), how="constant + dominating guard inside the arm")
        # records come through WalkEntry::metadata of this entry (the `meta` closure)
        meta_cl = [c for c in prog.closures_of(fd)]
        okm = False
        for cf in meta_cl:
            ctx.analysed_fns.add(cf.path)
            ro = prim.origin_of_local(cf, 0).strip()
            if ro.k == "call" and ro.a["callee"] == E + "WalkEntry::metadata":
                okm = True
        ctx.ob("R2", "record-source", okm, "the status record used by the directives must be WalkEntry::metadata() of the entry (follow-mode aware)", fn=fd, how="closure body")
        # %m mask
        if "Permissions" in regions:
            tgt, reg = regions["Permissions"]
            masks = []
            for x in reg:
                for s in fd.blocks[x].stmts:
                    if s.rv is not None and s.rv.k == "bin" and s.rv.j["op"] in ("BitAnd", "Rem"):
                        for o in s.rv.ops:
                            v = o.const_value()
                            if isinstance(v, int):
                                masks.append((s.rv.j["op"], v, x, s))
            ok = len(masks) == 1 and ((masks[0][0] == "BitAnd" and masks[0][1] == 0o7777) or (masks[0][0] == "Rem" and masks[0][1] == 0o10000))
            ctx.ob("R2", "%m-mask", ok, "%%m prints mode & %s; oracle: all twelve permission bits (0o7777: rwx for user/group/other plus setuid, setgid and sticky), the mask -perm uses" % [(m[0], oct(m[1])) for m in masks], fn=fd, where=prim.site(fd, masks[0][2], masks[0][3]) if masks else prim.site(fd, tgt), how="constant operand (sibling agreement with -perm)")
            octal = []
            for x in reg:
                try:
                    fc = fmtlit.format_call_at(fd, x)
                except fmtlit.FmtError:
                    fc = None
                if fc is not None:
                    octal.append((fc.shape(), [a[0] for a in fc.args]))
            ctx.ob("R2", "%m-octal", any(a == ["octal"] for _, a in octal), "%%m is formatted with %s; oracle: octal" % octal, fn=fd, where=prim.site(fd, tgt), how="decoded template")
        # %p == -print
        if "Path" in regions:
            tgt, reg = regions["Path"]
            outs = []
            for x in sorted(reg):
                t = fd.blocks[x].term
                if t.k == "call" and t.j.get("callee_name") == "to_string_lossy":
                    o = prim.origin_of_operand(fd, t.args[0])
                    flag = None
                    for gd in prim.dominating_guards(fd, x):
                        pr = gd["pred"].strip()
                        if gd["bb"] in reg and gd["bool"] is not None and any(y.k == "variant" and str(y.a) == "Path" for y in pr.walk()):
                            flag = gd["bool"]
                    outs.append((flag, o, x))
            plain = [o for fl, o, x in outs if fl is False]
            desc = [(fl, o.fmt()[:200]) for fl, o, x in outs]
            ok = len(plain) == 1 and not c07.non_identity(plain[0]) and [c.a["callee"] for c in plain[0].call_nodes()] == [E + "WalkEntry::path"]
            ctx.ob("R2", "%p=print-value", ok,
                   "%%p must print WalkEntry::path() through identity conversions only, on the branch where the starting point is not stripped — the value -print writes; found (strip flag, value): %s. Path::strip_prefix/components rebuild the path from its components and drop a trailing or repeated separator (`find d/ -maxdepth 0`: -print `d/`, %%p `d`)" % desc,
                   fn=fd, where=prim.site(fd, tgt), how="provenance slice + allow-list (sibling agreement with -print)")
            stripped = [o for fl, o, x in outs if fl is True] or [o for fl, o, x in outs if fl is None]
            ok = bool(stripped) and any(c.a["name"] == "strip_prefix" for c in stripped[0].call_nodes()) and any(c.a["callee"] == P + "get_starting_point" for o in stripped for c in prim.expand_single_def_vars(fd, o).call_nodes())
            ctx.ob("R2", "%P=path-minus-starting-point", ok, "%%P must be the path with the starting point stripped; found %s" % desc, fn=fd, where=prim.site(fd, tgt), how="provenance slice")
        # %y / %Y
        if "Type" in regions:
            tgt, reg = regions["Type"]
            def in_reg(t):
                return _bb_of(fd, t) in reg
            def gdesc(b):
                """guards inside the Type arm dominating block b: list of (what, bool)"""
                out = []
                for gd in prim.dominating_guards(fd, b):
                    if gd["bb"] not in reg or gd["bool"] is None:
                        continue
                    pr = gd["pred"].strip()
                    names = [c.a["name"] for c in pr.call_nodes()]
                    if any(y.k == "variant" and str(y.a) == "Type" for y in pr.walk()) and not names:
                        out.append(("follow_links", gd["bool"]))
                    elif names == ["path_is_symlink"]:
                        out.append(("is_link", gd["bool"]))
                    elif names[:2] == ["is_symlink", "file_type"] and any(c.a["callee"] == E + "WalkEntry::file_type" for c in pr.call_nodes()) and any(x.k == "arg" and x.a["name"] == "file_info" for x in pr.walk()):
                        out.append(("entry_type_is_link", gd["bool"]))
                    elif set(names) <= {"is_not_found", "is_loop", "map_err", "metadata", "path"} and names:
                        out.append(("stat_error:" + names[0], gd["bool"]))
                    else:
                        out.append(("other:" + pr.fmt()[:60], gd["bool"]))
                return sorted(set(out))
            stat = [(b, t) for b, t in fd.calls() if b in reg and (t.callee or "") == "std::path::Path::metadata"]
            ok = len(stat) == 1
            desc = "?"
            if ok:
                gs_ = gdesc(stat[0][0])
                desc = str(gs_)
                po = prim.origin_of_operand(fd, stat[0][1].args[0])
                ok = gs_ == [("follow_links", True), ("is_link", True)] and [c.a["callee"] for c in po.call_nodes()] == [E + "WalkEntry::path"]
            ctx.ob("R2", "%Y-stats-links-only", ok, "the stat() of the path in the type directive runs under %s; oracle: exactly when the directive follows links (%%Y) and the path is a link" % desc, fn=fd, where=prim.site(fd, tgt), how="dominating guards")
            consts = []
            for x in reg:
                for st_ in fd.blocks[x].stmts:
                    if st_.rv is not None and st_.rv.k == "use" and st_.rv.ops[0].kind == "const" and st_.rv.ops[0].const.get("k") == "char":
                        consts.append((st_.rv.ops[0].const_value(), tuple(g_ for g_ in gdesc(x) if not g_[0].startswith("stat_error"))))
            want_l = ("l", (("entry_type_is_link", True),))
            okc = want_l in consts and all((c == "l") == (gs_ == want_l[1]) and (c == "l" or gs_ == (("follow_links", True), ("is_link", True))) for c, gs_ in consts)
            ctx.ob("R2", "%y-link-letter", okc, "type letters written as constants with their conditions: %s; oracle: 'l' exactly when the entry's follow-aware file_type() is a link (what -type l tests), N/L/? only for a failed stat of %%Y" % consts, fn=fd, where=prim.site(fd, tgt), how="constants + dominating guards")
            letters = [(b, t) for b, t in fd.calls() if b in reg and t.callee == P + "format_non_link_file_type"]
            kinds = []
            for b, t in letters:
                ao = prim.origin_of_operand(fd, t.args[0])
                cs = [c.a["callee"] for c in ao.call_nodes()]
                gs_ = tuple(g_ for g_ in gdesc(b) if not g_[0].startswith("stat_error"))
                if cs == [E + "WalkEntry::file_type"] and any(x.k == "arg" and x.a["name"] == "file_info" for x in ao.walk()):
                    kinds.append(("entry", gs_))
                elif "std::path::Path::metadata" in cs and "std::fs::Metadata::file_type" in cs:
                    kinds.append(("stat", gs_))
                else:
                    kinds.append(("other:" + ao.fmt()[:80], gs_))
            ok = sorted(kinds) == sorted([("entry", (("entry_type_is_link", False),)), ("stat", (("follow_links", True), ("is_link", True)))])
            ctx.ob("R2", "%y-non-link=entry-type", ok, "letters computed from a file type, with their conditions: %s; oracle: the entry's follow-aware file_type() (the value -type compares) when it is not a link; the stat()ed type only on %%Y's link branch" % kinds, fn=fd, where=prim.site(fd, tgt), how="provenance slice + dominating guards")
            # %Y against -xtype: -xtype inverts the follow decision (lstat when the walk follows); %Y always stat()s a link
            xm = ctx.prog.fns.get(C.matcher_impl(M + "type_matcher::XtypeMatcher", "matches"))
            x_consults = xm is not None and any(t.callee == E + "WalkEntry::follow" for b, t in xm.calls())
            y_consults = any(t.callee == E + "WalkEntry::follow" for b, t in fd.calls() if b in reg)
            ctx.ob("R2", "%Y-agrees-with-xtype-under-follow", (not x_consults) or y_consults,
                   "-xtype consults WalkEntry::follow() (%s) to take the opposite record from -type; %%Y consults it: %s — under -L (and -H starting points) `-xtype l` is true for a link to a file while %%Y prints the target's letter" % (x_consults, y_consults),
                   fn=fd, where=prim.site(fd, tgt), how="sibling agreement (call sites)")
            # every path through the arm decides through one of the two: the stat branch or the entry-type test
            sym = [b for b, t in fd.calls() if b in reg and t.callee == E + "FileType::is_symlink"]
            ends = [b for b, t in fd.calls() if b in reg and t.j.get("callee_name") == "to_string"]
            ok = bool(sym) and bool(ends) and bool(stat) and prim.must_pass(fd, tgt, ends, [stat[0][0]] + sym)
            ctx.ob("R2", "%y-decided-by-entry-type", ok, "every path through the type directive passes the entry-type test or %%Y's stat (blocks %s / %s before %s)" % (sym, [b for b, _ in stat], ends), fn=fd, where=prim.site(fd, tgt), how="must-pass-through")
        # ---- R5 %H information flow: the starting point as given cannot be recomputed from (entry path, depth) — `d/`+`x`
        # and `d`+`x` are the same path, Path::ancestors drops trailing and repeated separators — so it has to travel from
        # the command line to the entry
        gs = ctx.fn("R5", P + "get_starting_point")
        if gs is not None:
            o = prim.origin_of_local(gs, 0).strip()
            prim_src = None
            if o.k == "call" and o.a["name"] in ("unwrap_or_else", "unwrap_or", "map_or", "map_or_else") and o.kids:
                prim_src = o.kids[0].strip()
            elif o.k == "call":
                prim_src = o
            ok = prim_src is not None and prim_src.k == "call" and prim_src.a["callee"] == E + "WalkEntry::starting_point" and any(x.k == "arg" and x.a["name"] == "file_info" for x in prim_src.walk())
            ctx.ob("R5", "%H-has-the-root-among-its-sources", ok,
                   "the starting point printed by %%H (and stripped by %%P) is %s; oracle: the value the entry carries (WalkEntry::starting_point of this entry), a recomputation from (path, depth) only as the fallback for entries that were not produced by a walk: `find ./d// -printf %%H` must print `./d//`" % o.fmt()[:220],
                   fn=gs, how="provenance slice (information flow)")
        sp = ctx.fn("R5", E + "WalkEntry::starting_point")
        if sp is not None:
            o = prim.origin_of_local(sp, 0)
            flds = [x.a for x in o.walk() if x.k == "field"]
            ctx.ob("R5", "starting_point-returns-the-field", flds == ["starting_point"] and {c.a["name"] for c in o.call_nodes()} <= {"as_deref", "as_ref", "deref", "map"}, "WalkEntry::starting_point returns %s; oracle: the stored starting point" % o.fmt(), fn=sp, how="provenance slice", nontrivial=False)
        ws = prim.field_writes(prog, E + "WalkEntry", "starting_point")
        setters = []
        for f, bb, obj, val, kind in ws:
            v = val.strip() if val is not None else None
            if v is not None and v.k == "agg" and str(v.a).endswith("None"):
                continue
            setters.append((f, v))
        ok = len(setters) == 1 and setters[0][0].path == E + "WalkEntry::with_starting_point"
        if ok:
            v = setters[0][1]
            ok = v is not None and v.k == "agg" and str(v.a).endswith("Some") and any(x.k == "arg" and x.a["name"] == "starting_point" for x in v.walk()) and {c.a["name"] for c in v.call_nodes()} <= {"clone", "deref", "as_ref", "into", "from"}
        ctx.ob("R5", "starting_point-single-writer", ok, "WalkEntry.starting_point is set (other than to None in constructors) by %s; oracle: only with_starting_point, storing its argument unchanged" % [(f.path.split("::")[-1], v.fmt()[:80] if v is not None else "?") for f, v in setters], fn=setters[0][0] if setters else None, how="field writers")
        pd = ctx.fn("R5", C.PROCESS_DIR)
        if pd is not None:
            # every entry obtained from the walker is tagged with the starting point of this walk, spelled as given
            fws = [(b, t) for b, t in pd.calls() if t.callee == E + "WalkEntry::from_walkdir"]
            ctx.floor("R5", "walker results converted in process_dir", len(fws), 1)
            for b, t in fws:
                uses = []
                d = t.dest.local if t.dest is not None and t.dest.is_local() else None
                tagged = False
                desc = "?"
                for b2, t2 in pd.calls():
                    if any(a.place is not None and a.place.is_local() and a.place.local == d for a in t2.args):
                        uses.append(t2)
                if len(uses) == 1 and uses[0].j.get("callee_name") == "map" and (uses[0].callee or "").startswith("std::result::Result"):
                    clo = prim.origin_of_operand(pd, uses[0].args[1]).strip()
                    for cf in prog.closures_of(pd):
                        if clo.k == "agg" and cf.path.split("::")[-1] in str(clo.a):
                            ro = prim.resolve_upvars(prog, cf, prim.origin_of_local(cf, 0)).strip()
                            desc = ro.fmt()[:200]
                            if ro.k == "call" and ro.a["callee"] == E + "WalkEntry::with_starting_point" and len(ro.kids) == 2:
                                ent, val = ro.kids[0].strip(), ro.kids[1]
                                names = {c.a["name"] for c in val.call_nodes()}
                                tagged = ent.k == "arg" and names <= {"from", "new", "into", "as_ref", "deref", "clone"} and any(x.k == "arg" and x.a["name"] == "dir" for x in val.walk()) and not c07.non_identity(val)
                ctx.ob("R5", "every-walked-entry-carries-the-starting-point", tagged,
                       "the result of WalkEntry::from_walkdir in process_dir is passed on as %s; oracle: Result::map(.., |entry| entry.with_starting_point(<the `dir` argument, unchanged>)) before anything else looks at it" % desc,
                       fn=pd, where=prim.site(pd, b), how="def-use + provenance slice through the closure")
    ft = ctx.fn("R2", P + "format_non_link_file_type")
    if ft is not None:
        adtf = prog.adts.get(E + "FileType")
        fnm = {v["idx"]: v["name"] for v in adtf["variants"]} if adtf else {}
        sw = [b for b in ft.reachable() if ft.blocks[b].term.k == "switch"]
        got = {}
        if len(sw) == 1:
            for lab, tgt in prim.switch_edges(ft, sw[0]):
                for s in ft.blocks[tgt].stmts:
                    if s.rv is not None and s.rv.k == "use" and s.rv.ops[0].kind == "const":
                        got[fnm.get(lab, lab) if lab != "else" else "other"] = s.rv.ops[0].const_value()
        want = {"Regular": "f", "Directory": "d", "BlockDevice": "b", "CharDevice": "c", "Fifo": "p", "Socket": "s"}
        ctx.ob("R2", "type-letters", all(got.get(k) == v for k, v in want.items()), "type letter table %s; oracle (agrees with -type) %s" % (got, want), fn=ft, how="variant dispatch table (sibling agreement with -type)")
    # ---- R3 / R4 Printf::print ----------------------------------------------------------------------------------------
    pp = ctx.fn("R3", P + "Printf::print")
    if pp is not None:
        calls = []
        for b, t in pp.calls():
            if t.j.get("callee_name") == "write_fmt":
                try:
                    fc = fmtlit.format_call_of_operand(pp, t.args[1])
                except fmtlit.FmtError as e:
                    fc = None
                recv = prim.origin_of_operand(pp, t.args[0])
                to_out = any(x.k == "arg" and x.a["name"] == "out" for x in recv.walk())
                calls.append((b, fc, to_out))
        outw = [(b, fc) for b, fc, to_out in calls if to_out]
        ctx.floor("R3", "writes to the output in Printf::print", len(outw), 2)
        adtj = prog.adts.get(P + "Justify")
        jn = {v["idx"]: v["name"] for v in adtj["variants"]} if adtj else {}
        adtc = prog.adts.get(P + "FormatComponent")
        cn = {v["idx"]: v["name"] for v in adtc["variants"]} if adtc else {}

        def context(b):
            """(component variant, justify variant, other guards) dominating block b — however the tests are spelled
            (match / if let / matches! / == on the enum)"""
            comp = just = None
            other = []
            used = set()
            for adt, var, holds, subj, gd in prim.variant_facts(pp, b, prog):
                if adt.endswith("printf::FormatComponent") and holds:
                    comp = var
                    used.add(gd["bb"])
                elif adt.endswith("printf::Justify"):
                    if holds:
                        just = var
                    elif len(jn) == 2:
                        just = [v for v in jn.values() if v != var][0]
                    used.add(gd["bb"])
                elif adt.startswith("std::result::Result") and any(c.a["callee"] == P + "format_directive" for c in subj.call_nodes()):
                    used.add(gd["bb"])
                elif adt.startswith("std::option::Option") and any(c.a["name"] == "next" for c in subj.call_nodes()):
                    used.add(gd["bb"])
            for gd in prim.dominating_guards(pp, b):
                if gd["bb"] in used:
                    continue
                if gd["bool"] is not None and gd["pred"].fmt().startswith("phi("):
                    continue        # the bool temporary of a `matches!`, decided by the enum switch above it
                other.append(prim.guards_fmt([gd])[:120])
            return comp, just, other

        seen = {}
        content_bb = None
        for b, fc in outw:
            if fc is None:
                ctx.ob("R3", "template-decodable", False, "a write! in Printf::print has a template that cannot be decoded", fn=pp, where=prim.site(pp, b))
                continue
            comp, just, other = context(b)
            ph = fc.placeholders()
            shape = fc.shape()
            seen[comp] = shape
            plain = fc.literal_text() == "" and len(ph) == 1 and ph[0]["plain"] and fc.args[0][0] == "display"
            if comp == "Literal":
                ctx.ob("R4", "literal-template", plain and not other, "literal text is written with template %r under %s; oracle `{}` (verbatim, nothing appended)" % (shape, other), fn=pp, where=prim.site(pp, b), how="decoded template")
            elif comp == "Directive":
                content_bb = b
                src = fc.args[0][1]
                from_value = src is not None and any(c.a["callee"] == P + "format_directive" for c in prim.expand_single_def_vars(pp, src).call_nodes())
                neutral = [x for x in other if not ("write_padding" in x or "write_fmt" in x or "Write::" in x)]      # `?` after an earlier output call
                ctx.ob("R3", "value-template", plain and not neutral and from_value,
                       "the directive's value is written with template %r (value %s) under justify=%s, other conditions %s; oracle: `{}` of format_directive's Ok value — no precision, so never truncated — on every path (padding is separate)" % (shape, src.fmt()[:120] if src is not None else "?", just, other),
                       fn=pp, where=prim.site(pp, b), how="decoded template + dominating guards")
            else:
                ctx.ob("R3", "unclassified-write", False, "a write to the output in Printf::print is not under a Literal/Directive component arm (component=%s): cannot decide" % comp, fn=pp, where=prim.site(pp, b))
        # a raw byte (octal escape above 0177) is written as that one byte
        for b, t in pp.calls():
            if t.j.get("callee_name") == "write_all":
                comp_b = [var for adt_, var, holds, subj, gd in prim.variant_facts(pp, b, prog) if adt_.endswith("printf::FormatComponent") and holds]
                vo = prim.origin_of_operand(pp, t.args[1])
                okb = comp_b == ["Byte"] and any(x.k == "variant" and str(x.a) == "Byte" for x in vo.walk()) and not [c for c in vo.call_nodes() if c.a["name"] not in ("deref", "as_ref", "as_slice", "next", "into_iter", "iter")]
                recv = prim.origin_of_operand(pp, t.args[0])
                okb = okb and any(x.k == "arg" and x.a["name"] == "out" for x in recv.walk())
                seen["Byte"] = "write_all([byte])"
                ctx.ob("R4", "byte-written-verbatim", okb, "under component %s the output receives write_all(%s); oracle: the Byte component's own byte, nothing else" % (comp_b, vo.fmt()[:120]), fn=pp, where=prim.site(pp, b), how="dominating guards + provenance slice")
        need = ["Literal", "Directive"] + (["Byte"] if any(v["name"] == "Byte" for v in (adtc or {}).get("variants", [])) else [])
        miss = [k for k in need if k not in seen]
        ctx.ob("R3", "all-cases-written", not miss, "component kinds with a write: %s; missing %s" % (sorted(seen, key=str), miss), fn=pp, how="dominating guards")
    # the minimum width is bounded when the format is parsed: a width near 2^64 would pad (almost) forever
    pw = ctx.fn("R3", FSP + "parse_format_width")
    if pw is not None:
        bounded = False
        for b in pw.reachable():
            for st in pw.blocks[b].stmts:
                if st.rv is not None and st.rv.k == "agg" and st.rv.j.get("adt") == "std::result::Result" and st.rv.j.get("variant") == "Err":
                    for at in prim.norm_guards(prim.dominating_guards(pw, b)):
                        for x, y, rel in ((at["a"], at["b"], at["rel"]), (at["b"], at["a"], prim._SWAP[at["rel"]])):
                            ys = y.strip()
                            if rel in ("gt", "ge") and ys.k == "const" and isinstance(ys.a.get("v"), int) and ys.a["v"] <= (1 << 31) and any(c.a["name"] == "parse" for c in prim.expand_single_def_vars(pw, x).call_nodes()):
                                bounded = True
        ctx.ob("R3", "width-bounded", bounded, "parse_format_width rejects a parsed width above a constant <= 2^31 (printf(3)'s int): %s; without a bound `%%18446744073709551615p` pads for ever" % bounded, fn=pw, how="dominating guards (normal form)")
        # padding: blanks before the value when right-justified, after it when left-justified, the same amount both ways
        pads = [(b, t) for b, t in pp.calls() if (t.callee or "").split("::<")[0] == P + "write_padding"]
        ctx.floor("R3", "padding writes in Printf::print", len(pads), 2)
        # amount: 0 without a width, otherwise width.saturating_sub(number of characters of the value) — however spelled
        def _amount_ok(fn_, o_):
            o_ = prim.expand_single_def_vars(fn_, o_).strip()
            if o_.k == "call" and o_.a["name"] == "map_or" and len(o_.kids) == 3:
                w, zero, clo = [k.strip() for k in o_.kids]
                cf_ = prog.fns.get(str(clo.a).split(":", 1)[1]) if clo.k == "agg" and str(clo.a).startswith("closure:") else None
                if cf_ is None or not (zero.k == "const" and zero.a.get("v") == 0 and any(x.k == "field" and str(x.a) == "width" for x in w.walk())):
                    return False, o_.fmt()[:120]
                r_ = prim.simplify(prim.resolve_upvars(prog, cf_, prim.expand_single_def_vars(cf_, prim.origin_of_local(cf_, 0)))).strip()
                alts_ = [r_]
            else:
                if o_.k == "var" and o_.a.get("local") is not None:
                    alts_ = [prim.expand_single_def_vars(fn_, od_).strip() for _, od_ in prim.defs_origins(fn_, o_.a["local"])]
                else:
                    alts_ = [a_.strip() for a_ in prim.flatten_phi(o_)]
                zeros = [a_ for a_ in alts_ if a_.k == "const" and a_.a.get("v") == 0]
                alts_ = [a_ for a_ in alts_ if a_ not in zeros]
                if len(zeros) != 1 or len(alts_) != 1:
                    return False, o_.fmt()[:120]
            r_ = alts_[0]
            if not (r_.k == "call" and r_.a["name"] == "saturating_sub" and len(r_.kids) == 2):
                return False, r_.fmt()[:120]
            a_, b_ = [k.strip() for k in r_.kids]
            wside = a_.k == "arg" or any(x.k == "field" and str(x.a) == "width" for x in a_.walk()) or (a_.k == "variant" and str(a_.a) == "Some") or any(x.k == "variant" and str(x.a) == "Some" for x in a_.walk())
            cside = [cn_.a["name"] for cn_ in b_.call_nodes()][:2] == ["count", "chars"] and not any(x.k == "bin" for x in b_.walk())
            return wside and cside, r_.fmt()[:160]
        for b, t in pads:
            comp, just, other = context(b)
            recv = prim.origin_of_operand(pp, t.args[0])
            okamt, desc_amt = _amount_ok(pp, prim.origin_of_operand(pp, t.args[1]))
            ctx.ob("R3", "padding-amount@%s" % (just or "any"), comp == "Directive" and okamt and any(x.k == "arg" and x.a["name"] == "out" for x in recv.walk()),
                   "write_padding(%s, %s) under component %s; oracle: to the output, amount = 0 without a width, else width.saturating_sub(number of characters of the value) — a plain subtraction underflows when the value is longer than the width" % (recv.fmt()[:40], desc_amt, comp),
                   fn=pp, where=prim.site(pp, b), how="provenance slice (alternatives)")
        # order: blanks before the value when right-justified (the default), after it with '-': simulated per justification
        def jrole(t):
            n = t.j.get("callee_name")
            if t.callee == P + "format_directive":
                return "fd"
            if (t.callee or "").split("::<")[0] == P + "write_padding":
                return "pad"
            if n == "write_fmt" and any(x.k == "arg" and x.a["name"] == "out" for x in prim.origin_of_operand(pp, t.args[0]).walk()):
                try:
                    fc_ = fmtlit.format_call_of_operand(pp, t.args[1])
                except fmtlit.FmtError:
                    fc_ = None
                if fc_ is not None and fc_.args and fc_.args[0][1] is not None and any(cn_.a["callee"] == P + "format_directive" for cn_ in prim.expand_single_def_vars(pp, fc_.args[0][1]).call_nodes()):
                    return "value"
                return "lit"
            if n == "next" and "Iterator" in (t.j.get("callee_inst") or ""):
                return "next"
            if n in ("eq", "ne") and "printf::Justify" in (t.j.get("callee_inst") or ""):
                # `*justify == Justify::Right`: the comparison of the derived PartialEq instead of a match
                vs_ = [str(x.a).split("::")[-1] for a_ in t.args for x in prim.resolve_promoted(pp, prim.origin_of_operand(pp, a_)).walk() if x.k == "agg" and "printf::Justify::" in str(x.a)]
                if len(vs_) == 1:
                    return "j%s:%s" % (n, vs_[0])
            return None
        def jbrole(f_, bb_, o_):
            o_ = o_.strip()
            if o_.k == "discr" and (prim.discr_type_of_switch(f_, bb_) or "").endswith("printf::Justify"):
                return "just"
            return None
        try:
            jg = C.G(prim.event_graph(pp, jrole, branch_role=jbrole, history=True))
        except RuntimeError as e:
            jg = None
            ctx.ob("R3", "padding-order", False, "cannot decide: %s" % e, fn=pp)
        if jg is not None:
            seqs = {}
            fds = jg.nodes("fd")
            for jname, jidx in sorted((v, k) for k, v in jn.items()):
                seq = None
                if len(fds) == 1:
                    cur = None
                    nxt0 = jg.succ(fds[0], "0")
                    cur = nxt0[0] if len(set(nxt0)) == 1 else None
                    seq = []
                    for _ in range(40):
                        if cur is None:
                            seq = None
                            break
                        r_ = C.base(cur)
                        if r_ in ("next",) or cur.startswith("RET("):
                            break
                        if r_ in ("pad", "value", "lit"):
                            seq.append(r_)
                            outs = jg.succ(cur, "0") or jg.succ(cur)
                        elif r_ == "just":
                            outs = jg.succ(cur, str(jidx))
                            if not outs:
                                outs = jg.succ(cur, "else")
                        elif r_.startswith(("jeq:", "jne:")):
                            truth = (r_[4:] == jname) == r_.startswith("jeq:")
                            outs = jg.succ(cur, "else") if truth else jg.succ(cur, "0")
                        else:
                            outs = jg.succ(cur)
                        outs = sorted(set(outs))
                        cur = outs[0] if len(outs) == 1 else None
                seqs[jname] = seq
            want = {"Right": ["pad", "value"], "Left": ["value", "pad"]}
            ctx.ob("R3", "padding-order", all(seqs.get(k) == v for k, v in want.items()) and set(seqs) == set(want),
                   "after a directive has been evaluated the output receives %s; oracle: Right (the default) blanks then the value, Left ('-') the value then blanks — the value exactly once on either side, an empty value still padded" % seqs,
                   fn=pp, how="event graph with history, simulated per justification")
        wp = ctx.fn("R3", P + "write_padding")
        if wp is not None:
            cps = [(b, t) for b, t in wp.calls() if (t.callee or "").startswith("std::io::copy")]
            ok = len(cps) == 1
            desc = "?"
            if ok:
                src = prim.origin_of_operand(wp, cps[0][1].args[0])
                dst = prim.origin_of_operand(wp, cps[0][1].args[1])
                desc = "copy(%s, %s)" % (src.fmt()[:160], dst.fmt()[:40])
                names = [c.a["name"] for c in src.call_nodes()]
                tk = [c for c in src.call_nodes() if c.a["name"] == "take"]
                rp = [c for c in src.call_nodes() if c.a["name"] == "repeat"]
                ok = len(tk) == 1 and len(rp) == 1 and set(names) <= {"take", "repeat"}
                if ok:
                    n = tk[0].kids[1].strip()
                    byte = rp[0].kids[0].strip()
                    ok = byte.k == "const" and byte.a.get("v") == 32 and any(x.k == "arg" and x.a["name"] == "count" for x in n.walk()) and not any(x.k == "bin" for x in n.walk())
                    ok = ok and any(x.k == "arg" and x.a["name"] == "out" for x in dst.walk())
                # the copy's failure is the function's failure
                ro = prim.origin_of_local(wp, 0)
                ok = ok and any(c.a["name"] == "copy" for c in ro.call_nodes())
            ctx.ob("R3", "padding-is-blanks", ok, "write_padding = %s; oracle: exactly `count` bytes 0x20 copied to the output, its error returned" % desc, fn=wp, how="provenance slice")
        for b, t in pp.calls():
            if t.callee == P + "format_directive":
                a0 = prim.origin_of_operand(pp, t.args[0]).strip()
                ctx.ob("R3", "evaluates-this-entry", a0.k == "arg", "format_directive(%s, ..)" % a0.fmt(), fn=pp, where=prim.site(pp, b), how="provenance slice", nontrivial=False)
    # components in order
    ps = ctx.fn("R4", FSP + "parse")
    if ps is not None:
        pushes = [(b, t) for b, t in ps.calls() if t.j.get("callee_name") == "push" and "Vec" in (t.j.get("callee_inst") or "")]
        others = [t.j.get("callee_name") for b, t in ps.calls() if "Vec" in (t.j.get("callee_inst") or "") and t.j.get("callee_name") in ("insert", "remove", "swap", "reverse", "sort", "dedup", "pop", "truncate", "retain", "drain")]
        ctx.ob("R4", "components-appended-in-order", len(pushes) >= 3 and not others, "the component list is built with %d push sites and %s other mutations; oracle: append only (format text is rendered left to right)" % (len(pushes), others), fn=ps, how="call sites")
        # the literal pieces are the text between specials, and the tail
        lit_ok = 0
        for b in ps.reachable():
            for s in ps.blocks[b].stmts:
                if s.rv is not None and s.rv.k == "agg" and s.rv.j.get("adt") == P + "FormatComponent" and s.rv.j.get("variant") == "Literal":
                    o = prim.expand_single_def_vars(ps, prim.origin_of_operand(ps, s.rv.ops[0]))
                    names = {c.a["name"] for c in o.call_nodes()}
                    if names <= {"to_owned", "to_string", "advance_by", "unwrap", "into", "from", "find"} and ("advance_by" in names or any(x.k == "field" and x.a == "string" for x in o.walk())):
                        lit_ok += 1
                    else:
                        ctx.ob("R4", "literal-text-verbatim", False, "a literal component is built from %s; must be the format text itself, unchanged" % o.fmt()[:200], fn=ps, where=prim.site(ps, b, s))
        ctx.ob("R4", "literal-text-verbatim", lit_ok == 2, "literal components copied verbatim from the format text: %d sites (text before a special character, and the tail)" % lit_ok, fn=ps, how="provenance slice")
    pm = ctx.fn("R3", C.matcher_impl(P + "Printf", "matches"))
    if pm is not None:
        g = C.G(prim.event_graph(pm, lambda t: "print" if (t.callee or "").startswith(P + "Printf::print") else None))
        pn = g.nodes("print")
        ok = bool(pn) and all(C.base(x) == "print" for x in g.succ("ENTRY")) and all(x == "RET(const:True)" for n in pn for x in g.succ(n))
        ctx.ob("R3", "matches-prints-once-and-is-true", ok, "Printf::matches must print exactly once per entry and be true; events: %s" % g.fmt(), fn=pm, how="event graph")


def _bb_of(fn, term):
    for b in fn.blocks:
        if b.term is term:
            return b.idx
    return 0


def _discr_place(fn, bb):
    t = fn.blocks[bb].term
    l = t.discr.place.local if t.discr.place is not None else None
    for s in reversed(fn.blocks[bb].stmts):
        if s.lhs is not None and s.lhs.is_local() and s.lhs.local == l and s.rv is not None and s.rv.k == "discr":
            return s.rv.place
    return t.discr.place
