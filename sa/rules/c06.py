"""C06 — xargs never builds a command line the operating system rejects."""
from .. import prim
from . import common as C
from . import shared

X = C.X
META = {
    "explanation": "R1 must-pass: every path of do_xargs to the construction of the command template installs the system size limiter, whatever -s/-n/-L are, and the environment it budgets is the environment the child receives (env_clear + envs of the same map); "
                   "R2 budget provenance: limit = sysconf(_SC_ARG_MAX) - headroom(>= 2048) - sum over the environment of cost(name)+cost(value); the per-string cost is bytes+1 (shared cost-model rule); "
                   "R3 contract K1: the charge used by the *system* limiter carries a pointer-width term per string (execve charges strlen+1+sizeof(char*)); "
                   "R4 contract K1: some comparison of one argument's size with a MAX_ARG_STRLEN-class bound guards acceptance; "
                   "R5 an argument refused by a fresh batch is reported as ArgumentTooLarge -> exit status 1 without reaching exec (process_input decision graph and exit table, clauses shared with C04/C19)",
    "decides": "that the system budget is always in force, what it is computed from, which cost each argument and environment string is charged, and that an oversized single argument ends in exit status 1 before any exec",
    "does_not_decide": "the kernel's actual budget under a given RLIMIT_STACK (sysconf's value is trusted), the arithmetic for concrete lengths",
    "assumptions": ["Linux execve accounting as in fs/exec.c: strlen+1 per string plus one pointer per string, single string <= MAX_ARG_STRLEN (32 pages)"],
}

SYS = X + "MaxCharsCommandSizeLimiter::new_system"
MAXCHARS = X + "MaxCharsCommandSizeLimiter"
SC_ARG_MAX = 0          # libc::_SC_ARG_MAX on linux
MAX_ARG_STRLEN = 131072


def _core_bin(o):
    """strip the `.0` of a checked arithmetic tuple"""
    o = o.strip()
    if o.k == "field" and o.kids and o.kids[0].strip().k == "bin":
        return o.kids[0].strip()
    return o


def _sub_terms(o):
    """minuend and list of subtrahends of a chain of subtractions"""
    o = _core_bin(o)
    subs = []
    while (o.k == "bin" and o.a in ("Sub", "SubWithOverflow")) or (o.k == "call" and o.a["name"] in ("saturating_sub", "checked_sub") and len(o.kids) == 2):
        subs.append(o.kids[1])
        o = _core_bin(o.kids[0])
    return o, subs


def _closure_fns(prog, o):
    out = []
    for x in o.walk():
        if x.k == "agg" and str(x.a).startswith("closure:"):
            f = prog.fns.get(str(x.a)[len("closure:"):])
            if f is not None:
                out.append(f)
    return out


def run(ctx):
    prog = ctx.prog
    dx = ctx.fn("R1", X + "do_xargs")
    # ---- R1 the system limiter is always installed -------------------------------------------------
    if dx is not None:
        adds = [(b, t) for b, t in dx.calls() if (t.callee or "").startswith(X + "LimiterCollection::add")]
        sys_adds = []
        for b, t in adds:
            o = prim.origin_of_operand(dx, t.args[1])
            if any(c == SYS for c in o.callees()):
                sys_adds.append((b, t, o))
        ctx.floor("R1", "LimiterCollection::add call sites in do_xargs", len(adds), 4)
        tmpl = [(b, t) for b, t in dx.calls() if t.callee == X + "CommandBuilderOptions::new"]
        ctx.ob("R1", "template-site", len(tmpl) == 1, "do_xargs builds the command template at %d site(s); exactly one expected" % len(tmpl), fn=dx, nontrivial=False)
        if tmpl:
            tb, tt = tmpl[0]
            ok = bool(sys_adds) and prim.must_pass(dx, 0, [tb], [b for b, _, _ in sys_adds])
            wit = None if ok else prim.path_avoiding(dx, 0, [tb], [b for b, _, _ in sys_adds])
            ctx.ob("R1", "system-limiter-on-every-path", ok,
                   "every path of do_xargs to CommandBuilderOptions::new must install the limiter built by new_system (the OS budget holds whatever -s/-n/-L say; a user -s larger than the budget must not replace it)%s" % (
                       "" if ok else "; path avoiding it: %s" % ["bb%d(%s)" % (x, prim.site(dx, x)) for x in (wit or [])][-8:]),
                   fn=dx, where=prim.site(dx, tb), how="must-pass on the CFG")
            # the collection receiving the system limiter is the one handed to the template
            lo = prim.origin_of_operand(dx, tt.args[2]).strip()
            same = False
            for b, t, o in sys_adds:
                ro = prim.origin_of_operand(dx, t.args[0]).strip()
                if ro.k == "var" and lo.k == "var" and ro.a.get("local") == lo.a.get("local"):
                    same = True
            ctx.ob("R1", "same-collection", same, "the limiter collection given to the template is %s; the system limiter must have been added to that collection" % lo.fmt(), fn=dx, where=prim.site(dx, tb), how="provenance slice")
            # env budgeted == env passed to the child
            env_l = prim.user_local_behind(dx, tt.args[1])
            env_ok = False
            for b, t, o in sys_adds:
                for c in o.call_nodes():
                    if c.a["callee"] == SYS:
                        al = prim.user_local_behind(dx, c.a["term"].args[0])
                        if al is not None and al == env_l:
                            env_ok = True
            ctx.ob("R1", "budgeted-env-is-child-env", env_ok, "new_system must be given the same environment map that the template passes to the child (template env: %s)" % (dx.local_name(env_l) if env_l is not None else "?"), fn=dx, where=prim.site(dx, tb), how="provenance slice")
            if env_l is not None:
                defs = [d for d in prim.local_defs(dx).get(env_l, []) if d[1] != "partial"]
                src = prim._origin_of_def(dx, defs[0], 8, {env_l}) if len(defs) == 1 else None
                ctx.ob("R1", "env-source", src is not None and any(c.startswith("std::env::vars_os") for c in src.callees()), "the environment map is %s; must be the process environment (vars_os) collected once" % (src.fmt() if src else "multiply defined"), fn=dx, how="provenance slice")
        # the system limiter is the last one added: a refusal by it is out_of_chars whatever the others say is not required;
        # but nothing may remove limiters afterwards
        for b, t in dx.calls():
            n = t.j.get("callee_name")
            if n in ("clear", "pop", "truncate", "remove", "retain", "drain") and "LimiterCollection" in (t.j.get("callee_inst") or ""):
                ctx.ob("R1", "no-limiter-removal", False, "do_xargs removes limiters (%s)" % n, fn=dx, where=prim.site(dx, b))
    ex = prog.fns.get(X + "CommandBuilder::<'_>::execute")
    if ex is None:
        ctx.missing("R1", "CommandBuilder::execute")
    else:
        ctx.analysed_fns.add(ex.path)
        # every spawn path clears the inherited environment and installs options.env
        stat = [(b, t) for b, t in ex.calls() if t.j.get("callee_name") in ("status", "spawn", "output") and "process::Command" in (t.j.get("callee_inst") or "")]
        clears = [b for b, t in ex.calls() if t.j.get("callee_name") == "env_clear"]
        envs = []
        for b, t in ex.calls():
            if t.j.get("callee_name") == "envs" and "process::Command" in (t.j.get("callee_inst") or ""):
                o = prim.origin_of_operand(ex, t.args[1])
                if any(x.k == "field" and x.a == "env" for x in o.walk()):
                    envs.append(b)
        for b, t in stat:
            ok = bool(clears) and bool(envs) and prim.must_pass(ex, 0, [b], clears) and prim.must_pass(ex, 0, [b], envs)
            ctx.ob("R1", "child-env-is-budgeted-env", ok, "every path to Command::%s must pass env_clear() and envs(options.env): the child's environment is exactly the one the budget was computed from" % t.j.get("callee_name"), fn=ex, where=prim.site(ex, b), how="must-pass on the CFG")
        ctx.floor("R1", "spawn sites in execute", len(stat), 1)

    # ---- R2 budget expression -----------------------------------------------------------------------
    ns = ctx.fn("R2", SYS)
    if ns is not None:
        news = [(b, t) for b, t in ns.calls() if t.callee == MAXCHARS + "::new"] or [(b, t) for b, t in ns.calls() if (t.callee or "").startswith(MAXCHARS + "::")]
        aggs = []
        if not news:
            for b in ns.reachable():
                for s in ns.blocks[b].stmts:
                    if s.rv is not None and s.rv.k == "agg" and s.rv.j.get("adt") == MAXCHARS:
                        aggs.append((b, s))
        lim = None
        if news:
            lim = prim.origin_of_operand(ns, news[0][1].args[0])
        elif aggs:
            names = aggs[0][1].rv.j["fields"]
            lim = prim.origin_of_operand(ns, aggs[0][1].rv.ops[names.index("max_chars")])
        if lim is None:
            ctx.missing("R2", "limit value constructed in new_system")
        else:
            base, subs = _sub_terms(lim)
            sc = [c for c in base.call_nodes() if c.a["callee"].endswith("sysconf")]
            arg0 = sc[0].kids[0].strip() if sc else None
            ctx.ob("R2", "budget-from-ARG_MAX", bool(sc) and arg0.k == "const" and arg0.a.get("v") == SC_ARG_MAX,
                   "the system limit starts from %s; must be sysconf(_SC_ARG_MAX)" % base.fmt(), fn=ns, how="provenance slice")
            # the kernel caps the budget at 3/4 of _STK_LIM (6 MiB) however large RLIMIT_STACK is, while sysconf(_SC_ARG_MAX)
            # is RLIMIT_STACK/4 without a cap: the value must be clamped by a constant <= 6 MiB somewhere on the way
            capped = False
            for c in lim.call_nodes():
                if c.a["name"] in ("min", "clamp"):
                    for k in c.kids:
                        kk = k.strip()
                        if kk.k == "const" and isinstance(kk.a.get("v"), int) and 0 < kk.a["v"] <= 6 * 1024 * 1024:
                            capped = True
            for b in ns.reachable():
                if ns.blocks[b].term.k == "switch":
                    pr = prim.switch_pred(ns, b).strip()
                    if pr.k == "bin" and pr.a in ("Gt", "Ge", "Lt", "Le") and any(isinstance(c.get("v"), int) and 131072 <= c["v"] <= 6 * 1024 * 1024 for c in pr.consts()) and any(x.endswith("sysconf") for x in pr.callees()):
                        capped = True
            ctx.ob("R2", "kernel-cap", capped,
                   "the budget %s is not clamped by a constant <= 6 MiB: the kernel caps argv+envp at 3/4 of _STK_LIM (6 MiB) whatever RLIMIT_STACK is, but sysconf(_SC_ARG_MAX) = RLIMIT_STACK/4 grows without bound (ulimit -s unlimited)" % lim.fmt(), fn=ns, how="provenance slice / guards of new_system")
            consts = [s.strip().a.get("v") for s in subs if s.strip().k == "const"]
            ctx.ob("R2", "headroom", any(isinstance(v, int) and v >= 2048 for v in consts), "constant headroom subtracted: %s; POSIX asks for at least 2048 bytes" % consts, fn=ns, how="constant operand")
            envsub = [s for s in subs if s.strip().k != "const"]
            ok_env = False
            detail = "no environment term"
            for s in envsub:
                cl = _closure_fns(prog, s)
                names = [c.a.get("name") for c in s.call_nodes()]
                it_env = any(x.k == "arg" for x in s.walk())
                for cf in cl:
                    ctx.analysed_fns.add(cf.path)
                    ro = prim.origin_of_local(cf, 0)
                    core = _core_bin(ro)
                    costs = [c for c in ro.call_nodes() if c.a["callee"] == X + "count_osstr_chars_for_exec"]
                    subjects = set()
                    for c in costs:
                        fl = [x.a for x in c.kids[0].walk() if x.k == "field"]
                        subjects.update(fl)
                    adds = core.k == "bin" and core.a in ("Add", "AddWithOverflow")
                    detail = "per-entry cost %s" % ro.fmt()
                    if adds and {"0", "1"} <= subjects and "sum" in names and it_env:
                        ok_env = True
            ctx.ob("R2", "environment-charged", ok_env, "the environment must be charged as the sum over all entries of cost(name) + cost(value) (each is a NUL-terminated part of one envp string: name=value\\0 = len+1+len'+1-1; charging both +1 is the conservative side); found %s" % detail, fn=ns, how="provenance slice through the closure")
    shared.cost_model(ctx, "R2")

    # ---- R3 pointer term in the system limiter's charge (K1) -----------------------------------------
    ta = None
    for f in prog.trait_method_impls(X + "CommandSizeLimiter", "try_arg"):
        if f.impl_self == MAXCHARS:
            ta = f
    if ta is None:
        ctx.missing("R3", "MaxCharsCommandSizeLimiter::try_arg")
    else:
        ctx.analysed_fns.add(ta.path)
        ptr_term = _has_pointer_term(prog, ta, ns)
        ctx.ob("R3", "pointer-term", ptr_term,
               "the system limiter charges each argument %s; execve additionally charges one pointer (8 bytes) per argv/envp string against the same budget, so many short arguments overflow it (contract K1)" % _cost_desc(ta),
               fn=ta, how="provenance slice of the compared cost")
        # ---- R4 per-argument bound -----------------------------------------------------------------------
        found = []
        cands = [ta] + [f for f in prog.trait_method_impls(X + "CommandSizeLimiter", "try_arg") if f is not ta]
        for nm in ("CommandBuilder::<'_>::add_arg", "process_input", "LimiterCollection::try_arg"):
            f = prog.fns.get(X + nm)
            if f is not None:
                cands.append(f)
        for f in cands:
            for b in f.reachable():
                t = f.blocks[b].term
                if t.k != "switch":
                    continue
                pr = prim.switch_pred(f, b).strip()
                if pr.k != "bin" or pr.a not in ("Gt", "Ge", "Lt", "Le"):
                    continue
                sides = [k.strip() for k in pr.kids]
                for i in (0, 1):
                    me, other = sides[i], sides[1 - i]
                    single = any(c.endswith("count_osstr_chars_for_exec") or c.split("::")[-1] == "len" for c in me.callees()) and not any(x.k == "field" and x.a in ("current_size",) for x in me.walk())
                    bound = (other.k == "const" and isinstance(other.a.get("v"), int) and 4096 <= other.a["v"] <= MAX_ARG_STRLEN) or any(c.endswith("sysconf") for c in other.callees()) or (other.k == "field" and "arg" in str(other.a) and "max" in str(other.a))
                    if single and bound:
                        found.append((f, b))
        ctx.ob("R4", "per-argument-bound", bool(found),
               "no comparison of a single argument's size with a MAX_ARG_STRLEN-class bound (<= 131072) guards acceptance: one argument longer than 128 KiB but below the total budget is handed to exec and rejected with E2BIG instead of being reported with exit status 1 (contract K1)",
               fn=ta, how="search over the guards of the limiter chain (%d functions)" % len(cands))

    # ---- R5 oversized single argument -> ArgumentTooLarge -> exit 1 -----------------------------------
    C.import_rules(ctx, "C04", ["R5"], "R5")
    C.import_rules(ctx, "C19", ["R1"], "R5")


def _cost_desc(ta):
    for b in ta.reachable():
        t = ta.blocks[b].term
        if t.k == "switch":
            pr = prim.switch_pred(ta, b).strip()
            if pr.k == "bin" and pr.a in ("Le", "Lt", "Gt", "Ge"):
                return pr.fmt()
    return "?"


def _has_pointer_term(prog, ta, ns):
    """the cost compared in try_arg, or a per-argument overhead field initialised in new_system, derives from a
    pointer size: size_of::<*const _>/<usize>/<&_> or align/ pointer-width constant 8 added to the byte count"""
    def ptr_in(o, fn):
        for c in o.call_nodes():
            if c.a["name"] in ("size_of", "size_of_val", "align_of"):
                return True
        return False
    for b in ta.reachable():
        t = ta.blocks[b].term
        if t.k != "switch":
            continue
        pr = prim.switch_pred(ta, b).strip()
        if pr.k == "bin" and pr.a in ("Le", "Lt", "Gt", "Ge"):
            if ptr_in(pr, ta):
                return True
            # a self field other than the counter/bound participating in the cost
            extra = [x.a for x in pr.walk() if x.k == "field" and x.a not in ("current_size", "max_chars", "0", "1", "arg")]
            for fld in extra:
                for f, bb, obj, val, kind in prim.field_writes(prog, MAXCHARS, fld):
                    if f.path == SYS and val is not None:
                        v = val.strip()
                        if ptr_in(val, f) or (v.k == "const" and v.a.get("v") == 8):
                            return True
            # literal pointer width added to the byte cost
            core = pr
            for x in core.walk():
                if x.k == "bin" and x.a in ("Add", "AddWithOverflow"):
                    ks = [k.strip() for k in x.kids]
                    if any(k.k == "const" and k.a.get("v") == 8 for k in ks) and any(c.endswith("count_osstr_chars_for_exec") for k in ks for c in k.callees()):
                        return True
    return False
