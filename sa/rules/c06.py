"""C06 — xargs never builds a command line the operating system rejects."""
from .. import prim
from . import common as C
from . import shared

X = C.X
META = {
    "explanation": "R1 must-pass: every path of do_xargs to the construction of the command template installs the system size limiter, whatever -s/-n/-L are, and the environment it budgets is the environment the child receives (env_clear + envs of the same map); "
                   "R2 budget provenance: limit = sysconf(_SC_ARG_MAX) - headroom(>= 2048) - sum over the environment of cost(name)+cost(value); the per-string cost is bytes+1 (shared cost-model rule); "
                   "R3 contract K1: the charge used by the *system* limiter carries a pointer-width term per string (execve charges strlen+1+sizeof(char*)); "
                   "R4 contract K1: some comparison of one argument's size with a MAX_ARG_STRLEN-class bound guards acceptance; "
                   "R3 also: the limiter accounting and what is charged (C04.R1, R2, R4, imported); R5 an argument refused by a fresh batch is reported as ArgumentTooLarge -> exit status 1 without reaching exec (process_input decision graph and exit table, clauses shared with C04/C19)",
    "decides": "that the system budget is always in force, what it is computed from, which cost each argument and environment string is charged, and that an oversized single argument ends in exit status 1 before any exec",
    "does_not_decide": "the kernel's actual budget under a given RLIMIT_STACK (sysconf's value is trusted), the arithmetic for concrete lengths",
    "assumptions": ["Linux execve accounting as in fs/exec.c: strlen+1 per string plus one pointer per string, single string <= MAX_ARG_STRLEN (32 pages)"],
}

SYS = X + "MaxCharsCommandSizeLimiter::new_system"
MAXCHARS = X + "MaxCharsCommandSizeLimiter"
SC_ARG_MAX = 0          # libc::_SC_ARG_MAX on linux
SC_PAGESIZE = 30        # libc::_SC_PAGESIZE on linux
PTR = 8                 # pointer width of the analysed target (x86_64)
MAX_ARG_STRLEN = 131072


def _core_bin(o):
    """strip the `.0` of a checked arithmetic tuple"""
    o = o.strip()
    if o.k == "field" and o.kids and o.kids[0].strip().k == "bin":
        return o.kids[0].strip()
    return o


def _sub_terms(o):
    """minuend and list of subtrahends of a chain of subtractions"""
    o = _core_bin(o)
    subs = []
    while (o.k == "bin" and o.a in ("Sub", "SubWithOverflow")) or (o.k == "call" and o.a["name"] in ("saturating_sub", "checked_sub") and len(o.kids) == 2):
        subs.append(o.kids[1])
        o = _core_bin(o.kids[0])
    return o, subs


def _closure_fns(prog, o):
    out = []
    for x in o.walk():
        if x.k == "agg" and str(x.a).startswith("closure:"):
            f = prog.fns.get(str(x.a)[len("closure:"):])
            if f is not None:
                out.append(f)
    return out


def run(ctx):
    prog = ctx.prog
    dx = ctx.fn("R1", X + "do_xargs")
    # ---- R1 the system limiter is always installed -------------------------------------------------
    if dx is not None:
        adds = [(b, t) for b, t in dx.calls() if (t.callee or "").startswith(X + "LimiterCollection::add")]
        sys_adds = []
        for b, t in adds:
            o = prim.origin_of_operand(dx, t.args[1])
            if any(c == SYS for c in o.callees()):
                sys_adds.append((b, t, o))
        ctx.floor("R1", "LimiterCollection::add call sites in do_xargs", len(adds), 4)
        tmpl = [(b, t) for b, t in dx.calls() if t.callee == X + "CommandBuilderOptions::new"]
        ctx.ob("R1", "template-site", len(tmpl) == 1, "do_xargs builds the command template at %d site(s); exactly one expected" % len(tmpl), fn=dx, nontrivial=False)
        if tmpl:
            tb, tt = tmpl[0]
            ok = bool(sys_adds) and prim.must_pass(dx, 0, [tb], [b for b, _, _ in sys_adds])
            wit = None if ok else prim.path_avoiding(dx, 0, [tb], [b for b, _, _ in sys_adds])
            ctx.ob("R1", "system-limiter-on-every-path", ok,
                   "every path of do_xargs to CommandBuilderOptions::new must install the limiter built by new_system (the OS budget holds whatever -s/-n/-L say; a user -s larger than the budget must not replace it)%s" % (
                       "" if ok else "; path avoiding it: %s" % ["bb%d(%s)" % (x, prim.site(dx, x)) for x in (wit or [])][-8:]),
                   fn=dx, where=prim.site(dx, tb), how="must-pass on the CFG")
            # the collection receiving the system limiter is the one handed to the template
            lo = prim.origin_of_operand(dx, tt.args[2]).strip()
            same = False
            for b, t, o in sys_adds:
                ro = prim.origin_of_operand(dx, t.args[0]).strip()
                if ro.k == "var" and lo.k == "var" and ro.a.get("local") == lo.a.get("local"):
                    same = True
            ctx.ob("R1", "same-collection", same, "the limiter collection given to the template is %s; the system limiter must have been added to that collection" % lo.fmt(), fn=dx, where=prim.site(dx, tb), how="provenance slice")
            # env budgeted == env passed to the child
            env_l = prim.user_local_behind(dx, tt.args[1])
            env_ok = False
            for b, t, o in sys_adds:
                for c in o.call_nodes():
                    if c.a["callee"] == SYS:
                        al = prim.user_local_behind(dx, c.a["term"].args[0])
                        if al is not None and al == env_l:
                            env_ok = True
            ctx.ob("R1", "budgeted-env-is-child-env", env_ok, "new_system must be given the same environment map that the template passes to the child (template env: %s)" % (dx.local_name(env_l) if env_l is not None else "?"), fn=dx, where=prim.site(dx, tb), how="provenance slice")
            if env_l is not None:
                defs = [d for d in prim.local_defs(dx).get(env_l, []) if d[1] != "partial"]
                src = prim._origin_of_def(dx, defs[0], 8, {env_l}) if len(defs) == 1 else None
                ctx.ob("R1", "env-source", src is not None and any(c.startswith("std::env::vars_os") for c in src.callees()), "the environment map is %s; must be the process environment (vars_os) collected once" % (src.fmt() if src else "multiply defined"), fn=dx, how="provenance slice")
        # the system limiter is the last one added: a refusal by it is out_of_chars whatever the others say is not required;
        # but nothing may remove limiters afterwards
        for b, t in dx.calls():
            n = t.j.get("callee_name")
            if n in ("clear", "pop", "truncate", "remove", "retain", "drain") and "LimiterCollection" in (t.j.get("callee_inst") or ""):
                ctx.ob("R1", "no-limiter-removal", False, "do_xargs removes limiters (%s)" % n, fn=dx, where=prim.site(dx, b))
    ex = prog.fns.get(X + "CommandBuilder::<'_>::execute")
    if ex is None:
        ctx.missing("R1", "CommandBuilder::execute")
    else:
        ctx.analysed_fns.add(ex.path)
        # every spawn path clears the inherited environment and installs options.env
        stat = [(b, t) for b, t in ex.calls() if t.j.get("callee_name") in ("status", "spawn", "output") and "process::Command" in (t.j.get("callee_inst") or "")]
        clears = [b for b, t in ex.calls() if t.j.get("callee_name") == "env_clear"]
        envs = []
        for b, t in ex.calls():
            if t.j.get("callee_name") == "envs" and "process::Command" in (t.j.get("callee_inst") or ""):
                o = prim.origin_of_operand(ex, t.args[1])
                if any(x.k == "field" and x.a == "env" for x in o.walk()):
                    envs.append(b)
        for b, t in stat:
            ok = bool(clears) and bool(envs) and prim.must_pass(ex, 0, [b], clears) and prim.must_pass(ex, 0, [b], envs)
            ctx.ob("R1", "child-env-is-budgeted-env", ok, "every path to Command::%s must pass env_clear() and envs(options.env): the child's environment is exactly the one the budget was computed from" % t.j.get("callee_name"), fn=ex, where=prim.site(ex, b), how="must-pass on the CFG")
        ctx.floor("R1", "spawn sites in execute", len(stat), 1)

    # ---- R2 budget expression -----------------------------------------------------------------------
    ns = ctx.fn("R2", SYS)
    sysfields = {}
    if ns is not None:
        # the limiter value built by new_system: its fields, looking through `..Self::new(limit)` (new stores its
        # parameter as the bound and zero/neutral values elsewhere — checked below)
        for b in ns.reachable():
            for st in ns.blocks[b].stmts:
                if st.rv is not None and st.rv.k == "agg" and st.rv.j.get("adt") == MAXCHARS:
                    for n_, op in zip(st.rv.j["fields"], st.rv.ops):
                        sysfields[n_] = prim.origin_of_operand(ns, op)
        news = [(b, t) for b, t in ns.calls() if t.callee == MAXCHARS + "::new"]
        lim = None
        if news:
            lim = prim.origin_of_operand(ns, news[0][1].args[0])
            mo = sysfields.get("max_chars")
            if mo is not None:
                ms = mo.strip()
                ctx.ob("R2", "bound-is-the-computed-limit", ms.k == "field" and ms.a == "max_chars" and any(c.a["callee"] == MAXCHARS + "::new" for c in ms.call_nodes()) or (ms.k == "call" and False),
                       "new_system's max_chars is %s; oracle: the max_chars of Self::new(limit)" % mo.fmt()[:160], fn=ns, how="provenance slice", nontrivial=False)
        elif "max_chars" in sysfields:
            lim = sysfields["max_chars"]
        nf = prog.fns.get(MAXCHARS + "::new")
        if nf is not None and news:
            ctx.analysed_fns.add(nf.path)
            for b in nf.reachable():
                for st in nf.blocks[b].stmts:
                    if st.rv is not None and st.rv.k == "agg" and st.rv.j.get("adt") == MAXCHARS:
                        fo = dict(zip(st.rv.j["fields"], [prim.origin_of_operand(nf, op).strip() for op in st.rv.ops]))
                        ctx.ob("R2", "new-stores-its-limit", fo.get("max_chars") is not None and fo["max_chars"].k == "arg", "MaxCharsCommandSizeLimiter::new stores %s as max_chars" % (fo.get("max_chars").fmt() if fo.get("max_chars") is not None else "?"), fn=nf, how="provenance slice", nontrivial=False)
        if lim is None:
            ctx.missing("R2", "limit value constructed in new_system")
        else:
            base, subs = _sub_terms(lim)
            sc = [c for c in base.call_nodes() if c.a["callee"].endswith("sysconf")]
            arg0 = sc[0].kids[0].strip() if sc else None
            ctx.ob("R2", "budget-from-ARG_MAX", len(sc) == 1 and arg0.k == "const" and arg0.a.get("v") == SC_ARG_MAX and set(c.a["name"] for c in base.call_nodes()) <= {"sysconf", "min", "clamp"},
                   "the system limit starts from %s; must be sysconf(_SC_ARG_MAX), possibly clamped" % base.fmt(), fn=ns, how="provenance slice")
            # the kernel caps the budget at 3/4 of _STK_LIM (6 MiB) however large RLIMIT_STACK is, while sysconf(_SC_ARG_MAX)
            # is RLIMIT_STACK/4 without a cap: the value must be clamped by a constant <= 6 MiB before anything is subtracted
            capped = False
            for c in base.call_nodes():
                if c.a["name"] in ("min", "clamp") and any(x.a["callee"].endswith("sysconf") for x in c.call_nodes()):
                    ks = [k.strip() for k in c.kids]
                    if c.a["name"] == "min" and any(k.k == "const" and isinstance(k.a.get("v"), int) and 131072 <= k.a["v"] <= 6 * 1024 * 1024 for k in ks):
                        capped = True
                    if c.a["name"] == "clamp" and len(ks) == 3 and ks[2].k == "const" and isinstance(ks[2].a.get("v"), int) and 131072 <= ks[2].a["v"] <= 6 * 1024 * 1024:
                        capped = True
            for b in ns.reachable():
                if ns.blocks[b].term.k == "switch":
                    pr = prim.switch_pred(ns, b).strip()
                    if pr.k == "bin" and pr.a in ("Gt", "Ge", "Lt", "Le") and any(isinstance(c.get("v"), int) and 131072 <= c["v"] <= 6 * 1024 * 1024 for c in pr.consts()) and any(x.endswith("sysconf") for x in pr.callees()):
                        capped = True
            ctx.ob("R2", "kernel-cap", capped,
                   "the budget %s is not clamped by a constant in [128 KiB, 6 MiB]: the kernel caps argv+envp at 3/4 of _STK_LIM (6 MiB) whatever RLIMIT_STACK is, but sysconf(_SC_ARG_MAX) = RLIMIT_STACK/4 grows without bound (ulimit -s unlimited)" % lim.fmt()[:200], fn=ns, how="provenance slice / guards of new_system")
            consts = [s_.strip().a.get("v") for s_ in subs if s_.strip().k == "const"]
            ctx.ob("R2", "headroom", any(isinstance(v, int) and v >= 2048 for v in consts), "constant headroom subtracted: %s; POSIX asks for at least 2048 bytes" % consts, fn=ns, how="constant operand")
            ctx.ob("R2", "nothing-added-to-the-budget", not any(x.k == "bin" and x.a in ("Add", "AddWithOverflow", "Mul", "MulWithOverflow", "Shl") for x in lim.walk()) and not any(c.a["name"] in ("saturating_add", "checked_add", "max", "saturating_mul") for c in lim.call_nodes()),
                   "the limit is %s; only subtractions from (and a clamp of) the system value are allowed" % lim.fmt()[:200], fn=ns, how="provenance slice", nontrivial=False)
            envsub = [s_ for s_ in subs if s_.strip().k != "const"]
            ok_env = False
            env_ptr = False
            detail = "no environment term"
            for s_ in envsub:
                cl = _closure_fns(prog, s_)
                names = [c.a.get("name") for c in s_.call_nodes()]
                it_env = any(x.k == "arg" for x in s_.walk())
                for cf in cl:
                    ctx.analysed_fns.add(cf.path)
                    ro = prim.origin_of_local(cf, 0)
                    costs = [c for c in ro.call_nodes() if c.a["callee"] == X + "count_osstr_chars_for_exec"]
                    subjects = set()
                    for c in costs:
                        fl = [x.a for x in c.kids[0].walk() if x.k == "field"]
                        subjects.update(fl)
                    adds_only = all(x.a in ("Add", "AddWithOverflow") for x in ro.walk() if x.k == "bin") and not [c for c in ro.call_nodes() if c not in costs and c.a["name"] not in ("deref", "as_ref", "saturating_add")]
                    detail = "per-entry cost %s" % ro.fmt()
                    if adds_only and {"0", "1"} <= subjects and len(costs) == 2 and "sum" in names and it_env:
                        ok_env = True
                        env_ptr = any(isinstance(c.get("v"), int) and c["v"] >= PTR for c in ro.consts())
            ctx.ob("R2", "environment-charged", ok_env, "the environment must be charged as the sum over all entries of cost(name) + cost(value) (each is a NUL-terminated part of one envp string: name=value\\0 = len+1+len'+1-1; charging both +1 is the conservative side); found %s" % detail, fn=ns, how="provenance slice through the closure")
            ctx.ob("R3", "pointer-term:environment", env_ptr, "each environment entry must also be charged the pointer to it (>= %d bytes); found %s (contract K1)" % (PTR, detail), fn=ns, how="constant term in the closure")
    shared.cost_model(ctx, "R2")

    # ---- R3 pointer term in the system limiter's charge (K1) -----------------------------------------
    ta = None
    for f in prog.trait_method_impls(X + "CommandSizeLimiter", "try_arg"):
        if f.impl_self == MAXCHARS:
            ta = f
    if ta is None:
        ctx.missing("R3", "MaxCharsCommandSizeLimiter::try_arg")
    else:
        ctx.analysed_fns.add(ta.path)
        tn = [b for b, t in ta.calls() if t.j.get("callee_name") == "try_next"]
        atoms = prim.norm_guards(prim.dominating_guards(ta, tn[0])) if len(tn) == 1 else []
        # (a) the charge compared with the budget = cost(arg) + self.<overhead>, and the system limiter's overhead is
        #     at least a pointer
        over_field = None
        cost_desc = "?"
        for at in atoms:
            if at["rel"] not in ("le", "lt", "ge", "gt"):
                continue
            for side in (at["a"], at["b"]):
                sd = side.strip()
                if any(x.k == "field" and x.a == "current_size" for x in sd.walk()):
                    cost_desc = sd.fmt()[:200]
                    fl = [x.a for x in sd.walk() if x.k == "field" and x.a not in ("current_size", "arg", "0", "1")]
                    if len(fl) == 1 and any(c.a["callee"].endswith("count_osstr_chars_for_exec") for c in sd.call_nodes()) and not any(x.k == "bin" and x.a not in ("Add", "AddWithOverflow") for x in sd.walk()):
                        over_field = fl[0]
        ov = sysfields.get(over_field).strip() if over_field in sysfields else None
        ok = ov is not None and ov.k == "const" and isinstance(ov.a.get("v"), int) and ov.a["v"] >= PTR
        ctx.ob("R3", "pointer-term", ok,
               "the system limiter compares %s with its budget and initialises the per-argument overhead `%s` to %s; oracle: cost(arg) + an overhead of at least one pointer (%d bytes): execve charges one pointer per argv/envp string against the same budget, so many short arguments overflow it otherwise (contract K1)" % (cost_desc, over_field, ov.fmt() if ov is not None else "?", PTR),
               fn=ta, how="dominating guards (normal form) + field initialiser in new_system")
        # ---- R4 per-argument bound -----------------------------------------------------------------------
        bound_field = None
        for at in atoms:
            a, b_ = at["a"].strip(), at["b"].strip()
            for x, y, rel in ((a, b_, at["rel"]), (b_, a, prim._SWAP[at["rel"]])):
                if rel in ("le", "lt") and x.k == "call" and x.a["callee"].endswith("count_osstr_chars_for_exec") and any(z.k == "arg" and z.a["name"] == "arg" for z in x.walk()) and y.k == "field" and y.a not in ("current_size", "max_chars"):
                    bound_field = (y.a, rel)
        bo = sysfields.get(bound_field[0]) if bound_field else None
        okb = False
        bdesc = "?"
        if bo is not None:
            bs = bo.strip()
            bdesc = bs.fmt()[:120]
            if bs.k == "const" and isinstance(bs.a.get("v"), int):
                okb = 4096 <= bs.a["v"] <= MAX_ARG_STRLEN
            elif (bs.k == "call" and bs.a["name"] in ("saturating_mul", "checked_mul", "wrapping_mul")) or (bs.k == "bin" and bs.a in ("Mul", "MulWithOverflow")) or (bs.k == "field" and bs.kids and bs.kids[0].strip().k == "bin"):
                core = _core_bin(bs) if bs.k != "call" else bs
                ks = [k.strip() for k in core.kids]
                page = [k for k in ks if any(c.a["callee"].endswith("sysconf") and c.kids and c.kids[0].strip().k == "const" and c.kids[0].strip().a.get("v") == SC_PAGESIZE for c in k.call_nodes())]
                mult = [k for k in ks if k.k == "const" and isinstance(k.a.get("v"), int)]
                okb = len(page) == 1 and len(mult) == 1 and 1 <= mult[0].a["v"] <= 32
        ctx.ob("R4", "per-argument-bound", bound_field is not None and okb,
               "acceptance by the system limiter is guarded by cost(arg) %s self.%s with %s = %s in new_system; oracle: a comparison of the single argument's size (terminator included) with a bound of at most MAX_ARG_STRLEN = 32 pages (131072 with 4 KiB pages): a longer argument below the total budget is otherwise handed to exec and rejected with E2BIG instead of being reported with exit status 1 (contract K1)" % (
                   {"le": "<=", "lt": "<"}.get(bound_field[1] if bound_field else None, "?"), bound_field[0] if bound_field else "?", bound_field[0] if bound_field else "?", bdesc),
               fn=ta, how="dominating guards (normal form) + field initialiser in new_system")
        # the -s limiter (new) must not be stricter than the user asked: neutral overhead, no per-argument bound
        if nf is not None:
            for b in nf.reachable():
                for st in nf.blocks[b].stmts:
                    if st.rv is not None and st.rv.k == "agg" and st.rv.j.get("adt") == MAXCHARS:
                        fo = dict(zip(st.rv.j["fields"], [prim.origin_of_operand(nf, op).strip() for op in st.rv.ops]))
                        neutral = True
                        if over_field in fo:
                            neutral = neutral and fo[over_field].k == "const" and fo[over_field].a.get("v") == 0
                        if bound_field and bound_field[0] in fo:
                            v = fo[bound_field[0]]
                            neutral = neutral and v.k == "const" and isinstance(v.a.get("v"), int) and v.a["v"] >= (1 << 62)
                        ctx.ob("R4", "-s-limiter-is-neutral", neutral, "the limiter built for -s has overhead %s and per-argument bound %s; oracle 0 and unbounded (-s counts characters only)" % (fo.get(over_field).fmt() if over_field in fo else "-", fo.get(bound_field[0]).fmt() if bound_field and bound_field[0] in fo else "-"), fn=nf, how="constant fields", nontrivial=False)

    # ---- R5 oversized single argument -> ArgumentTooLarge -> exit 1 -----------------------------------
    C.import_rules(ctx, "C04", ["R5"], "R5")
    # the budget is only as good as the accounting of the limiters and of what is charged to them (C04.R1, R2, R4)
    C.import_rules(ctx, "C04", ["R1", "R2", "R4"], "R3", key_prefix="accounting")
    C.import_rules(ctx, "C19", ["R1"], "R5")
