"""C02 — traversal: every in-range entry exactly once, follow modes, errors do not drop siblings."""
import itertools

from .. import prim
from ..dispatch import arm_of
from . import common as C
from . import shared

META = {
    "explanation": "R1 plumbing table Config field -> WalkDir builder argument (provenance of every builder argument) and token -> Config field (dispatch table), follow constants; "
                   "R2 walkdir contract W1 (min_depth/max_depth clamp each other): a min>max comparison must dominate the walk; "
                   "R3 error arm of the walk loop: non-zero status, diagnostic, returns to the loop head on every path; "
                   "R4 exactly one evaluation of the expression per fetched entry; R5 from_walkdir decision table: only a not-found error whose lstat succeeds becomes an entry (dangling link), no error swallowed; W3 root DirEntry not used when following",
    "decides": "R1 also: -mindepth is not delegated to walkdir (contract W6: its own lower bound uses the stack depth); how the walker is configured from the command line and how each item it yields (entry or error) is consumed, on every path",
    "does_not_decide": "completeness/uniqueness of walkdir's own enumeration and its loop detection (trusted dependency)",
}

CONFIG = "findutils::find::Config"
FOLLOW = C.M + "Follow"


def follow_cmp(o):
    """('eq'|'ne', variant) when o is Follow == / != <const variant> on Config.follow / a follow argument"""
    o = o.strip()
    if o.k != "call" or o.a["name"] not in ("eq", "ne") or FOLLOW not in (o.a.get("inst") or ""):
        return None
    a, b = o.kids[0].strip(), o.kids[1].strip()
    var = None
    for x, y in ((a, b), (b, a)):
        if y.k == "agg" and str(y.a).startswith(FOLLOW + "::") and (x.k in ("field", "arg", "var") or (x.k == "field")):
            subj = x
            var = str(y.a).split("::")[-1]
            return (o.a["name"], var, subj)
    return None


def run(ctx):
    prog = ctx.prog
    pf, g = C.walk_graph(ctx, "R1")
    if pf is None:
        return
    # ---- R1 plumbing ------------------------------------------------------------------------
    want = {"contents_first": "depth_first", "max_depth": "max_depth", "same_file_system": "same_file_system"}
    seen = set()
    # contract W6: walkdir applies min_depth to its *stack* depth (IntoIter::skippable), not to the entry's depth; under
    # contents_first below a followed root link (-H LINK -depth) a directory is released one level late, so walkdir's own
    # lower bound drops the directories at depth == min_depth. The bound is find's to enforce (R2 decides that it does).
    mins = [(b, t) for b, t in pf.calls() if (t.callee or "") == "walkdir::WalkDir::min_depth"]
    okm = all((lambda o: o.k == "const" and o.a.get("v") == 0)(prim.origin_of_operand(pf, t.args[1]).strip()) for b, t in mins)
    ctx.ob("R1", "walkdir.min_depth-not-delegated", okm,
           "process_dir hands %s to WalkDir::min_depth; walkdir compares it with its stack depth, which is one too small for the directories it releases late (contents_first) below a starting point that is a followed symbolic link: "
           "`find -H LINK -depth -mindepth 1` then never evaluates LINK's subdirectories (contract W6). -mindepth has to be enforced on entry.depth() by process_dir alone" % [prim.origin_of_operand(pf, t.args[1]).fmt() for b, t in mins],
           fn=pf, where=prim.site(pf, mins[0][0]) if mins else None, how="builder chain (API contract W6)")
    for b, t in pf.calls():
        c = t.callee or ""
        if not c.startswith("walkdir::WalkDir::"):
            continue
        name = t.j.get("callee_name")
        if name in want:
            seen.add(name)
            o = prim.origin_of_operand(pf, t.args[1]).strip()
            ok = o.k == "field" and o.a == want[name] and o.kids[0].strip().k == "arg"
            ctx.ob("R1", "walkdir.%s<-Config.%s" % (name, want[name]), ok, "WalkDir::%s receives %s; oracle: Config.%s unmodified" % (name, o.fmt(), want[name]), fn=pf, where=prim.site(pf, b), how="provenance slice")
        elif name in ("follow_links", "follow_root_links"):
            seen.add(name)
            o = prim.origin_of_operand(pf, t.args[1])
            fc = follow_cmp(prim.resolve_promoted(pf, o))
            if name == "follow_links":
                ok = fc is not None and ((fc[0], fc[1]) == ("eq", "Always"))
                orc = "config.follow == Follow::Always"
            else:
                ok = fc is not None and ((fc[0], fc[1]) == ("ne", "Never"))
                orc = "config.follow != Follow::Never"
            ok = ok and fc[2].k == "field" and fc[2].a == "follow"
            ctx.ob("R1", "walkdir.%s" % name, ok, "WalkDir::%s receives %s; oracle: %s" % (name, o.fmt(), orc), fn=pf, where=prim.site(pf, b), how="provenance slice")
        elif name == "new":
            o = prim.origin_of_operand(pf, t.args[0]).strip()
            ctx.ob("R1", "walkdir.new<-starting point", o.k == "arg", "WalkDir::new receives %s; must be the starting point unmodified" % o.fmt(), fn=pf, where=prim.site(pf, b), how="provenance slice")
            seen.add("new")
    for n in list(want) + ["follow_links", "follow_root_links", "new"]:
        if n not in seen:
            ctx.ob("R1", "walkdir.%s-present" % n, False, "process_dir does not call WalkDir::%s — the corresponding option is not plumbed" % n, fn=pf)
    # the builder chain is linear: the iterator walked is built from all of them
    its = [(b, t) for b, t in pf.calls() if t.j.get("callee_name") == "into_iter" and "walkdir::WalkDir" in (t.j.get("callee_inst") or "")]
    ctx.ob("R1", "single-walker", len(its) == 1, "WalkDir::into_iter call sites: %d" % len(its), fn=pf, nontrivial=False)

    fn, d, arms, info = C.parser_arms(ctx, "R1")
    if arms:
        for tok, fld in (("-maxdepth", "max_depth"), ("-mindepth", "min_depth")):
            a = arm_of(arms, tok)
            if a is None:
                ctx.missing("R1", "parser arm %s" % tok)
                continue
            ws = [(n, v, b) for n, v, b, _ in a.field_writes("find::Config")]
            okw = [v for n, v, b in ws if n == fld]
            ok = len(ws) == 1 and len(okw) == 1 and any(c.endswith("convert_arg_to_number") for c in okw[0].callees())
            ctx.ob("R1", "token:%s=>%s" % (tok, fld), ok, "%s must write exactly Config.%s from convert_arg_to_number(operand); writes: %s" % (tok, fld, [(n, v.fmt()) for n, v, _ in ws]), fn=fn, where=prim.site(fn, a.entry), how="dispatch table")
            if okw:
                call = [x for x in okw[0].call_nodes() if x.a["callee"].endswith("convert_arg_to_number")]
                if call:
                    arg = call[0].kids[1]
                    idx = [x for x in arg.walk() if x.k == "index"] or (C.token_at_offset(fn, arg) == 1)
                    # operand is args[i+1]
                    txt = arg.fmt()
                    ctx.ob("R1", "token:%s-operand" % tok, bool(idx), "operand of %s is %s" % (tok, txt), fn=fn, where=prim.site(fn, a.entry), nontrivial=False)
        for tok, var in (("-follow", "Always"),):
            a = arm_of(arms, tok)
            ws = [(n, v) for n, v, b, _ in a.field_writes("find::Config") if n == "follow"] if a else []
            wbl = [b for n, v, b, _ in a.field_writes("find::Config") if n == "follow"] if a else []
            ok = len(ws) == 1 and ws[0][1].k == "agg" and ws[0][1].a == FOLLOW + "::" + var and prim.must_pass(fn, a.entry, [info["join"]], wbl)
            ctx.ob("R1", "token:%s=>Follow::%s" % (tok, var), ok, "%s must set follow=%s unconditionally (on every path of its arm); writes: %s" % (tok, var, [v.fmt() for _, v in ws]), fn=fn, how="dispatch table + must-pass")
        for tok in ("-mount", "-xdev"):
            a = arm_of(arms, tok)
            ws = [(n, v) for n, v, b, _ in a.field_writes("find::Config") if n == "same_file_system"] if a else []
            ok = len(ws) == 1 and ws[0][1].k == "const" and ws[0][1].a.get("v") is True
            ctx.ob("R1", "token:%s=>same_file_system" % tok, ok, "%s writes %s" % (tok, [v.fmt() for _, v in ws]), fn=fn, how="dispatch table")
    # -H/-L/-P in parse_args
    pa = ctx.fn("R1", C.PARSE_ARGS)
    if pa is not None:
        from ..dispatch import find_dispatches
        ds = [x for x in find_dispatches(pa) if set(x.literals()) & {"-H", "-L", "-P"}]
        if not ds:
            ctx.missing("R1", "-H/-L/-P dispatch in parse_args")
        else:
            dd = ds[0]
            orc = {"-H": "Roots", "-L": "Always", "-P": "Never"}
            for lit, var in orc.items():
                entry = dd.lit_arm.get(lit)
                got = None
                if entry is not None:
                    from ..dispatch import ArmInfo
                    stop = {dd.head} | {pa.blocks[dd.head].term.target}
                    # the arm region ends where the loop continues (i += 1) — bounded by the dispatch head
                    ai = ArmInfo(pa, prog, [lit], entry, prim.region(pa, entry, {dd.head}))
                    vals = [v for n, v, b, _ in ai.field_writes("find::Config") if n == "follow" and (b == entry or pa.dominates(entry, b)) and _no_other_arm(pa, dd, entry, b)]
                    if len(vals) == 1 and vals[0] is not None and vals[0].strip().k == "agg":
                        got = str(vals[0].strip().a).split("::")[-1]
                ctx.ob("R1", "flag:%s=>Follow::%s" % (lit, var), got == var, "%s sets follow=%s; oracle %s" % (lit, got, var), fn=pa, how="dispatch table")

    shared.sticky_exit_status(ctx, "R3")

    # ---- R2 contract W1 -----------------------------------------------------------------------
    nexts = [b for b, t in pf.calls() if C.walk_role(t) == "next"]
    def minmax_guard(f, site):
        for gd in prim.dominating_guards(f, site):
            o = gd["pred"].strip()
            if o.k == "bin" and o.a in ("Gt", "Lt", "Ge", "Le"):
                fa = [x for x in o.kids[0].walk() if x.k == "field"]
                fb = [x for x in o.kids[1].walk() if x.k == "field"]
                na = fa[0].a if fa else None
                nb = fb[0].a if fb else None
                if {na, nb} == {"min_depth", "max_depth"} and gd["bool"] is not None:
                    # evaluate orientation on samples: continuing must be possible iff min<=max
                    def ev(mn, mx):
                        env = {"min_depth": mn, "max_depth": mx}
                        x, y = env[na], env[nb]
                        r = {"Gt": x > y, "Lt": x < y, "Ge": x >= y, "Le": x <= y}[o.a]
                        return r == gd["bool"]
                    if ev(0, 1) and ev(1, 1) and not ev(2, 1):
                        return True
        return False
    def depth_floor_guard(f, site):
        """entry.depth() compared with Config.min_depth, continuing only when depth >= min_depth"""
        for gd in prim.dominating_guards(f, site):
            o = gd["pred"].strip()
            if o.k == "bin" and o.a in ("Gt", "Lt", "Ge", "Le") and gd["bool"] is not None:
                sides = []
                for kid in o.kids:
                    k = kid.strip()
                    if any(c.endswith("WalkEntry::depth") for c in k.callees()):
                        sides.append("depth")
                    elif [x for x in k.walk() if x.k == "field" and x.a == "min_depth"]:
                        sides.append("min")
                    else:
                        sides.append("?")
                if sorted(sides) == ["depth", "min"]:
                    def ev(dep, mn):
                        env = {"depth": dep, "min": mn}
                        x, y = env[sides[0]], env[sides[1]]
                        r = {"Gt": x > y, "Lt": x < y, "Ge": x >= y, "Le": x <= y}[o.a]
                        return r == gd["bool"]
                    if ev(1, 1) and ev(2, 1) and not ev(0, 1):
                        return True
        return False
    mts = [b for b, t in pf.calls() if C.walk_role(t) == "matches"]
    floor_ok = bool(mts) and all(depth_floor_guard(pf, b) for b in mts)
    ok = (bool(nexts) and all(minmax_guard(pf, b) for b in nexts)) or floor_ok
    if not ok:
        df = prog.fns.get(C.DO_FIND)
        if df is not None:
            pcs = [b for b, t in df.calls() if t.callee == C.PROCESS_DIR]
            ok = bool(pcs) and all(minmax_guard(df, b) for b in pcs)
    ctx.ob("R2", "mindepth>maxdepth-guard", ok,
           "walkdir contract W1: WalkDir::min_depth/max_depth silently clamp each other (walkdir 2.5 lib.rs: `if self.opts.min_depth > self.opts.max_depth { self.opts.min_depth = self.opts.max_depth }`), so with -mindepth m > -maxdepth n walkdir still yields depth-n entries; "
           "the property demands nothing at all. Accepted idioms: a comparison of Config.min_depth with Config.max_depth dominating the walk (only the min<=max side walks), or the evaluation being dominated by entry.depth() >= Config.min_depth",
           fn=pf, where=prim.site(pf, nexts[0]) if nexts else None, how="dominating guard (API contract W1)")
    ctx.ob("R2", "synthesised-entries-depth-checked", floor_ok,
           "walkdir contract W4: errors (and therefore the dangling links that from_walkdir turns into entries) are yielded without applying min_depth; the evaluation must be dominated by entry.depth() >= Config.min_depth, "
           "otherwise `find -L d -mindepth 2` evaluates a dangling link at depth 1", fn=pf, where=prim.site(pf, mts[0]) if mts else None, how="dominating guard (API contract W4)")

    # ---- R3 error arm ---------------------------------------------------------------------------
    gg = C.G(g)
    fw = gg.nodes("from_walkdir")
    ctx.ob("R3", "from_walkdir-site", len(fw) == 1, "from_walkdir call sites in the walk loop: %d" % len(fw), fn=pf, nontrivial=False)
    # the status local: the local copied to _0 at return
    status = None
    for bb, kind, obj in prim.local_defs(pf).get(0, []):
        if kind == "assign" and obj.rv.k == "use" and obj.rv.ops[0].place is not None and obj.rv.ops[0].place.is_local():
            status = obj.rv.ops[0].place.local
    ctx.ob("R3", "status-local", status is not None, "process_dir returns local %s" % (pf.local_name(status) if status is not None else None), fn=pf, nontrivial=False)
    for n in fw:
        errs = gg.succ(n, "1")
        ok = bool(errs) and all(C.base(x) == "next" for x in errs)
        ctx.ob("R3", "error=>continue", ok, "after a walk error the next event must be fetching the next entry (siblings and later starting points are not dropped); found %s" % errs, fn=pf, how="event graph")
    fwb = [(b, t) for b, t in pf.calls() if C.walk_role(t) == "from_walkdir"]
    for b, t in fwb:
        # Err target block: the switch on the discriminant of the Result that from_walkdir produced — directly, or after
        # it went through Result::map / a join with the held-back starting point
        sw = None
        for cand in sorted(pf.reach_from([t.target]) if t.target is not None else []):
            if pf.blocks[cand].term.k != "switch" or not (prim.discr_type_of_switch(pf, cand) or "").startswith("std::result::Result"):
                continue
            pr = prim.expand_single_def_vars(pf, prim.switch_pred(pf, cand))
            srcs = [pr]
            for x in pr.walk():
                if x.k == "var" and x.a.get("local") is not None:
                    srcs += [o for _, o in prim.alternatives(pf, x.a["local"])]
            if any(c.a["callee"].endswith("WalkEntry::from_walkdir") for o_ in srcs for c in o_.call_nodes()):
                sw = cand
                break
        err_bb = None
        if sw is not None:
            for lab, tg in prim.switch_edges(pf, sw):
                if lab == 1:
                    err_bb = tg
        if err_bb is None or status is None:
            ctx.ob("R3", "error-arm", False, "cannot locate the Err arm of from_walkdir", fn=pf, where=prim.site(pf, b))
            continue
        setters = [bb for bb, v in prim.const_assigns_to(pf, status) if isinstance(v, int) and v != 0]
        ok = prim.must_pass(pf, err_bb, nexts + pf.return_blocks(), setters)
        ctx.ob("R3", "error=>nonzero-status", ok, "every path through the Err arm must assign a non-zero constant to the returned status `%s`" % pf.local_name(status), fn=pf, where=prim.site(pf, err_bb), how="must-pass")
        writes = [bb for bb, tt in pf.calls() if tt.j.get("callee_name") == "write_fmt" and "Stderr" in (tt.j.get("callee_inst") or "")]
        ok = prim.must_pass(pf, err_bb, nexts + pf.return_blocks(), writes)
        ctx.ob("R3", "error=>diagnostic", ok, "every path through the Err arm must write a diagnostic to stderr", fn=pf, where=prim.site(pf, err_bb), how="must-pass")
        # status is never reset to zero inside the loop
    zero_resets = [bb for bb, v in prim.const_assigns_to(pf, status) if v == 0] if status is not None else []
    loop_blocks = pf.reach_from(nexts) if nexts else set()
    # blocks from which `next` is reachable again = inside the loop
    inside = [bb for bb in zero_resets if bb in loop_blocks and any(nb in pf.reach_from([bb]) for nb in nexts)]
    ctx.ob("R3", "status-not-reset", not inside, "the status is reset to 0 inside the walk loop at blocks %s" % inside, fn=pf, how="reachability")

    # ---- R4 exactly one evaluation per entry -------------------------------------------------------
    for n in fw:
        oks = gg.succ(n, "0")
        r = gg.reach([n], stop_roles=("next", "matches"))
        first = [x for x in r if C.base(x) in ("next", "matches")]
        # only the Ok edge may lead to matches; and it must (no path Ok -> next skipping matches)
        r_ok = set()
        for x in oks:
            r_ok.add(x)
            r_ok |= gg.reach([x], stop_roles=("next", "matches", "depth_filter"))
        reaches_next_without_match = any(C.base(x) == "next" for x in r_ok)
        # a range filter may send out-of-range entries straight to the next fetch; its other side must evaluate
        filt_ok = True
        for fl in [x for x in r_ok if C.base(x) == "depth_filter"]:
            sides = {}
            for lab in ("0", "else"):
                tgt = set(gg.succ(fl, lab))
                rr = set(tgt)
                for x in tgt:
                    rr |= gg.reach([x], stop_roles=("next", "matches"))
                rr2 = set(tgt)
                for x in tgt:
                    rr2 |= gg.reach([x], stop_roles=("next", "matches", "stash"))
                sides[lab] = {C.base(x) for x in rr2 if C.base(x) in ("next", "matches", "stash")}
            # in range: evaluated now, or held back in the deferred slot (evaluated when the walker is exhausted, see slot protocol)
            if not (sorted(map(sorted, sides.values())) in ([["matches"], ["next"]], [["matches", "stash"], ["next"]])):
                filt_ok = False
            r_ok |= {"matches"} if any("matches" in v for v in sides.values()) else set()
        ctx.ob("R4", "entry=>evaluated", bool(oks) and not reaches_next_without_match and filt_ok and any(C.base(x) == "matches" for x in r_ok),
               "every fetched entry (in range) must be evaluated before the next one is fetched; the only accepted bypass is the depth-range filter with one side evaluating and the other fetching; events after Ok: %s" % sorted(r_ok), fn=pf, how="event graph")
    # ---- slot protocol of held-back entries (starting point under -depth) ----------------------------------------------------
    stashes = gg.nodes("stash")
    takes = gg.nodes("deferred_take")
    if stashes or takes:
        ok = bool(stashes) and bool(takes) and all(gg.succ(sn) and all(C.base(x) == "next" for x in gg.succ(sn)) for sn in stashes)
        ctx.ob("R4", "held-back=>nothing-else-now", ok, "holding an entry back must only store it and fetch the next one; events: %s" % [(sn, gg.succ(sn)) for sn in stashes], fn=pf, how="event graph")
        srcs = sorted({a for a, l, b in gg.edges if C.base(b) == "deferred_take"})
        ok = all(C.base(a) == "next" for a in srcs) and all(l.split(",")[0] != "1" for a, l, b in gg.edges if C.base(b) == "deferred_take")
        ctx.ob("R4", "held-back-fetched-when-walk-ends", ok, "the held-back entry may only be fetched when the walker is exhausted (next() == None); sources %s" % srcs, fn=pf, how="event graph")
        for tn in takes:
            some = gg.succ(tn, "1")
            r = set(some)
            for x in some:
                r |= gg.reach([x], stop_roles=("next", "matches"))
            ctx.ob("R4", "held-back=>evaluated", any(C.base(x) == "matches" for x in r), "a fetched held-back entry must be evaluated; reachable %s" % sorted(r), fn=pf, how="event graph")
        # no re-stash after the walk is over: the stash is guarded by a flag that is set before the slot is taken
        sb = [b for b in pf.reachable() for st in pf.blocks[b].stmts if C.walk_stmt_role(pf, b, st) == "stash"]
        tb = [b for b, t in pf.calls() if C.walk_role(t) == "deferred_take"]
        flag_ok = False
        for b in sb:
            for gd in prim.dominating_guards(pf, b):
                pr = gd["pred"].strip()
                inner = pr.kids[0].strip() if pr.k == "un" and pr.a == "Not" else pr
                truth = gd["bool"] if inner is pr else (None if gd["bool"] is None else not gd["bool"])
                if inner.k == "var" and pf.local_ty(inner.a["local"]) == "bool" and truth is False:
                    fl = inner.a["local"]
                    trues = [bb for bb, v in prim.const_assigns_to(pf, fl) if v is True]
                    if trues and tb and all(any(pf.dominates(x, t_) for x in trues) for t_ in tb):
                        flag_ok = True
        ctx.ob("R4", "held-back-at-most-once", flag_ok, "an entry fetched from the slot must not be stored again (termination and exactly-once): the store must be guarded by a flag that is set before the slot is emptied", fn=pf, how="dominating guard + dominators")
    for m in gg.nodes("matches"):
        r = gg.reach([m], stop_roles=("next",))
        again = [x for x in r if C.base(x) == "matches"]
        ctx.ob("R4", "evaluated-once", not again, "a second evaluation of the expression is reachable before the next entry is fetched: %s" % again, fn=pf, how="event graph")
    ctx.ob("R4", "single-matches-site", len(gg.nodes("matches")) == 1, "call sites of the top-level Matcher::matches in process_dir: %s" % gg.nodes("matches"), fn=pf, nontrivial=False)

    # ---- R5 from_walkdir -----------------------------------------------------------------------------
    fwf = ctx.fn("R5", C.M + "entry::WalkEntry::from_walkdir")
    if fwf is not None:
        def role(t):
            c = t.callee or ""
            if c.endswith("WalkError::is_not_found"):
                return "is_not_found"
            if c.endswith("Path::symlink_metadata") or c == "std::fs::symlink_metadata":
                return "lstat"
            if c.endswith("WalkEntry::new"):
                return "explicit_entry"
            if c.endswith("Path::metadata") or c == "std::fs::metadata" or c.endswith("Path::exists"):
                return "stat"
            return None
        def brole(f, bb, o):
            o = o.strip() if o is not None else None
            if o is not None and o.k == "discr":
                b = o.kids[0].strip()
                if b.k == "call" and b.a["name"] == "map_err":
                    return "input"
                if b.k == "arg":
                    return "input"
                if b.k == "var" and b.a.get("name") == "result":
                    return "input"
            if o is not None and o.k == "bin" and o.a in ("Eq", "Ne") and any(c.endswith("DirEntry::depth") for c in o.callees()) and any(x.a.get("v") == 0 for x in o.walk() if x.k == "const"):
                return "depth_is_0" if o.a == "Eq" else "depth_not_0"
            return None
        def srole(f, bb, s):
            if s.rv is not None and s.rv.k == "agg" and s.rv.j.get("ak") == "adt" and s.rv.j.get("adt", "").endswith("entry::Entry"):
                return "wrap_" + s.rv.j["variant"]
            return None
        g5 = prim.event_graph(fwf, role, branch_role=brole, stmt_role=srole)
        h = C.G(g5)
        inp = h.nodes("input")
        ctx.ob("R5", "input-dispatch", len(inp) == 1, "from_walkdir must branch on its walkdir::Result argument; found %s" % inp, fn=fwf, nontrivial=False)
        if len(inp) == 1:
            okr = h.reach(h.succ(inp[0], "0"))
            errr = h.succ(inp[0], "1")
            ctx.ob("R5", "ok=>entry", all(not x.startswith("RET(") or x == "RET(agg:Result::Ok)" for x in okr) and any(x == "RET(agg:Result::Ok)" for x in okr),
                   "an Ok item must become an entry; reachable: %s" % sorted(okr), fn=fwf, how="event graph")
            # error side
            nf = h.nodes("is_not_found")
            ctx.ob("R5", "error-classified", len(nf) == 1 and all(C.base(x) == "is_not_found" for x in errr), "an Err item must be classified by is_not_found(); found %s" % errr, fn=fwf, how="event graph")
            for n in nf:
                no = h.succ(n, "0")
                ctx.ob("R5", "other-error-propagated", bool(no) and all(x == "RET(agg:Result::Err)" for x in no), "errors other than not-found must be returned unchanged; found %s" % no, fn=fwf, how="event graph")
                yes = h.reach(h.succ(n, "else"), stop_roles=("lstat",)) | set(h.succ(n, "else"))
                ctx.ob("R5", "notfound=>lstat-or-error", all(C.base(x) in ("lstat",) or x == "RET(agg:Result::Err)" for x in yes), "a not-found error may only become an entry after an lstat of the path; events: %s" % sorted(yes), fn=fwf, how="event graph")
            # the recovery must not depend on *where* the error occurred: a dangling link is a link whether it is a starting point
            # (follow_root_links under -H/-L) or found below one; only the presence of (path, depth) may be tested
            nfb = [b for b, t in fwf.calls() if role(t) == "is_not_found"]
            lsb = [b for b, t in fwf.calls() if role(t) == "lstat"]
            if nfb and lsb:
                tr = prim.follow_bool(fwf, fwf.blocks[nfb[0]].term.target, fwf.blocks[nfb[0]].term.dest.local)
                start = tr[0] if tr else None
                bad_tests = []
                if start is not None:
                    for b in fwf.reach_from([start], avoid=set(lsb)):
                        t = fwf.blocks[b].term
                        if t.k == "switch" and any(x in fwf.reach_from([b]) for x in lsb):
                            pr = prim.switch_pred(fwf, b).strip()
                            if pr.k == "discr":
                                continue
                            if any(c.endswith("WalkError::depth") or c.endswith("DirEntry::depth") for c in prim.expand_single_def_vars(fwf, pr).callees()) or pr.k in ("bin", "field", "variant"):
                                bad_tests.append("%s@%s" % (pr.fmt()[:80], prim.site(fwf, b)))
                ctx.ob("R5", "recovery-independent-of-depth", start is not None and not bad_tests,
                       "between `is_not_found()` and the lstat of the path the code also tests %s: a dangling link must be recovered at every depth (a starting point that is a dangling link fails at depth 0 under -H/-L and has to be visited as the link itself)" % bad_tests,
                       fn=fwf, how="guards between two events")
            for n in h.nodes("lstat"):
                ok_s = h.reach(h.succ(n, "0"))
                bad = h.succ(n, "else") + h.succ(n, "1")
                ctx.ob("R5", "lstat-ok=>link-entry", any(x == "RET(agg:Result::Ok)" for x in ok_s) and not any(x == "RET(agg:Result::Err)" for x in ok_s), "lstat success must yield the dangling link as an entry; reachable %s" % sorted(ok_s), fn=fwf, how="event graph")
                ctx.ob("R5", "lstat-fail=>error", bool(bad) and all(x == "RET(agg:Result::Err)" for x in h.reach(bad) | set(bad) if x.startswith("RET(")), "lstat failure must return the error; reachable %s" % sorted(h.reach(bad)), fn=fwf, how="event graph")
            ctx.ob("R5", "no-stat-here", not h.nodes("stat"), "from_walkdir must not stat() (follow) paths itself", fn=fwf, nontrivial=False)
            # the dangling-link entry is lstat-based: Follow::Never and the lstat record cached
            for b in fwf.reachable():
                for s in fwf.blocks[b].stmts:
                    if s.rv is not None and s.rv.k == "agg" and s.rv.j.get("adt", "").endswith("entry::WalkEntry"):
                        ops = s.rv.ops
                        names = s.rv.j.get("fields", [])
                        inner = prim.origin_of_operand(fwf, ops[names.index("inner")])
                        fol = prim.origin_of_operand(fwf, ops[names.index("follow")]).strip()
                        if "Explicit" in inner.fmt():
                            ctx.ob("R5", "dangling-entry-follow-never", fol.k == "agg" and fol.a == FOLLOW + "::Never", "the explicit entry for a dangling link must be lstat-based (Follow::Never); found %s" % fol.fmt(), fn=fwf, where=prim.site(fwf, b, s), how="provenance slice")
                        else:
                            ctx.ob("R5", "walk-entry-follow", fol.k == "arg", "a walkdir-backed entry carries the configured follow mode; found %s" % fol.fmt(), fn=fwf, where=prim.site(fwf, b, s), how="provenance slice")
            # W3 truth table: DirEntry wrapped unless depth==0 && follow != Never
            have = set(C.base(x) for x in h.out)
            if {"depth_is_0"} <= have or {"depth_not_0"} <= have:
                for d0, fnn in itertools.product([False, True], repeat=2):
                    asg = {"input": 0, "depth_is_0": d0, "depth_not_0": not d0}
                    # follow != Never is a call event: name it
                    tr = _sim_w3(fwf, d0, fnn)
                    want = "explicit_entry" if (d0 and fnn) else "wrap_WalkDir"
                    ctx.ob("W3", "row:depth0=%s,follow!=Never=%s" % (d0, fnn), tr == want,
                           "walkdir contract W3: DirEntry::file_type() of a followed root is the link's own type, so a depth-0 entry must be an explicit (stat-based) entry when follow != Never; with depth==0:%s follow!=Never:%s the code builds %s, oracle %s" % (d0, fnn, tr, want),
                           fn=fwf, how="event-graph truth table")
            else:
                ctx.ob("W3", "depth-test", False, "no depth()==0 test found in from_walkdir (contract W3 cannot be decided)", fn=fwf)


def _no_other_arm(pa, dd, entry, b):
    """b belongs to the arm starting at entry: not reachable from entry only through another arm's entry"""
    others = {e for e in dd.arms if e != entry}
    return b in prim.region(pa, entry, others | {dd.head})


def _sim_w3(f, depth0, follow_ne_never):
    def role(t):
        c = t.callee or ""
        if c.endswith("WalkEntry::new"):
            return "explicit_entry"
        if t.j.get("callee_name") in ("ne", "eq") and FOLLOW in (t.j.get("callee_inst") or ""):
            o = prim.resolve_promoted(f, prim.origin_of_operand(f, t.args[1])).strip()
            v = str(o.a).split("::")[-1] if o.k == "agg" else "?"
            return "follow_%s_%s" % (t.j["callee_name"], v)
        return None
    def brole(fn, bb, o):
        o = o.strip() if o is not None else None
        if o is not None and o.k == "discr":
            b = o.kids[0].strip()
            if b.k in ("arg",) or (b.k == "call" and b.a["name"] == "map_err") or (b.k == "var" and b.a.get("name") == "result"):
                return "input"
        if o is not None and o.k == "bin" and o.a in ("Eq", "Ne") and any(c.endswith("DirEntry::depth") for c in o.callees()):
            return "depth_" + o.a
        return None
    def srole(fn, bb, s):
        if s.rv is not None and s.rv.k == "agg" and s.rv.j.get("ak") == "adt" and s.rv.j.get("adt", "").endswith("entry::Entry"):
            return "wrap_" + s.rv.j["variant"]
        return None
    g = prim.event_graph(f, role, branch_role=brole, stmt_role=srole)
    asg = {"input": 0, "depth_Eq": depth0, "depth_Ne": not depth0,
           "follow_ne_Never": follow_ne_never, "follow_eq_Never": not follow_ne_never}
    # bool branch events are labelled 0/else as well; `input` by discriminant
    tr = C.simulate(g, asg)
    if not tr:
        return None
    for n in tr:
        if C.base(n) in ("explicit_entry", "wrap_WalkDir", "wrap_Explicit"):
            return C.base(n)
    return None
