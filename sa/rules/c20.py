"""C20 — xargs -I: one run per input line, every occurrence replaced by the whole line."""
import itertools

from .. import prim
from . import common as C

X = C.X
EXEC = "findutils::xargs::CommandBuilder::<'_>::execute"
META = {
    "explanation": "R1 replacement API: every initial argument is mapped through str::replace(R, line) (all occurrences, not replacen), the line is extra_args' first element through identity conversions only, "
                   "the replace branch passes the rebuilt initial arguments and nothing else; R2 option-precedence decision table of normalize_options simulated over every combination and order of -n/-L/-I "
                   "(three optional indices compared only by `>`: a finite set of orderings) and -I => max_args=1, newline delimiter (C05.R2 table); R3 which reader splits the input and whether it keeps empty fields (C05.R1/R2, imported: once for each non-empty line); R3 empty input: the line is obtained under a non-emptiness guard and the empty side returns success without running",
    "decides": "R1 also: the built-in echo appends nothing in -I mode; R2 also: options may be repeated (clap contract C2: args_override_self); which API performs the substitution on which strings, what is appended, which mode wins for every option order, and the empty-input path",
    "does_not_decide": "quoting inside lines (excluded by the statement); clap's index bookkeeping for value-less -i",
}

IDENTITY = ("to_string_lossy", "deref", "as_ref", "borrow", "index", "first", "get", "as_str", "to_str", "as_os_str", "clone", "into", "from", "to_owned", "unwrap", "expect", "branch")


def run(ctx):
    prog = ctx.prog
    ex = prog.fns.get(EXEC)
    if ex is None:
        ctx.missing("R1", EXEC)
        return
    ctx.analysed_fns.add(ex.path)
    # ---- R1 -------------------------------------------------------------------------------------
    closures = prog.closures_of(ex)
    repl_calls = []
    for cf in closures:
        for b, t in cf.calls():
            n = t.j.get("callee_name")
            if n in ("replace", "replacen", "replace_range", "replacen_", "rsplitn", "splitn") and "str" in (t.j.get("callee_inst") or ""):
                repl_calls.append((cf, b, t))
    for f2 in [ex]:
        for b, t in f2.calls():
            n = t.j.get("callee_name")
            if n in ("replace", "replacen") and "str" in (t.j.get("callee_inst") or ""):
                repl_calls.append((f2, b, t))
    ok = len(repl_calls) == 1 and repl_calls[0][2].j.get("callee_name") == "replace"
    ctx.ob("R1", "replace-all-occurrences", ok, "the substitution must be a single str::replace (every occurrence of R); found %s" % [(prim.short(f.path), t.j.get("callee_inst")) for f, b, t in repl_calls], fn=ex, how="API choice at the substitution site")
    if ok:
        cf, b, t = repl_calls[0]
        ctx.analysed_fns.add(cf.path)
        # subject = the closure's own element (an initial argument), pattern = replace_str, with = replacement
        subj = prim.origin_of_operand(cf, t.args[0])
        pat = prim.origin_of_operand(cf, t.args[1])
        wth = prim.origin_of_operand(cf, t.args[2])
        subj_ok = any(x.k == "arg" and x.a["idx"] == 2 for x in subj.walk()) and all(c.split("::")[-1].split("<")[0] in IDENTITY for c in subj.callees())
        ctx.ob("R1", "subject-is-the-initial-argument", subj_ok, "str::replace is applied to %s; must be the initial argument itself (identity conversions only)" % subj.fmt(), fn=cf, where=prim.site(cf, b), how="provenance slice")
        # upvars: map closure env fields to captured variables of execute
        up = _upvars(ex, cf)
        patn = _upvar_names(pat, up)
        wthn = _upvar_names(wth, up)
        # role of each captured variable: where its value comes from in `execute` (names are not relied upon)
        caps = _capture_origins(ex, cf)
        def cap_of(o):
            idx = [int(x.a) for x in o.walk() if x.k == "field" and x.kids and x.kids[0].strip().k == "arg" and x.kids[0].strip().a["idx"] == 1 and str(x.a).isdigit()]
            return [caps.get(i) for i in idx]
        pco = cap_of(pat)
        wco = cap_of(wth)
        pat_role = len(pco) == 1 and pco[0] is not None and any(x.k == "field" and x.a == "replace" for x in pco[0].walk()) and not any(x.k == "field" and x.a == "extra_args" for x in pco[0].walk())
        wth_role = len(wco) == 1 and wco[0] is not None and any(x.k == "field" and x.a == "extra_args" for x in prim.expand_single_def_vars(ex, wco[0]).walk())
        ctx.ob("R1", "pattern-is-R", (patn == ["replace_str"] or pat_role) and not [c for c in pat.callees() if c.split("::")[-1].split("<")[0] not in IDENTITY], "pattern operand is %s (captures %s); must be the replace string R unchanged" % (pat.fmt(), patn), fn=cf, where=prim.site(cf, b), how="provenance slice (closure capture)")
        ctx.ob("R1", "replacement-is-the-line", (wthn == ["replacement"] or wth_role) and not [c for c in wth.callees() if c.split("::")[-1].split("<")[0] not in IDENTITY], "replacement operand is %s (captures %s)" % (wth.fmt(), wthn), fn=cf, where=prim.site(cf, b), how="provenance slice (closure capture)")
        # result of the closure = OsString::from(replace(..)) only
        ret = prim.origin_of_local(cf, 0)
        bad = [c for c in ret.callees() if c.split("::")[-1].split("<")[0] not in IDENTITY + ("replace",)]
        ctx.ob("R1", "closure-returns-substituted", not bad and any(c.endswith("::replace") or "replace" in c.split("::")[-1] for c in ret.callees()), "the closure returns %s (offending calls %s)" % (ret.fmt()[:160], bad), fn=cf, how="provenance slice")
    # `replacement` in execute: extra_args first element, identity conversions only (the entire line: no trim)
    rl = ex.locals_named("replacement") or [l_ for l_ in range(len(ex.locals)) if (ex.local_name(l_) or "").split("::")[-1] == "replacement"]      # (also inside a spliced helper)
    if not rl and repl_calls:
        # role: the user local captured as the `with` operand of str::replace
        try:
            wco_ = cap_of(wth)
            rl = [x.a["local"] for x in wco_[0].walk() if x.k == "var" and x.a.get("name")] if wco_ and wco_[0] is not None else []
        except Exception:
            rl = []
    if not rl:
        ctx.missing("R1", "local `replacement` in execute")
    else:
        final = rl[-1]
        o = prim.origin_of_local(ex, final)
        bad = [c for c in o.callees() if c.split("::")[-1].split("<")[0] not in IDENTITY]
        src = any(x.k == "field" and x.a == "extra_args" for x in o.walk())
        ctx.ob("R1", "line-unmodified", src and not bad, "the replacement text is %s; must be the first appended argument (the whole input line) through identity conversions only — offending calls: %s" % (o.fmt()[:200], bad), fn=ex, how="provenance slice")
        firsts = [x for x in o.walk() if (x.k == "call" and x.a["name"] in ("first", "index", "get"))]
        idx_ok = True
        for x in firsts:
            if x.a["name"] in ("index", "get") and len(x.kids) > 1:
                k = x.kids[1].strip()
                idx_ok = idx_ok and k.k == "const" and k.a.get("v") == 0
        ctx.ob("R1", "line-is-first-appended", bool(firsts) and idx_ok, "the line is taken as %s of extra_args" % [x.a["name"] for x in firsts], fn=ex, how="provenance slice")
    # map over all initial args
    maps = [(b, t) for b, t in ex.calls() if t.j.get("callee_name") == "map" and "Iterator" in (t.j.get("callee_inst") or "")]
    okm = False
    for b, t in maps:
        o = prim.origin_of_operand(ex, t.args[0])
        if any(x.k == "field" and x.a == "action" for x in o.walk()) and any(c.endswith("::iter") for c in o.callees()) and not any(c.split("::")[-1] in ("skip", "take", "filter", "step_by", "rev", "take_while", "skip_while") for c in o.callees()):
            okm = True
    ctx.ob("R1", "every-initial-argument-mapped", okm, "the substitution must be mapped over the complete list of initial arguments (iter() without skip/take/filter)", fn=ex, how="provenance slice")
    # replace branch: args(rebuilt) only
    acalls = [(b, t) for b, t in ex.calls() if t.j.get("callee_name") == "args" and "process::Command" in (t.j.get("callee_inst") or "")]
    in_replace = []
    for b, t in acalls:
        gs = prim.dominating_guards(ex, b)
        for gd in gs:
            pr = gd["pred"].strip()
            if pr.k == "discr" and any(x.k == "field" and x.a == "replace" for x in pr.walk()) and gd["labels"] == [1]:
                in_replace.append((b, t))
    ok = len(in_replace) == 1
    desc = ""
    if ok:
        o = prim.origin_of_operand(ex, in_replace[0][1].args[1])
        desc = o.fmt()[:160]
        ok = any(c.split("::")[-1] == "collect" for c in o.callees()) and any(c.split("::")[-1] == "map" for c in o.callees())
    ctx.ob("R1", "replace-branch-appends-nothing", ok, "in -I mode exactly one Command::args call may happen and it must pass the rebuilt initial arguments (found %d call(s): %s)" % (len(in_replace), desc), fn=ex, how="dominating guard + provenance")

    # the built-in echo (no command given) is a command like any other: in -I mode nothing is appended to it
    adt = prog.adts.get(X + "ExecAction")
    echo_idx = [v["idx"] for v in adt["variants"] if v["name"] == "Echo"] if adt else []
    reads = prim.field_reads_in(ex, "extra_args")
    n_echo = 0
    if echo_idx:
        for b, s in reads:
            atoms = prim.norm_guards(prim.dominating_guards(ex, b))
            in_echo = prim.atom_holds(atoms, "eq", lambda x: x.strip().k == "discr" and any(y.k == "field" and y.a == "action" for y in x.walk()), lambda x: x.strip().k == "const" and x.strip().a.get("v") == echo_idx[0]) is not None
            if not in_echo:
                continue
            n_echo += 1
            is_repl = lambda x: any(y.k == "field" and y.a == "replace" for y in x.walk())
            T = lambda v: (lambda x: x.strip().k == "const" and x.strip().a.get("v") is v or (v is not True and x.strip().k == "const" and x.strip().a.get("v") == v))
            none = None
            for at in atoms:
                a_ = at["a"].strip()
                if not is_repl(a_):
                    continue
                bv = at["b"].strip().a.get("v") if at["b"].strip().k == "const" else None
                if a_.k == "call" and a_.a["name"] == "is_some" and ((at["rel"] == "ne" and bv is True) or (at["rel"] == "eq" and bv is False)):
                    none = at
                if a_.k == "call" and a_.a["name"] == "is_none" and ((at["rel"] == "eq" and bv is True) or (at["rel"] == "ne" and bv is False)):
                    none = at
                if a_.k == "discr" and ((at["rel"] == "eq" and bv == 0) or (at["rel"] == "ne" and bv == 1)) and bv is not True and bv is not False:
                    none = at
            ctx.ob("R1", "echo-appends-nothing-in-replace-mode", none is not None,
                   "the built-in echo reads the appended arguments under %s; in -I mode the line replaces R in the initial arguments and nothing is appended — the default command has no initial arguments, so `printf 'a\\n' | xargs -I{}` prints an empty line, not the line"
                   % prim.guards_fmt(prim.dominating_guards(ex, b))[:200], fn=ex, where=prim.site(ex, b, s), how="field reads in the Echo arm + dominating guards (normal form)")
    ctx.floor("R1", "reads of the appended arguments in the built-in echo", n_echo, 1)

    # ---- R3 empty input ---------------------------------------------------------------------------
    def role(t):
        n = t.j.get("callee_name")
        inst = t.j.get("callee_inst") or ""
        if n == "status" and "process::Command" in inst:
            return "run"
        if n in ("first", "get", "is_empty", "len") and ("OsString" in inst):
            return "line?:" + n
        if n == "index" and "OsString" in inst and any(x.k == "field" and x.a == "extra_args" for x in prim.origin_of_operand(ex, t.args[0]).walk()):
            return "index"
        return None
    def brole(f, bb, o):
        o = o.strip()
        if o.k == "discr" and any(x.k == "field" and x.a == "replace" for x in o.walk()) and not o.callees():
            return "replace_mode"
        return None
    g = C.G(prim.event_graph(ex, role, branch_role=brole))
    # (the replace option may be tested elsewhere too — the built-in echo does; the test meant here is the one whose Some
    # side goes on to obtain the line or to run the command)
    rm = [r for r in g.nodes("replace_mode") if any(C.base(x).startswith("line?") or C.base(x) in ("run", "index") for x in g.succ(r, "1"))]
    ok = len(rm) == 1
    desc = g.fmt()
    if ok:
        into = g.succ(rm[0], "1")
        ok = bool(into) and all(C.base(x).startswith("line?") for x in into)
        for x in into:
            if C.base(x) == "line?:first" or C.base(x) == "line?:get":
                none_side = g.succ(x, "0") + g.succ(x, "else")
                ok = ok and bool(none_side) and all(y == "RET(agg:Result::Ok(CommandResult::Success))" for y in none_side)
            elif C.base(x) == "line?:is_empty":
                empty_side = g.succ(x, "else")
                ok = ok and bool(empty_side) and all(y == "RET(agg:Result::Ok(CommandResult::Success))" for y in empty_side)
            else:
                ok = False
        ok = ok and not g.nodes("index")
    ctx.ob("R3", "empty-input-runs-nothing", ok,
           "in -I mode the input line must be obtained under a non-emptiness guard (first()/get(0)/is_empty()) whose empty side returns Ok(Success) without running anything; an unguarded extra_args[0] panics on empty input. events: %s" % desc[:600],
           fn=ex, how="event graph")

    # "once for each non-empty input line": which reader is used and whether it keeps empty fields is C05's R1/R2
    # (empty fields are kept only for -0/-d given by the user, never for the line mode -I selects)
    C.import_rules(ctx, "C05", ["R1", "R2"], "R3", key_prefix="lines")

    # ---- R2 option precedence ------------------------------------------------------------------------
    no = ctx.fn("R2", X + "normalize_options")
    if no is not None:
        _precedence(ctx, no)


def _upvars(ex, cf):
    """closure env field index -> captured variable name (from the closure's debug info)"""
    out = {}
    for u in cf.upvar_names:
        pl = u["place"]
        for e in pl.get("p", []):
            if isinstance(e, dict) and "f" in e:
                out[e["f"]] = u["name"]
                break
    return out


def _upvar_names(o, up):
    names = []
    for x in o.walk():
        if x.k == "field" and x.kids and x.kids[0].strip().k == "arg" and x.kids[0].strip().a["idx"] == 1:
            try:
                names.append(up.get(int(x.a), x.a))
            except ValueError:
                names.append(x.a)
    return names


def _precedence(ctx, no):
    scr = None     # the scrutinee tuple local
    for b in no.reachable():
        for s in no.blocks[b].stmts:
            if s.rv is not None and s.rv.k == "agg" and s.rv.j.get("ak") == "tuple" and len(s.rv.ops) == 3 and scr is None:
                os_ = [prim.origin_of_operand(no, o).strip() for o in s.rv.ops]
                fl = [[x.a for x in o.walk() if x.k == "field"] for o in os_]
                if [f[-1] if f else None for f in fl] == ["max_args", "max_lines", "replace"] or [f[0] if f else None for f in fl] == ["max_args", "max_lines", "replace"]:
                    scr = s.lhs.local
    if scr is None:
        ctx.ob("R2", "scrutinee", False, "cannot find the (max_args, max_lines, replace) scrutinee in normalize_options; fail closed", fn=no)
        return
    names = {0: "args", 1: "lines", 2: "replace"}

    def field_idx(place):
        if place.local != scr:
            return None
        for e in place.proj:
            if isinstance(e, dict) and "f" in e:
                return e["f"]
        return None

    def brole(f, bb, o):
        t = f.blocks[bb].term
        # discriminant of a tuple component
        l = t.discr.place.local if t.discr.place is not None and t.discr.place.is_local() else None
        if l is not None:
            for s in reversed(f.blocks[bb].stmts):
                if s.lhs is not None and s.lhs.is_local() and s.lhs.local == l and s.rv is not None and s.rv.k == "discr":
                    pl = s.rv.place
                    fi = field_idx(pl)
                    if fi is None and pl.proj == ["*"]:
                        # deref of a copy of the reference component
                        oo = prim.origin_of_local(f, pl.local).strip()
                        if oo.k == "field" and oo.a == "2":
                            fi = 2
                        if oo.k == "field" and oo.a == "replace":
                            fi = 2
                    if fi is not None:
                        return "has_" + names[fi]
        if t.discr.place is not None and not t.discr.place.is_local() and t.discr.place.local == scr:
            fi = field_idx(t.discr.place)
            if fi == 0:
                return "args_value"
        return None

    def role(t):
        n = t.j.get("callee_name")
        if n in ("gt", "lt", "ge", "le") and "Option<usize>" in (t.j.get("callee_inst") or ""):
            an = prim.named_local_behind(no, t.args[0])
            bn = prim.named_local_behind(no, t.args[1])
            if an and bn and an.endswith("_index") and bn.endswith("_index"):
                return "%s:%s:%s" % (n, an.replace("_index", ""), bn.replace("_index", ""))
            return None
        return None

    out_local = None

    # the local that receives the decision: a 3-tuple assigned in several places (one per way out of the match). A tuple
    # built ahead of the match and handed on by an arm (`let replace_mode = (Some(1), None, ..); .. => replace_mode`) is
    # the decision where it is handed on, not where it is built.
    res_local = None
    for l_, ds_ in prim.local_defs(no).items():
        ds2 = [d_ for d_ in ds_ if d_[1] == "assign" and d_[0] in no.reachable()]
        if l_ != scr and len(ds2) >= 2 and str(no.local_ty(l_)).startswith("(") and str(no.local_ty(l_)).count(",") >= 2 and \
                all(d_[2].rv is not None and ((d_[2].rv.k == "agg" and d_[2].rv.j.get("ak") == "tuple" and len(d_[2].rv.ops) == 3) or (d_[2].rv.k == "use" and d_[2].rv.ops[0].place is not None and d_[2].rv.ops[0].place.is_local())) for d_ in ds2):
            res_local = l_

    def srole(f, bb, s):
        os_ = None
        if res_local is not None:
            if s.lhs is not None and s.lhs.is_local() and s.lhs.local == res_local and s.rv is not None:
                if s.rv.k == "agg" and len(s.rv.ops) == 3:
                    os_ = [prim.origin_of_operand(f, o).strip() for o in s.rv.ops]
                elif s.rv.k == "use":
                    to = prim.origin_of_operand(f, s.rv.ops[0]).strip()
                    if to.k == "agg" and str(to.a) == "tuple" and len(to.kids) == 3:
                        os_ = [k_.strip() for k_ in to.kids]
                    else:
                        return "out:?/?/?"
        elif s.rv is not None and s.rv.k == "agg" and s.rv.j.get("ak") == "tuple" and len(s.rv.ops) == 3 and s.lhs.is_local() and s.lhs.local != scr:
            os_ = [prim.origin_of_operand(f, o).strip() for o in s.rv.ops]
        if os_ is not None:
            def cls(o, fld):
                # (`options.replace.as_deref()` / `.clone()`: the option as given)
                while o.k == "call" and o.a["name"] in ("as_deref", "as_ref", "clone", "cloned", "copied") and len(o.kids) == 1:
                    o = o.kids[0].strip()
                if o.k == "field" and o.a == fld:
                    return "given"
                if o.k == "agg" and str(o.a).endswith("Option::None"):
                    return "none"
                if o.k == "agg" and str(o.a).endswith("Option::Some") and o.kids and o.kids[0].strip().k == "const":
                    return "some%s" % o.kids[0].strip().a.get("v")
                return "?" + o.fmt()[:30]
            a = cls(os_[0], "max_args")
            l = cls(os_[1], "max_lines")
            r = cls(os_[2], "replace")
            return "out:%s/%s/%s" % (a, l, r)
        return None

    _positions_recorded(ctx, no)
    g = prim.event_graph(no, role, branch_role=brole, stmt_role=srole, history=True)
    gg = C.G(g)
    roles = {C.base(n) for n in gg.out} | {C.base(b) for a, l, b in gg.edges}
    need = {"has_args", "has_lines", "has_replace"}
    if not need <= roles or "cmp:?" in roles:
        ctx.ob("R2", "atoms", False, "cannot recover the precedence decision atoms (found %s); fail closed" % sorted(roles), fn=no)
        return
    # the delimiter part follows the first `out:`; cut the graph there
    rows = 0
    bad = []
    for has_a, a_is_1, has_l, has_r in itertools.product([False, True], repeat=4):
        if a_is_1 and not has_a:
            continue
        given = [n for n, h in (("args", has_a), ("lines", has_l), ("replace", has_r)) if h]
        orders = list(itertools.permutations(given)) or [()]
        for order in orders:
            rank = {n: -1 for n in ("args", "lines", "replace")}
            for i, n in enumerate(order):
                rank[n] = i
            if has_r and not has_l and (not has_a or a_is_1):
                want = "out:some1/none/given"
            elif len(given) <= 1:
                want = "out:given/given/none"
            else:
                w = order[-1]
                want = {"lines": "out:none/given/none", "args": "out:given/none/none", "replace": "out:some1/none/given"}[w]

            def cmpf(label_role):
                op, x, y = label_role.split(":")
                rx, ry = rank[x], rank[y]
                return {"gt": rx > ry, "lt": rx < ry, "ge": rx >= ry, "le": rx <= ry}[op]
            asg = {"has_args": ("discr", 1 if has_a else 0), "has_lines": ("discr", 1 if has_l else 0), "has_replace": ("discr", 1 if has_r else 0),
                   "args_value": ("discr", 1 if a_is_1 else 999)}
            for r in roles:
                if r.split(":")[0] in ("gt", "lt", "ge", "le") and r.count(":") == 2 and r.split(":")[1] in rank and r.split(":")[2] in rank:
                    asg[r] = cmpf(r)          # (comparisons of other positions, -0 against -d, belong to the delimiter table: C05.R2)
            tr = _sim_until_out(gg.edges, asg)
            rows += 1
            if tr != want:
                bad.append(((has_a, a_is_1, has_l, has_r, order), tr, want))
    seen = set()
    for k, got, want in bad:
        if (got, want) in seen or len(seen) >= 5:
            continue
        seen.add((got, want))
        ctx.ob("R2", "row:%s" % want, False,
               "normalize_options with (-n given=%s, -n is 1=%s, -L given=%s, -I given=%s, command-line order %s) yields %s; oracle %s (components: max_args/max_lines/replace; the option given last determines the mode, -I with -n 1 is no conflict, -I implies max_args=1)" % (k[0], k[1], k[2], k[3], list(k[4]), got, want),
               fn=no, how="event-graph simulation")
    ctx.ob("R2", "precedence-table", not bad, "%d of %d (option subset x order) rows deviate from 'last one wins'" % (len(bad), rows), fn=no, how="event-graph simulation over %d rows" % rows)
    ctx.floor("R2", "precedence rows simulated", rows, 20)


def _const_strs(fn, _promoted=True):
    out = set()
    if _promoted:
        for i in range(len(fn.promoted)):
            out |= _const_strs(fn.promoted_fn(i), _promoted=False)
    for b in fn.reachable():
        blk = fn.blocks[b]
        ops = []
        for s in blk.stmts:
            if s.rv is not None:
                ops.extend(s.rv.ops)
        if blk.term.k == "call":
            ops.extend(blk.term.args)
        for o in ops:
            if o.kind == "const":
                v = o.const_value()
                if isinstance(v, str):
                    out.add(v)
    return out


def _positions_recorded(ctx, no):
    """The decision table ranks the options by clap's indices_of. clap records one index per *value* (contract C1:
    a flag's implicit value and a default-missing value count, a valueless occurrence of an option does not), so every
    option the comparison ranks must get a value whenever it occurs."""
    prog = ctx.prog
    dx = ctx.fn("R2", X + "do_xargs")
    if dx is None:
        return
    used = _const_strs(no)
    for cf in prog.closures_of(no):
        used |= _const_strs(cf)
        for cf2 in prog.closures_of(cf):
            used |= _const_strs(cf2)
    n = 0
    for b, t in dx.calls():
        if not (t.callee or "").startswith("clap::Command::arg"):
            continue
        o = prim.origin_of_operand(dx, t.args[1])
        ids = [c.kids[0].strip().a.get("v") for c in o.call_nodes() if c.a["name"] == "new" and c.a["callee"].startswith("clap::Arg") and c.kids and c.kids[0].strip().k == "const"]
        if len(ids) != 1 or ids[0] not in used:
            continue
        n += 1
        names = [c.a["name"] for c in o.call_nodes()]
        na = [c.kids[1].strip() for c in o.call_nodes() if c.a["name"] == "num_args"]
        zero_ok = False
        desc = "one value (default)"
        if na:
            x = na[0]
            desc = x.fmt()[:60]
            if x.k == "const" and isinstance(x.a.get("v"), int):
                zero_ok = x.a["v"] == 0
            else:
                lo = [k.strip() for k in x.kids][:1]
                zero_ok = not (lo and lo[0].k == "const" and isinstance(lo[0].a.get("v"), int) and lo[0].a["v"] >= 1)
        ok = (not zero_ok) or "default_missing_value" in names
        ctx.ob("R2", "position-recorded:%s" % ids[0], ok,
               "option %r takes %s value(s)%s; an occurrence without a value records no index, so 'the option given last' cannot see it (`-n2 -i` then lets -n win)" % (ids[0], desc, ", with a default-missing value" if "default_missing_value" in names else ""),
               fn=dx, where=prim.site(dx, b), how="builder chain (contract C1: clap indices are per value)")
    ctx.floor("R2", "ranked options with a builder chain", n, 4)
    # contract C2: clap refuses a second occurrence of a Set/SetTrue option ("cannot be used multiple times") unless the
    # command was built with args_override_self(true) (or the argument overrides itself)
    gm = [(b, t) for b, t in dx.calls() if (t.callee or "").startswith("clap::Command::") and "get_matches" in (t.callee or "")]
    okr = False
    desc = "no get_matches call found"
    if len(gm) == 1:
        o = prim.origin_of_operand(dx, gm[0][1].args[0])
        # (the builder chain is longer than the provenance depth: the one Command::new of do_xargs, configured in a block
        # that dominates the parse)
        news = [b_ for b_, t_ in dx.calls() if t_.callee == "clap::Command::new"]
        ovs = [(b_, t_) for b_, t_ in dx.calls() if t_.callee == "clap::Command::args_override_self"]
        okr = len(news) == 1 and len(ovs) == 1 and dx.dominates(ovs[0][0], gm[0][0]) and dx.dominates(news[0], ovs[0][0]) and \
            (lambda v: v.k == "const" and v.a.get("v") is True)(prim.origin_of_operand(dx, ovs[0][1].args[1]).strip()) and \
            any(cn.a["name"] == "new" and cn.a["callee"].startswith("clap::Command") for cn in prim.origin_of_operand(dx, ovs[0][1].args[0]).call_nodes())
        desc = "args_override_self(%s)" % (prim.origin_of_operand(dx, ovs[0][1].args[1]).fmt() if ovs else "absent")
        if not okr:
            # every ranked argument overriding itself is the other way
            per_arg = []
            for cn in o.call_nodes():
                if cn.a["name"] == "arg" and len(cn.kids) >= 2:
                    names = [x.a["name"] for x in cn.kids[1].call_nodes()]
                    per_arg.append("overrides_with_self" in names or "overrides_with" in names or any(isinstance(cs.get("v"), str) and cs.get("v") in ("Append", "Count") for cs in cn.kids[1].consts()))
            okr = bool(per_arg) and all(per_arg)
    ctx.ob("R2", "an-option-may-be-repeated", okr,
           "the command line is parsed by a clap::Command built with %s; without it clap rejects `-n 2 -n 1` or `-I{} -n 2 -I{}` (\"cannot be used multiple times\") although the last of the conflicting options — a repetition included — must simply win"
           % desc, fn=dx, where=prim.site(dx, gm[0][0]) if gm else None, how="builder chain of the parsed command (contract C2)")


def _sim_until_out(edges, asg):
    out = {}
    for a, l, b in edges:
        out.setdefault(a, []).append((l, b))
    cur = "ENTRY"
    for _ in range(60):
        if C.base(cur).startswith("out:"):
            return C.base(cur)
        if cur.startswith("RET("):
            return cur
        es = out.get(cur, [])
        if not es:
            return None
        if len(es) == 1 and es[0][0] == "":
            cur = es[0][1]
            continue
        want = asg.get(cur, asg.get(C.base(cur)))
        picks = []
        if isinstance(want, tuple) and want[0] == "discr":
            explicit = [b for l, b in es if l.split(",")[0] == str(want[1])]
            picks = explicit if explicit else [b for l, b in es if l.split(",")[0] == "else"]
            es = []
        for l, b in es:
            f0 = l.split(",")[0]
            if callable(want):
                if want(f0):
                    picks.append(b)
            elif want is True and f0 == "else":
                picks.append(b)
            elif want is False and f0 == "0":
                picks.append(b)
        picks = sorted(set(picks))
        if len(picks) != 1:
            return None
        cur = picks[0]
    return None


def _capture_origins(ex, cf):
    """closure environment field index -> Origin (in the enclosing function) of the captured value"""
    out = {}
    for b in ex.reachable():
        for st in ex.blocks[b].stmts:
            if st.rv is not None and st.rv.k == "agg" and st.rv.j.get("ak") in ("closure", "coroutine") and st.rv.j.get("def") == cf.path:
                for i, op in enumerate(st.rv.ops):
                    out[i] = prim.origin_of_operand(ex, op)
    return out
