"""C14 — numeric operands: N / +N / -N trichotomy and -size units."""
from .. import dispatch, prim
from . import common as C

M = C.M
META = {
    "explanation": "R1 prefix table of both operand converters, decided on the *text* of the prefix (a numeric sign test cannot tell -0 from 0): '+' -> MoreThan, '-' -> LessThan, none -> EqualTo, magnitude = the digit group parsed as u64, anything unparsable is an error; "
                   "R2 comparator table of ComparableValue::matches/imatches recovered from the variant dispatch: MoreThan -> value > limit, EqualTo -> value == limit, LessThan -> value < limit with (value, limit) in that order (a partition of the line, hence exactly one of N/+N/-N holds and +N/-N are monotone), imatches adds the sign cases of a negative measured value; "
                   "R3 uniform use: every numeric test's operand is the token after it run through one of the two converters, and every numeric matcher's verdict is ComparableValue::matches/imatches of its measured value (no per-test special case); "
                   "R4 unit table: suffix -> unit -> shift composed and compared with c=1, w=2, b/none=512, k=2^10, M=2^20, G=2^30; unknown suffix is an error; -size measures byte_size_to_unit_size(unit, len())",
    "decides": "the prefix, comparator and unit tables and that all numeric tests share them",
    "does_not_decide": "the round-up formula of -size (a numerical result; the existing unit test pins its boundaries and a shape rule would reject equivalent ceil idioms); behaviour of operands beyond 2^64 other than 'parse failure is an error'; what the time tests measure (C15)",
}

CONV = M + "convert_arg_to_comparable_value"
CONV_S = M + "convert_arg_to_comparable_value_and_suffix"
CV = M + "ComparableValue"
NUMERIC_TOKENS = {"-size": CONV_S, "-links": CONV, "-inum": CONV, "-uid": CONV, "-gid": CONV, "-atime": CONV, "-ctime": CONV, "-mtime": CONV, "-amin": CONV, "-cmin": CONV, "-mmin": CONV}
NUMERIC_MATCHERS = {"size::SizeMatcher": "matches", "stat::LinksMatcher": "matches", "stat::InodeMatcher": "matches", "user::UserMatcher": "matches", "group::GroupMatcher": "matches"}
UNITS = {"c": 1, "w": 2, "b": 512, "": 512, "k": 1 << 10, "M": 1 << 20, "G": 1 << 30}


def variant_of(o):
    o = o.strip()
    if o.k == "agg" and str(o.a).startswith(CV + "::"):
        return str(o.a).split("::")[-1]
    return None


_const_eval = prim.const_eval


def _imatches_by_delegation(ctx, f, vnames):
    """`imatches` written as: a non-negative value is handed to `matches` unchanged (u64::try_from(value) succeeded), a
    negative one satisfies exactly the LessThan form. Emits the same obligations as the table form (rows and sign cases);
    returns False when the function is not of this shape (the table form is then expected)."""
    def role(t):
        if t.j.get("callee_name") == "try_from" and (t.j.get("callee_inst") or t.callee or "").find("u64") >= 0:
            return "nonneg?"
        if (t.callee or "").split("::<")[0] == CV + "::matches":
            return "delegate"
        return None
    def brole(fn_, bb, o):
        return "form" if (prim.discr_type_of_switch(fn_, bb) or "").endswith("ComparableValue") else None
    if not any(role(t) == "delegate" for _, t in f.calls()):
        return False
    g = prim.event_graph(f, role, branch_role=brole)
    edges = sorted(g.canon())
    less = [i for i, n in vnames.items() if n == "LessThan"]
    # the conversion is of the measured value itself; matches gets self and the converted value
    args_ok = True
    for b, t in f.calls():
        r = role(t)
        if r == "nonneg?":
            o = prim.origin_of_operand(f, t.args[0]).strip()
            args_ok = args_ok and o.k == "arg" and o.a.get("name") == "value"
        elif r == "delegate":
            o0 = prim.origin_of_operand(f, t.args[0]).strip()
            o1 = prim.origin_of_operand(f, t.args[1]).strip()
            conv = [c for c in o1.call_nodes()]
            args_ok = args_ok and o0.k == "arg" and o0.a.get("name") == "self" and len(conv) == 1 and conv[0].a["name"] == "try_from" and any(x.k == "variant" and str(x.a) == "Ok" for x in o1.walk()) and all(x.k in ("field", "variant", "call", "arg", "ref", "deref") for x in o1.walk())
    by = {}
    for a, l, b2 in edges:
        by.setdefault(a, []).append((l, b2))
    nonneg_ok = sorted(by.get("nonneg?", [])) == [("0", "delegate"), ("1", "form")] and by.get("delegate") == [("", "RET(ev:delegate)")] and by.get("ENTRY") == [("", "nonneg?")]
    form = by.get("form", [])
    true_labels = sorted(l for l, b2 in form if b2 == "RET(const:True)")
    rest = [b2 for l, b2 in form if b2 != "RET(const:True)"]
    neg_ok = len(less) == 1 and true_labels == [str(less[0])] and rest and all(b2 == "RET(const:False)" for b2 in rest)
    for name in sorted(vnames.values()):
        ctx.ob("R2", "row:imatches:%s" % name, args_ok and nonneg_ok,
               "imatches: a non-negative value must be compared by matches(self, value) itself (the %s row is then that of matches); events %s" % (name, C.edges_str(edges)), fn=f, how="event graph + provenance")
        ctx.ob("R2", "sign-case:imatches:%s" % name, args_ok and nonneg_ok and neg_ok,
               "imatches %s: a negative measured value (u64::try_from fails) must satisfy exactly the LessThan form; events %s" % (name, C.edges_str(edges)), fn=f, how="event graph")
    ctx.ob("R2", "dispatch:imatches", True, "imatches delegates to matches for non-negative values", fn=f, nontrivial=False)
    return True


def run(ctx):
    prog = ctx.prog
    # ---- R1 prefix table ---------------------------------------------------------------------------------
    for path in (CONV, CONV_S):
        f = ctx.fn("R1", path)
        if f is None:
            continue
        short = path.split("::")[-1]
        ds = dispatch.find_dispatches(f)
        d = ds[0] if ds else None
        lits = d.literals() if d else []
        ctx.ob("R1", "prefix-decided-on-text:%s" % short, d is not None and sorted(lits) == ["+", "-"],
               "%s must choose the comparison from the prefix *text* ('+', '-', none) — found string tests %s; a numeric sign test cannot distinguish -0 from 0 and +N from N" % (short, lits), fn=f, how="string dispatch table")
        if d is None or sorted(lits) != ["+", "-"]:
            continue
        # subject: capture group 1
        subj = d.tests[0]["subject"]
        idx = [c for c in subj.call_nodes() if c.a["name"] == "index"]
        g1 = bool(idx) and idx[0].kids[1].strip().k == "const" and idx[0].kids[1].strip().a.get("v") == 1 and any(c.a["name"] == "captures" for c in subj.call_nodes())
        ctx.ob("R1", "prefix-subject:%s" % short, g1, "the prefix examined is %s; must be capture group 1 of the operand" % subj.fmt(), fn=f, how="provenance slice")
        rows = {}
        mags = {}
        for lit, bb in list(d.lit_arm.items()) + [("none", d.tests[-1]["false_bb"])]:
            reg = [x for x in f.reach_from([bb]) if f.dominates(bb, x)]
            vs = []
            for x in reg:
                for s in f.blocks[x].stmts:
                    if s.rv is not None and s.rv.k == "agg" and s.rv.j.get("adt") == CV:
                        vs.append((s.rv.j.get("variant"), prim.origin_of_operand(f, s.rv.ops[0])))
            rows[lit] = [v for v, _ in vs]
            for v, o in vs:
                mags[lit] = o
        ctx.ob("R1", "prefix-table:%s" % short, rows == {"+": ["MoreThan"], "-": ["LessThan"], "none": ["EqualTo"]}, "%s prefix table %s; oracle + -> MoreThan, - -> LessThan, none -> EqualTo" % (short, rows), fn=f, how="string dispatch table")
        okm = True
        desc = {}
        for lit, o in mags.items():
            names = [c.a["name"] for c in o.call_nodes()]
            pc = [c for c in o.call_nodes() if c.a["name"] == "parse"]
            ix = [c for c in o.call_nodes() if c.a["name"] == "index"]
            ok = len(pc) == 1 and "u64" in (pc[0].a.get("inst") or "") and bool(ix) and ix[0].kids[1].strip().k == "const" and ix[0].kids[1].strip().a.get("v") == 2 and set(names) <= {"parse", "index", "captures", "branch", "new"}
            desc[lit] = o.fmt()
            okm = okm and ok
        ctx.ob("R1", "magnitude:%s" % short, okm and len(mags) == 3, "the limit is %s; must be capture group 2 (the digits) parsed as u64, unchanged, for all three forms" % desc, fn=f, how="provenance slice")
        # failure => Err
        def role(t):
            n = t.j.get("callee_name")
            if n == "captures":
                return "captures"
            if n == "parse":
                return "parse"
            return None
        g = C.G(prim.event_graph(f, role))
        cp = g.nodes("captures")
        pa = g.nodes("parse")
        ok = len(cp) == 1 and len(pa) == 1
        if ok:
            no_cap = [x for l, x in g.out[cp[0]] if l.split(",")[0] != "1"]
            bad_num = [x for l, x in g.out[pa[0]] if l.split(",")[0] != "0"]
            good = [x for l, x in g.out[pa[0]] if l.split(",")[0] == "0"]
            ok = bool(no_cap) and all(x.startswith("RET(agg:Result::Err") for x in no_cap) and bool(bad_num) and all(x.startswith("RET(agg:Result::Err") for x in bad_num) and bool(good) and all(x.startswith("RET(agg:Result::Ok") for x in good)
        ctx.ob("R1", "unparsable=>error:%s" % short, ok, "an operand that does not match, or whose digits do not fit u64, must be rejected (Err), a parsable one accepted; events: %s" % g.fmt(), fn=f, how="event graph")
        # regex shape: sign group optional, digits
        rn = [(b, t) for b, t in f.calls() if (t.callee or "").startswith("regex::Regex::new")]
        if rn:
            pat = prim.origin_of_operand(f, rn[0][1].args[0]).strip()
            pv = pat.a.get("v") if pat.k == "const" else None
            ctx.ob("R1", "operand-regex:%s" % short, isinstance(pv, str) and "([+-]?)(\\d+)" in pv, "operand regex %r; groups 1 and 2 must be the optional sign and the digits" % pv, fn=f, how="constant argument", nontrivial=False)
    # ---- R2 comparator table -------------------------------------------------------------------------------
    adt = prog.adts.get(CV)
    vnames = {v["idx"]: v["name"] for v in adt["variants"]} if adt else {}
    ctx.ob("R2", "three-forms", sorted(vnames.values()) == ["EqualTo", "LessThan", "MoreThan"], "ComparableValue variants: %s" % sorted(vnames.values()), nontrivial=False)
    want_cmp = {"MoreThan": "Gt", "EqualTo": "Eq", "LessThan": "Lt"}
    for meth in ("matches", "imatches"):
        f = ctx.fn("R2", CV + "::" + meth)
        if f is None:
            continue
        sw = [b for b in f.reachable() if f.blocks[b].term.k == "switch" and (prim.discr_type_of_switch(f, b) or "").endswith("ComparableValue")]
        if meth == "imatches" and _imatches_by_delegation(ctx, f, vnames):
            continue
        ctx.ob("R2", "dispatch:%s" % meth, len(sw) == 1, "%s must dispatch once on the form; found %d" % (meth, len(sw)), fn=f, nontrivial=False)
        if len(sw) != 1:
            continue
        for lab, tgt in prim.switch_edges(f, sw[0]):
            if lab == "else":
                continue
            name = vnames.get(lab, str(lab))
            reg = [x for x in f.reach_from([tgt]) if f.dominates(tgt, x)]
            cmps = []
            for x in sorted(reg):
                for s in f.blocks[x].stmts:
                    if s.rv is not None and s.rv.k == "bin" and s.rv.j["op"] in ("Gt", "Ge", "Lt", "Le", "Eq", "Ne"):
                        a, b2 = [prim.origin_of_operand(f, o) for o in s.rv.ops]
                        cmps.append((s.rv.j["op"], a, b2, x, s))
            def is_value(o):
                return any(y.k == "arg" and y.a["name"] == "value" for y in o.walk())
            def is_limit(o):
                return any(y.k == "variant" or (y.k == "field" and y.a in ("0",)) for y in o.walk()) and any(y.k == "arg" and y.a["name"] == "self" for y in o.walk())
            main = [c for c in cmps if is_limit(c[1]) or is_limit(c[2])]
            ok = len(main) == 1
            desc = [(c[0], c[1].fmt(), c[2].fmt()) for c in cmps]
            if ok:
                op, a, b2 = main[0][:3]
                mirror = {"Gt": "Lt", "Lt": "Gt", "Eq": "Eq"}
                ok = (op == want_cmp[name] and is_value(a) and is_limit(b2)) or (op == mirror.get(want_cmp[name]) and is_limit(a) and is_value(b2))
                # the compared limit is this variant's payload
            ctx.ob("R2", "row:%s:%s" % (meth, name), ok, "%s: %s compares %s; oracle value %s limit" % (meth, name, desc, {"Gt": ">", "Eq": "==", "Lt": "<"}[want_cmp[name]]), fn=f, how="variant dispatch table")
            if meth == "imatches":
                signs = [c for c in cmps if c not in main]
                sok = len(signs) == 1 and is_value(signs[0][1]) and signs[0][2].strip().k == "const" and signs[0][2].strip().a.get("v") == 0
                if sok:
                    sop = signs[0][0]
                    # MoreThan/EqualTo need value >= 0 (and ...), LessThan: value < 0 or ...
                    sok = (name in ("MoreThan", "EqualTo") and sop == "Ge") or (name == "LessThan" and sop == "Lt")
                ctx.ob("R2", "sign-case:imatches:%s" % name, sok, "imatches %s sign test %s; oracle: a negative measured value is less than every N (never greater or equal)" % (name, [(c[0], c[1].fmt(), c[2].fmt()) for c in signs]), fn=f, how="variant dispatch table")
                # combination: && for More/Equal (both must hold), || for Less
                ro = prim.origin_of_local(f, 0)
    # ---- R3 uniform use ---------------------------------------------------------------------------------------
    fn, d, arms, info = C.parser_arms(ctx, "R3")
    if arms:
        for tok, conv in NUMERIC_TOKENS.items():
            a = dispatch.arm_of(arms, tok)
            if a is None:
                ctx.ob("R3", "token:%s" % tok, False, "numeric test %s not recognised by the parser" % tok, fn=fn)
                continue
            cs = [(b, t) for b, t in a.calls if t.callee in (CONV, CONV_S)]
            ok = len(cs) == 1 and cs[0][1].callee == conv
            desc = "?"
            if ok:
                b, t = cs[0]
                vo = prim.origin_of_operand(fn, t.args[1]).strip()
                desc = vo.fmt()
                ok = C.token_at_offset(fn, vo) in (0, 1)
            ctx.ob("R3", "operand-converter:%s" % tok, ok, "%s parses its operand with %s applied to %s; oracle: %s on the token after it" % (tok, [prim.short(t.callee) for _, t in cs], desc, prim.short(conv)), fn=fn, where=prim.site(fn, a.entry), how="dispatch table + provenance")
            # the converter's result reaches the matcher constructor
            ctors = [(b, t) for b, t in a.calls if (t.callee or "").startswith(M) and t.j.get("callee_name") in ("new", "from_comparable") and t.callee not in (CONV, CONV_S)]
            flows = False
            for b, t in ctors:
                for x in t.args:
                    o = prim.origin_of_operand(fn, x)
                    if any(c.a["callee"] in (CONV, CONV_S) for c in o.call_nodes()):
                        flows = True
            ctx.ob("R3", "operand-reaches-matcher:%s" % tok, flows, "the parsed operand of %s must be what the matcher is constructed with" % tok, fn=fn, where=prim.site(fn, a.entry), how="provenance slice")
    for ty, meth in NUMERIC_MATCHERS.items():
        f = ctx.fn("R3", C.matcher_impl(M + ty, "matches"))
        if f is None:
            continue
        def role(t):
            c = t.callee or ""
            if c.startswith(CV + "::"):
                return "cmp:" + t.j.get("callee_name")
            if c == M + "entry::WalkEntry::metadata":
                return "metadata"
            return None
        g = C.G(prim.event_graph(f, role))
        cm = [n for n in g.out if C.base(n).startswith("cmp:")]
        rets = sorted({b for _, _, b in g.edges if b.startswith("RET(")})
        ok = len(cm) == 1 and set(rets) <= {"RET(ev:%s)" % C.base(cm[0]), "RET(const:False)"} and ("RET(ev:%s)" % C.base(cm[0])) in rets
        ctx.ob("R3", "verdict-is-shared-comparator:%s" % ty.split("::")[-1], ok, "%s returns %s; oracle: the shared N/+N/-N comparator's verdict on its measured value (false only when the record is unavailable) — a per-form special case breaks the trichotomy/rounding contract" % (ty, rets), fn=f, how="event graph")
    for ty in ("time::FileTimeMatcher", "time::FileAgeRangeMatcher"):
        f = prog.fns.get(M + ty + "::matches_impl")
        if f is None:
            ctx.missing("R3", ty + "::matches_impl")
            continue
        ctx.analysed_fns.add(f.path)
        cm = [(b, t) for b, t in f.calls() if (t.callee or "").startswith(CV + "::")]
        ok = len(cm) == 1
        if ok:
            so = prim.origin_of_operand(f, cm[0][1].args[0]).strip()
            ok = so.k == "field"
        ctx.ob("R3", "verdict-is-shared-comparator:%s" % ty.split("::")[-1], ok, "%s must decide through ComparableValue::matches/imatches of its own operand (sites: %d)" % (ty, len(cm)), fn=f, how="call sites + provenance")
    # ---- R4 units ---------------------------------------------------------------------------------------------
    uf = ctx.fn("R4", "<%ssize::Unit as std::str::FromStr>::from_str" % M)
    suffix_unit = {}
    if uf is not None:
        ds = dispatch.find_dispatches(uf)
        d = ds[0] if ds else None
        if d is None:
            ctx.missing("R4", "suffix dispatch in Unit::from_str")
        else:
            for lit, bb in d.lit_arm.items():
                reg = [x for x in uf.reach_from([bb]) if uf.dominates(bb, x)]
                us = set()
                for x in reg:
                    for s in uf.blocks[x].stmts:
                        if s.rv is not None and s.rv.k == "agg" and s.rv.j.get("adt") == M + "size::Unit":
                            us.add(s.rv.j.get("variant"))
                suffix_unit[lit] = sorted(us)
            reg = [x for x in uf.reach_from([d.default_bb]) if uf.dominates(d.default_bb, x)]
            errs = any(s.rv is not None and s.rv.k == "agg" and s.rv.j.get("adt") == "std::result::Result" and s.rv.j.get("variant") == "Err" for x in reg for s in uf.blocks[x].stmts)
            oks = any(s.rv is not None and s.rv.k == "agg" and s.rv.j.get("adt") == M + "size::Unit" for x in reg for s in uf.blocks[x].stmts)
            ctx.ob("R4", "unknown-suffix=>error", errs and not oks, "an unknown -size suffix must be rejected", fn=uf, how="string dispatch table")
    bf = ctx.fn("R4", M + "size::byte_size_to_unit_size")
    unit_shift = {}
    if bf is not None:
        adtu = prog.adts.get(M + "size::Unit")
        un = {v["idx"]: v["name"] for v in adtu["variants"]} if adtu else {}
        sw = [b for b in bf.reachable() if bf.blocks[b].term.k == "switch" and (prim.discr_type_of_switch(bf, b) or "").endswith("size::Unit")]
        if len(sw) != 1:
            ctx.missing("R4", "unit dispatch in byte_size_to_unit_size")
        else:
            for lab, tgt in prim.switch_edges(bf, sw[0]):
                if lab == "else":
                    continue
                for s in bf.blocks[tgt].stmts:
                    if s.rv is not None and s.rv.k == "use" and s.rv.ops[0].kind == "const" and isinstance(s.rv.ops[0].const_value(), int) and s.lhs.is_local():
                        unit_shift[un.get(lab, lab)] = (s.lhs.local, s.rv.ops[0].const_value())
            if unit_shift and len(unit_shift) < len([1 for lab, _ in prim.switch_edges(bf, sw[0]) if lab != "else"]):
                # some arms compute their constant (`1 << 10`): evaluate what the arm assigns to the same local
                dest_l = {l for l, _ in unit_shift.values()}
                if len(dest_l) == 1:
                    dl = next(iter(dest_l))
                    for lab, tgt in prim.switch_edges(bf, sw[0]):
                        if lab == "else" or un.get(lab, lab) in unit_shift:
                            continue
                        reg = [x for x in bf.reach_from([tgt]) if bf.dominates(tgt, x)]
                        for bb_, kind_, obj_ in prim.local_defs(bf).get(dl, []):
                            if bb_ in reg and kind_ == "assign":
                                v_ = _const_eval(prim._origin_of_def(bf, (bb_, kind_, obj_), 8, {dl}))
                                if isinstance(v_, int):
                                    unit_shift[un.get(lab, lab)] = (dl, v_)
            # the constant is used as a shift amount (or as a divisor)
            locs = {l for l, _ in unit_shift.values()}
            how = None
            for b in bf.reachable():
                for s in bf.blocks[b].stmts:
                    if s.rv is not None and s.rv.k == "bin" and s.rv.j["op"] in ("Shr", "ShrUnchecked", "Div"):
                        o = prim.origin_of_operand(bf, s.rv.ops[1])
                        ol = [y.a.get("local") for y in o.walk() if y.k == "var"] + ([s.rv.ops[1].place.local] if s.rv.ops[1].place is not None else [])
                        ol = [m for l0 in ol if l0 is not None for m in prim.move_chain(bf, l0)]
                        if locs & set(ol):
                            how = s.rv.j["op"]
                t_ = bf.blocks[b].term
                if t_.k == "call" and t_.j.get("callee_name") == "div_ceil" and len(t_.args) == 2 and "u64" in (t_.j.get("callee_inst") or t_.callee or ""):
                    # `byte_size.div_ceil(unit_bytes)`: the constant is the divisor, rounding up is the library's
                    o = prim.origin_of_operand(bf, t_.args[1])
                    ol = [y.a.get("local") for y in o.walk() if y.k == "var"] + ([t_.args[1].place.local] if t_.args[1].place is not None else [])
                    ol = [m for l0 in ol if l0 is not None for m in prim.move_chain(bf, l0)]
                    so_ = prim.origin_of_operand(bf, t_.args[0]).strip()
                    if locs & set(ol) and so_.k == "arg":
                        how = "DivCeil"
            ctx.ob("R4", "unit-constant-role", how is not None and len(locs) == 1, "the per-unit constant must be the shift amount (or divisor) applied to the byte size; found role %s" % how, fn=bf, how="provenance slice")
            for suf, want in UNITS.items():
                us = suffix_unit.get(suf)
                got = None
                if us and len(us) == 1 and us[0] in unit_shift and how is not None:
                    c = unit_shift[us[0]][1]
                    got = (1 << c) if how.startswith("Shr") else c
                ctx.ob("R4", "unit:%s" % (suf or "none"), got == want, "-size suffix %r -> %s -> unit of %s bytes; oracle %d" % (suf, us, got, want), fn=bf, how="suffix table composed with the shift table")
    sm = ctx.fn("R4", C.matcher_impl(M + "size::SizeMatcher", "matches"))
    if sm is not None:
        cm = [(b, t) for b, t in sm.calls() if (t.callee or "").startswith(CV + "::")]
        ok = len(cm) == 1 and cm[0][1].j.get("callee_name") == "matches"
        desc = "?"
        if ok:
            vo = prim.origin_of_operand(sm, cm[0][1].args[1]).strip()
            desc = vo.fmt()
            ok = vo.k == "call" and vo.a["callee"] == M + "size::byte_size_to_unit_size"
            if ok:
                u, sz = [k.strip() for k in vo.kids]
                names = [c.a["name"] for c in sz.call_nodes()]
                ok = u.k == "field" and u.a == "unit" and "len" in names and set(names) <= {"len", "metadata"} and any(c.a["callee"] == M + "entry::WalkEntry::metadata" for c in sz.call_nodes())
        ctx.ob("R4", "size-measures-units-of-len", ok, "-size compares %s; oracle byte_size_to_unit_size(self.unit, record.len())" % desc, fn=sm, how="provenance slice")
    sn = ctx.fn("R4", M + "size::SizeMatcher::new")
    if sn is not None:
        for b in sn.reachable():
            for s in sn.blocks[b].stmts:
                if s.rv is not None and s.rv.k == "agg" and s.rv.j.get("adt") == M + "size::SizeMatcher":
                    names = s.rv.j["fields"]
                    if "unit" not in names or "value_to_match" not in names:
                        ctx.ob("R4", "size-ctor", False, "SizeMatcher has fields %s; the rule knows (unit, value_to_match): the operand stored unchanged and compared per file in units — cannot decide a different representation (fail closed)" % names, fn=sn, where=prim.site(sn, b, s), how="provenance slice")
                        continue
                    uo = prim.origin_of_operand(sn, s.rv.ops[names.index("unit")])
                    vo = prim.origin_of_operand(sn, s.rv.ops[names.index("value_to_match")]).strip()
                    ok = any(c.a["name"] == "parse" for c in uo.call_nodes()) and any(x.k == "arg" and x.a["name"] == "suffix_string" for x in uo.walk()) and vo.k == "arg"
                    ctx.ob("R4", "size-ctor", ok, "SizeMatcher::new stores unit=%s value=%s; oracle: the suffix parsed as Unit, the operand unchanged" % (uo.fmt(), vo.fmt()), fn=sn, where=prim.site(sn, b, s), how="provenance slice")
    if arms:
        a = dispatch.arm_of(arms, "-size")
        if a is not None:
            cs = a.calls_matching("size::SizeMatcher::new")
            ok = len(cs) == 1
            if ok:
                so = prim.origin_of_operand(fn, cs[0][1].args[1])
                vo = prim.origin_of_operand(fn, cs[0][1].args[0])
                ok = any(c.a["callee"] == CONV_S for c in so.call_nodes()) and any(c.a["callee"] == CONV_S for c in vo.call_nodes())
            ctx.ob("R4", "size-suffix-from-operand", ok, "-size must hand the converter's (value, suffix) pair to SizeMatcher::new", fn=fn, where=prim.site(fn, a.entry), how="provenance slice")
    cs = ctx.fn("R4", CONV_S)
    if cs is not None:
        # suffix = capture group 3
        for b in cs.reachable():
            for s in cs.blocks[b].stmts:
                if s.rv is not None and s.rv.k == "agg" and s.rv.j.get("ak") == "tuple" and len(s.rv.ops) == 2:
                    so = prim.origin_of_operand(cs, s.rv.ops[1])
                    ix = [c for c in so.call_nodes() if c.a["name"] == "index"]
                    if ix:
                        ok = ix[0].kids[1].strip().k == "const" and ix[0].kids[1].strip().a.get("v") == 3 and set(c.a["name"] for c in so.call_nodes()) <= {"index", "to_string", "to_owned", "captures", "into", "branch", "new"}
                        ctx.ob("R4", "suffix=group3", ok, "the unit suffix is %s; must be capture group 3 unchanged" % so.fmt(), fn=cs, where=prim.site(cs, b, s), how="provenance slice")
