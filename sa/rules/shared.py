"""Rules shared by several properties (each property that states the clause records its own obligations)."""
from .. import prim
from . import common as C

X = C.X


def sticky_exit_status(ctx, rule):
    """do_find: the exit status is sticky (assigned only from a value tested non-zero), every starting point is
    walked with its own unmodified string, in order; process_dir: matcher exit codes folded the same way."""
    df = ctx.fn(rule, C.DO_FIND)
    if df is None:
        return
    status = None
    for b in df.reachable():
        for s in df.blocks[b].stmts:
            if s.lhs is not None and s.lhs.is_local() and s.lhs.local == 0 and s.rv is not None and s.rv.k == "agg" and s.rv.j.get("variant") == "Ok":
                o = s.rv.ops[0]
                if o.place is not None and o.place.is_local():
                    # through a temp copy
                    oo = prim.origin_of_operand(df, o).strip()
                    if oo.k == "var":
                        status = oo.a.get("local")
    if status is None:
        cands = df.locals_named("ret")
        status = cands[0] if cands else None
    if status is None:
        ctx.missing(rule, "status variable of do_find")
        return
    ws = [d for d in prim.local_defs(df).get(status, []) if d[0] in df.reachable() and d[1] != "partial"]
    for bb, kind, obj in ws:
        o = prim._origin_of_def(df, (bb, kind, obj), 8, {status}).strip()
        if o.k == "const":
            v = o.a.get("v")
            if v == 0:
                ok = df.dominates(bb, _first_call(df, C.PROCESS_DIR))
            else:
                # a failure diagnosed while the command line was read (names in -files0-from that cannot be used): a non-zero
                # constant, assigned after the last walk, only when the status is still 0 and the parse recorded the failure
                pd_blocks = [b for b, t in df.calls() if t.callee == C.PROCESS_DIR]
                after_walks = not any(pb in df.reach_from([bb]) for pb in pd_blocks)
                atoms = prim.norm_guards(prim.dominating_guards(df, bb))
                still_zero = prim.atom_holds(atoms, "eq", lambda x: x.strip().k == "var" and x.strip().a.get("local") == status, lambda y: y.strip().k == "const" and y.strip().a.get("v") == 0) is not None
                flagged = any(at["rel"] == "eq" and any(x.k == "field" and str(x.a) == "files0_invalid_names" for x in at["a"].walk()) and at["b"].strip().a.get("v") is True for at in atoms if at["b"].strip().k == "const")
                ok = isinstance(v, int) and v != 0 and after_walks and still_zero and flagged
            ctx.ob(rule, "status-init", ok, "do_find's status is set to the constant %s at %s; oracle: the initial 0 before the first starting point, or a non-zero constant after the last walk when the status is still 0 and -files0-from recorded unusable names" % (v, prim.site(df, bb, obj)), fn=df, where=prim.site(df, bb, obj), how="local writers + dominating guards")
            continue
        # (a helper `merge(so_far, code)` spliced in: the value written is one of several, each judged where it is chosen;
        #  keeping the status as it is needs no justification)
        alts = _status_alternatives(df, bb, kind, obj, o, status)
        if alts is not None:
            for abb, ao in alts:
                _do_find_sticky_one(ctx, rule, df, abb, obj, ao)
            continue
        _do_find_sticky_one(ctx, rule, df, bb, obj, o)
    ctx.floor(rule, "writers of do_find's status", len(ws), 2)
    _process_dir_sticky(ctx, rule)


def _status_alternatives(f, bb, kind, obj, o, status):
    """[(block, origin)] of the values a status write can take when it is a choice made on the way (None: a plain value)"""
    if o.k != "phi" or kind != "assign" or obj.rv is None or obj.rv.k != "use" or obj.rv.ops[0].place is None or not obj.rv.ops[0].place.is_local():
        return None
    alts = prim.alternatives(f, obj.rv.ops[0].place.local)
    if len(alts) < 2:
        return None
    out = []
    for abb, ao in alts:
        a_ = ao.strip()
        if a_.k == "var" and a_.a.get("local") == status:
            continue
        out.append((abb, a_))
    return out


def _do_find_sticky_one(ctx, rule, df, bb, obj, o):
    if True:
        # must be the result of process_dir, under a guard that it is non-zero
        from_pd = o.k == "call" and o.a["callee"] == C.PROCESS_DIR or (o.k == "var" and df.local_name(o.a.get("local")) == "dir_ret")
        gs = prim.dominating_guards(df, bb)
        nz = False
        for gd in gs:
            pr = gd["pred"].strip()
            if pr.k == "bin" and pr.a in ("Ne", "Eq") and any(c.get("v") == 0 for c in pr.consts()):
                eff_ne = (pr.a == "Ne") == (gd["bool"] is True)
                subj = [k for k in pr.kids if k.strip().k != "const"]
                if eff_ne and subj and _same_value(subj[0].strip(), o):
                    nz = True
            if pr.k in ("var", "call") and gd["bool"] is None and 0 not in gd["labels"] and _same_var(pr, o):
                nz = True       # `match x { 0 => {}, code => ret = code }`
        ctx.ob(rule, "status-sticky", from_pd and nz,
               "do_find assigns its status from %s; it may only take a walk's status when that status is non-zero (a failure under an earlier starting point must not be overwritten by a later success); guards: %s" % (o.fmt(), prim.guards_fmt(gs)),
               fn=df, where=prim.site(df, bb, obj), how="local writers + dominating guard")


def _process_dir_sticky(ctx, rule):
    # process_dir: same for its own status
    pf = ctx.fn(rule, C.PROCESS_DIR)
    if pf is None:
        return
    st = None
    for bb, kind, obj in prim.local_defs(pf).get(0, []):
        if kind == "assign" and obj.rv.k == "use" and obj.rv.ops[0].place is not None and obj.rv.ops[0].place.is_local():
            st = obj.rv.ops[0].place.local
    if st is None:
        ctx.missing(rule, "status variable of process_dir")
        return
    ws = [d for d in prim.local_defs(pf).get(st, []) if d[0] in pf.reachable() and d[1] != "partial"]
    n_fold = 0
    for bb, kind, obj in ws:
        o = prim._origin_of_def(pf, (bb, kind, obj), 8, {st}).strip()
        if o.k == "const":
            v = o.a.get("v")
            if v == 0:
                ok = not any(bb in pf.reach_from([nb]) for nb, t in pf.calls() if C.walk_role(t) == "next")
                ctx.ob(rule, "walk-status-init", ok, "process_dir resets its status to 0 inside the walk loop", fn=pf, where=prim.site(pf, bb, obj), how="reachability")
            continue
        alts = _status_alternatives(pf, bb, kind, obj, o, st) or [(bb, o)]
        from_ec, nz, gs = True, True, []
        for abb, ao in alts:
            from_ec = from_ec and any(c.endswith("MatcherIO::<'_>::exit_code") for c in ao.callees())
            gs = prim.dominating_guards(pf, abb)
            nz1 = False
            for gd in gs:
                pr = gd["pred"].strip()
                if pr.k == "call" and pr.a["callee"].endswith("MatcherIO::<'_>::exit_code") and 0 not in gd["labels"]:
                    nz1 = True
                if pr.k == "bin" and pr.a in ("Ne", "Eq") and any(c.get("v") == 0 for c in pr.consts()) and any(c.endswith("exit_code") for c in pr.callees()):
                    if (pr.a == "Ne") == (gd["bool"] is True):
                        nz1 = True
            nz = nz and nz1
        n_fold += 1
        ctx.ob(rule, "walk-status-sticky", from_ec and nz, "process_dir assigns its status from %s; only a non-zero matcher exit code may be folded in; guards: %s" % (o.fmt(), prim.guards_fmt(gs)), fn=pf, where=prim.site(pf, bb, obj), how="local writers + dominating guard")
    ctx.floor(rule, "exit-code folds in process_dir", n_fold, 2)


def _first_call(f, callee):
    for b, t in sorted(f.calls()):
        if t.callee == callee:
            return b
    return 0


def _same_value(a, b):
    a, b = a.strip(), b.strip()
    if a.k == "call" and b.k == "call":
        return a.a.get("bb") == b.a.get("bb") and a.a.get("callee") == b.a.get("callee")
    if a.k == "var" and b.k == "var":
        return a.a.get("local") == b.a.get("local")
    return a.fmt() == b.fmt()


def _same_var(a, b):
    va = [x.a.get("local") for x in a.walk() if x.k == "var"]
    vb = [x.a.get("local") for x in b.walk() if x.k == "var"]
    return bool(va) and va == vb


def cost_model(ctx, rule):
    """count_osstr_chars_for_exec(s) = s.as_bytes().len() + 1 (bytes, plus the terminator)"""
    f = ctx.fn(rule, X + "count_osstr_chars_for_exec")
    if f is None:
        return
    o = prim.origin_of_local(f, 0).strip()
    core = o
    if core.k == "field" and core.kids and core.kids[0].strip().k == "bin":
        core = core.kids[0].strip()
    ok = core.k == "bin" and core.a in ("Add", "AddWithOverflow") and any(c.get("v") == 1 for c in core.consts())
    ln = [k.strip() for k in core.kids if k.strip().k in ("call", "len")] if ok else []
    ok = ok and len(ln) == 1
    if ok:
        l = ln[0]
        names = [c.split("::")[-1] for c in l.callees()]
        is_len = (l.k == "len") or (l.k == "call" and l.a["name"] == "len")
        ok = is_len and "as_bytes" in names + ([l.kids[0].strip().a["name"]] if l.kids and l.kids[0].strip().k == "call" else []) and not any(n in names for n in ("to_string_lossy", "chars", "count", "to_str", "encode_wide", "len_utf8"))
        ok = ok and any(x.k == "arg" for x in l.walk())
    ctx.ob(rule, "cost=bytes+1", ok, "the per-argument charge must be the argument's length in *bytes* plus one terminator (execve copies bytes; -s is a byte budget); found %s" % o.fmt(), fn=f, how="provenance slice of the return value")


def regex_validated_as_written(ctx, rule):
    """-regex/-iregex: when the pattern handed to the engine is *derived* from the operand (wrapped in a group, anchored),
    the operand itself must first be compiled as written, in the selected syntax, and its failure must be the
    constructor's failure. A wrapper can repair a malformed operand: `.*\\)\\(a` inside `\\(?:...\\)` is balanced."""
    prog = ctx.prog
    nf = prog.fns.get(C.M + "regex::RegexMatcher::new") if hasattr(C, "M") else None
    if nf is None:
        nf = next((f for p, f in prog.fns.items() if p.endswith("find::matchers::regex::RegexMatcher::new")), None)
    if nf is None:
        ctx.missing(rule, "RegexMatcher::new")
        return
    wo = [(b, t) for b, t in nf.calls() if (t.callee or "").startswith("onig::Regex::with_options") or (t.callee or "").startswith("onig::Regex::new")]
    raw, derived = [], []
    for b0, t0 in wo:
        po0 = prim.expand_single_def_vars(nf, prim.origin_of_operand(nf, t0.args[0])).strip()
        (raw if po0.k == "arg" and po0.a["name"] == "pattern" else derived).append((b0, t0))
    if not derived:
        return      # the operand itself is what gets compiled: nothing to validate separately
    ok = False
    why = "%d compile(s) of the operand as written" % len(raw)
    for rb, rt in raw:
        nxt = nf.blocks[rt.target].term if rt.target is not None else None
        propagated = nxt is not None and nxt.k == "call" and nxt.j.get("callee_name") == "branch"
        if not propagated:
            # `match`/`if let Err(e) = ... { return Err(..) }`: the Err edge of a switch on the result returns
            propagated = any(gd["pred"].strip().k == "discr" and any(cn.a.get("bb") == rb for cn in gd["pred"].call_nodes()) for b2, _ in derived for gd in prim.dominating_guards(nf, b2))
        same_syntax = True
        if len(rt.args) >= 3 and derived and len(derived[0][1].args) >= 3:
            # the syntax argument of the validation is not the one that was extended for the wrapper
            so = prim.origin_of_operand(nf, rt.args[2])
            same_syntax = not any(cn.a["name"] in ("enable_operators", "set_operators") for cn in so.call_nodes())
        if propagated and same_syntax and all(nf.dominates(rb, b2) for b2, _ in derived) and rt.j.get("callee_name") == "with_options":
            ok = True
        else:
            why += "; the one at %s is %s" % (prim.site(nf, rb), "not propagated" if not propagated else "not before the derived compile / not in the selected syntax")
    ctx.ob(rule, "regex-operand-validated-as-written", ok,
           "RegexMatcher::new hands a derived pattern to the engine (%s) with %s; a wrapper can repair a malformed operand (`.*\\)\\(a` inside `\\(?:...\\)\\'` is balanced), "
           "so the operand must be compiled as written in the selected syntax first and its error returned" % ([prim.origin_of_operand(nf, t.args[0]).fmt()[:60] for _, t in derived], why),
           fn=nf, where=prim.site(nf, derived[0][0]), how="compile sites + dominance + `?` propagation")
