"""Shared anchors and helpers for the rule modules."""
from .. import dispatch, prim

M = "findutils::find::matchers::"
MATCHER_TRAIT = M + "Matcher"
BMT = M + "build_matcher_tree"
BTLM = M + "build_top_level_matcher"
PROCESS_DIR = "findutils::find::process_dir"
DO_FIND = "findutils::find::do_find"
PARSE_ARGS = "findutils::find::parse_args"
FIND_MAIN = "findutils::find::find_main"
X = "findutils::xargs::"


def matcher_impl(ty, method):
    return "<%s as %s>::%s" % (ty, MATCHER_TRAIT, method)


def parser_arms(ctx, rule):
    """(fn, dispatch, arms, info) of the primary-token dispatch of the expression parser (cached)"""
    c = getattr(ctx, "_parser_arms", None)
    if c is not None:
        return c
    fn = ctx.prog.fns.get(BMT)
    if fn is None:
        # role-based fallback: the function comparing a str against the largest number of literals
        best = None
        for f in ctx.prog.fns.values():
            n = len(prim.str_tests(f))
            if n >= 40 and (best is None or n > best[0]):
                best = (n, f)
        fn = best[1] if best else None
    if fn is None:
        ctx.missing(rule, "expression parser (function with >= 40 string-literal tests)")
        ctx._parser_arms = (None, None, None, None)
        return ctx._parser_arms
    ctx.analysed_fns.add(fn.path)
    d, arms, info = dispatch.primary_dispatch(ctx, rule, fn, "possible_submatcher", min_lits=40)
    ctx._parser_arms = (fn, d, arms, info)
    return ctx._parser_arms


def matcher_types(ctx):
    """self type -> {method name -> Function} for every `impl Matcher for T` in the lib"""
    out = {}
    for imp in ctx.prog.impls_of_trait(MATCHER_TRAIT):
        ms = {}
        for it in imp["items"]:
            if it["def"] in ctx.prog.fns:
                ms[it["name"]] = ctx.prog.fns[it["def"]]
        out[imp["self_ty"]] = ms
    return out


def const_return(fn):
    """the set of constant values assigned to _0 on reachable blocks, and whether any non-const assignment exists"""
    vals = set()
    nonconst = False
    r = fn.reachable()
    for bb, kind, obj in prim.local_defs(fn).get(0, []):
        if bb not in r:
            continue
        if kind == "assign" and obj.rv is not None and obj.rv.k == "use" and obj.rv.ops[0].kind == "const":
            vals.add(obj.rv.ops[0].const_value())
        else:
            nonconst = True
    return vals, nonconst


def edges_str(edges):
    return "; ".join("%s -[%s]-> %s" % e for e in edges)


def diff_edges(got, want):
    got = set(map(tuple, got))
    want = set(map(tuple, want))
    return sorted(got - want), sorted(want - got)


def simulate(g, assignment, max_steps=400, edges=None, start="ENTRY", stop=None):
    """Walk an EventGraph from ENTRY choosing, at each event node, the outgoing edge compatible with
    assignment[role]: a bool (True='else'/non-zero side, False='0'), an int/str (first label component),
    or a callable(label)->bool. Nodes with a single unlabelled edge are passed through. Returns the list
    of visited node names ending in RET(..), or None when stuck/ambiguous."""
    canon_edges = edges if edges is not None else g.canon()
    out = {}
    for a, l, b in canon_edges:
        out.setdefault(a, []).append((l, b))
    cur = start
    trace = []
    for _ in range(max_steps):
        trace.append(cur)
        if cur.startswith("RET(") or (stop is not None and stop(cur)):
            return trace
        es = out.get(cur, [])
        if not es:
            return None
        if len(es) == 1 and es[0][0] == "":
            cur = es[0][1]
            continue
        role = cur.split("#")[0]
        want = assignment.get(cur, assignment.get(role))
        picks = []
        for l, b in es:
            first = l.split(",")[0]
            if callable(want):
                if want(l):
                    picks.append(b)
            elif want is True and first == "else":
                picks.append(b)
            elif want is False and first == "0":
                picks.append(b)
            elif not isinstance(want, bool) and want is not None and (first == str(want) or l == str(want)):
                picks.append(b)
        picks = sorted(set(picks))
        if len(picks) != 1:
            return None
        cur = picks[0]
    return None


# ---------------------------------------------------------------------------------------------
# process_dir (the walk loop) as an event graph, shared by C01/C02/C03/C08
# ---------------------------------------------------------------------------------------------

def walk_role(t):
    c = t.callee or ""
    n = t.j.get("callee_name")
    inst = t.j.get("callee_inst") or ""
    if n == "next" and "walkdir::IntoIter" in inst:
        return "next"
    if c.endswith("WalkEntry::from_walkdir"):
        return "from_walkdir"
    if c == MATCHER_TRAIT + "::matches":
        return "matches"
    if c == MATCHER_TRAIT + "::finished_dir":
        return "finished_dir"
    if c == MATCHER_TRAIT + "::finished":
        return "finished"
    if c.endswith("::should_skip_current_dir"):
        return "should_skip"
    if c == "walkdir::IntoIter::skip_current_dir":
        return "skip"
    if c.endswith("::should_quit"):
        return "should_quit"
    if c.endswith("MatcherIO::<'_>::new"):
        return "io_new"
    if c.endswith("MatcherIO::<'_>::exit_code"):
        return "exit_code"
    if n == "take" and "entry::WalkEntry>" in inst and inst.startswith("std::option::Option"):
        return "deferred_take"          # an entry that was held back (starting point under -depth) is fetched
    return None


def walk_stmt_role(fn, bb, s):
    """`slot = Some(entry)`: an entry is held back instead of being evaluated now"""
    if s.lhs is None or not s.lhs.is_local() or fn.local_name(s.lhs.local) is None or s.rv is None or not fn.local_ty(s.lhs.local).endswith("entry::WalkEntry>"):
        return None
    rv = s.rv
    if rv.k == "agg" and rv.j.get("adt") == "std::option::Option" and rv.j.get("variant") == "Some":
        return "stash"
    if rv.k == "use" and rv.ops and rv.ops[0].place is not None:
        o = prim.origin_of_operand(fn, rv.ops[0]).strip()
        if o.k == "agg" and str(o.a).endswith("Option::Some"):
            return "stash"
    return None


def walk_branch_role(fn, bb, o):
    """the range filter `entry.depth() <cmp> config.min_depth` is an event of the walk loop"""
    if o is None:
        return None
    o = o.strip()
    if o.k == "bin" and o.a in ("Gt", "Lt", "Ge", "Le"):
        has_depth = any(c.endswith("WalkEntry::depth") for c in o.callees())
        has_min = any(x.k == "field" and x.a in ("min_depth", "max_depth") for x in o.walk())
        if has_depth and has_min:
            return "depth_filter"
    return None


def walk_graph(ctx, rule):
    c = getattr(ctx, "_walk_graph", None)
    if c is not None:
        return c
    f = ctx.fn(rule, PROCESS_DIR)
    if f is None:
        ctx._walk_graph = (None, None)
        return ctx._walk_graph
    g = prim.event_graph(f, walk_role, branch_role=walk_branch_role, stmt_role=walk_stmt_role)
    ctx._walk_graph = (f, g)
    return ctx._walk_graph


def base(n):
    return n.split("#")[0]


class G:
    """convenience view on canonical event-graph edges"""

    def __init__(self, g):
        self.edges = g.canon()
        self.out = {}
        for a, l, b in self.edges:
            self.out.setdefault(a, []).append((l, b))

    def nodes(self, role):
        ns = set()
        for a, l, b in self.edges:
            for n in (a, b):
                if base(n) == role:
                    ns.add(n)
        return sorted(ns)

    def succ(self, node, label_first=None):
        """successor nodes of `node` whose label's first component is label_first (None = all)"""
        return [b for l, b in self.out.get(node, []) if label_first is None or l.split(",")[0] == label_first]

    def reach(self, starts, stop_roles=()):
        """nodes reachable from the given nodes (inclusive of successors only), not expanding stop roles"""
        seen = set()
        st = [x for x in starts if base(x) not in stop_roles]
        while st:
            n = st.pop()
            for l, b in self.out.get(n, []):
                if b not in seen:
                    seen.add(b)
                    if base(b) not in stop_roles:
                        st.append(b)
        return seen

    def fmt(self):
        return edges_str(self.edges)


# ---------------------------------------------------------------------------------------------
# clauses stated by several properties: run the owning module once per program and copy its obligations
# ---------------------------------------------------------------------------------------------

def import_rules(ctx, prop, rules, as_rule, key_prefix=None):
    """Run the rule module of `prop` (cached per program) and record the obligations of its rules `rules`
    (e.g. ["R5"]) in ctx under rule `as_rule`. Returns the number of obligations copied."""
    import importlib
    from ..engine import Ctx
    cache = ctx.prog.__dict__.setdefault("_subctx", {})
    sub = cache.get(prop)
    if sub is None:
        sub = Ctx(prop, ctx.prog, ctx.tier)
        if prop == ctx.prop:
            raise RuntimeError("import_rules: a property cannot import itself")
        cache[prop] = sub          # set before running: breaks import cycles (a cycle sees the partial context)
        mod = importlib.import_module("sa.rules.%s" % prop.lower())
        mod.run(sub)
    want = {"%s.%s" % (prop, r) for r in rules}
    n = 0
    for o in sub.obs:
        if o.rule in want:
            k = "%s:%s" % (key_prefix or o.rule, o.key)
            ctx.ob(as_rule, k, o.ok, o.msg, where=o.where, how=o.how, nontrivial=o.nontrivial)
            ctx.obs[-1].fn = o.fn
            if o.fn:
                ctx.analysed_fns.add(o.fn)
            n += 1
    if n == 0:
        ctx.ob(as_rule, "imported:%s" % ",".join(sorted(want)), False, "no obligations produced by %s (fail closed)" % sorted(want))
    return n


# ---------------------------------------------------------------------------------------------
# role-based lookup of user variables (a renamed local must not raise an alarm)
# ---------------------------------------------------------------------------------------------

def find_local(fn, name, ty=None, pred=None):
    """indices of the user local called `name`; when no local has that name, the user locals selected by role:
    exact/suffix type `ty` and/or predicate pred(fn, local). Returns [] when the role is ambiguous (> 1 candidates
    unless the type makes them interchangeable for the caller)."""
    ls = fn.locals_named(name)
    if ls:
        return ls
    cands = []
    for i, l in enumerate(fn.locals):
        if l.get("name") is None or i <= fn.arg_count and False:
            continue
        t = l["ty"]
        if ty is not None and not (t == ty or (not ty.startswith("std::") and t.endswith(ty) and not t.startswith("&"))):
            continue
        if pred is not None and not pred(fn, i):
            continue
        cands.append(i)
    return cands if len(cands) == 1 else []


def scan_index(fn, name="i"):
    """the index variable of an argument-scanning loop: by name, else the usize user local that indexes a `&[&str]`
    parameter most often"""
    ls = fn.locals_named(name)
    ls = [l for l in ls if fn.local_ty(l) == "usize"]
    if ls:
        return ls
    cnt = {}
    for b in fn.reachable():
        for s in fn.blocks[b].stmts:
            if s.rv is None:
                continue
            pls = [o.place for o in s.rv.ops if o.place is not None]
            if s.rv.place is not None:
                pls.append(s.rv.place)
            for p in pls:
                for e in p.proj:
                    if isinstance(e, dict) and "idx" in e:
                        # the index temp is a copy of a user local
                        for d in prim.local_defs(fn).get(e["idx"], []):
                            if d[1] == "assign" and d[2].rv is not None and d[2].rv.k == "use" and d[2].rv.ops[0].place is not None:
                                src = d[2].rv.ops[0].place.local
                                if fn.local_name(src) is not None and fn.local_ty(src) == "usize":
                                    cnt[src] = cnt.get(src, 0) + 1
    # `args.get(i)` in place of `args[i]`
    for b, t in fn.calls():
        if t.j.get("callee_name") in ("get", "get_unchecked") and len(t.args) == 2 and "slice" in (t.callee or "") and t.args[1].place is not None and t.args[1].place.is_local():
            src = prim.user_local_behind(fn, t.args[1])
            recv = prim.origin_of_operand(fn, t.args[0]).strip()
            if src is not None and fn.local_ty(src) == "usize" and any(x.k == "arg" for x in recv.walk()):
                cnt[src] = cnt.get(src, 0) + 1
    if not cnt:
        return []
    best = max(cnt.items(), key=lambda kv: kv[1])
    return [best[0]]


def bool_flag_with_both_constants(fn, l):
    """a flag: a `mut` bool that is assigned both constants (an explaining variable bound once — `let both = a && b;` — gets
    both constants from the short-circuit as well, but it is not `mut`)"""
    vals = {v for _, v in prim.const_assigns_to(fn, l)}
    return fn.local_ty(l) == "bool" and vals == {True, False} and bool(fn.locals[l].get("mut"))


def quit_flag_local(df):
    """do_find's quit flag: the user local whose `&mut` is the last argument of the process_dir call"""
    for b, t in df.calls():
        if t.callee == PROCESS_DIR and t.args:
            l = prim.user_local_behind(df, t.args[-1])
            if l is not None and df.local_ty(l) == "bool":
                return l
    return None


def is_err_ret(x):
    """an event-graph return node carrying the failure variant: `return Err(..)`, `Err(..)?`, `x?` all look alike"""
    x = str(x)
    return x.startswith("RET(agg:Result::Err") or x.startswith("RET(call:FromResidual") or x.startswith("RET(agg:Option::None")


def token_at_offset(fn, o):
    """k when `o` is the command-line token k places after the scan position — `args[i + k]`, or the same token obtained
    with `args.get(i + k)` (its Some payload, possibly handed on through Ok/`?`) — else None; 0 for `args[i]`"""
    s = prim.renorm(prim.expand_single_def_vars(fn, o, depth=5)).strip()
    for _ in range(7):
        if s.k == "field" and str(s.a) == "0" and s.kids and s.kids[0].strip().k == "variant":
            s = s.kids[0].strip()
        if s.k == "variant" and str(s.a) in ("Some", "Ok", "Continue") and s.kids:
            s = s.kids[0].strip()
            continue
        if s.k == "agg" and str(s.a).endswith(("Result::Ok", "Option::Some")) and len(s.kids) == 1:
            s = s.kids[0].strip()
            continue
        if s.k == "call" and s.a["name"] in ("copied", "cloned", "ok_or", "ok_or_else", "as_deref") and s.kids and str(s.a.get("callee", "")).startswith(("std::option::Option", "core::option::Option")):
            s = s.kids[0].strip()          # `args.get(k).copied().ok_or_else(..)?`: the same token, or the failure
            continue
        break
    idx = None
    if s.k == "index" and len(s.kids) == 2 and any(x.k == "arg" and x.a.get("name") == "args" for x in s.kids[0].walk()):
        idx = s.kids[1].strip()
    elif s.k == "call" and s.a["name"] in ("index", "get", "get_unchecked") and len(s.kids) == 2 and any(x.k == "arg" and x.a.get("name") == "args" for x in s.kids[0].walk()):
        idx = s.kids[1].strip()
    if idx is None:
        return None
    core = idx.kids[0].strip() if idx.k == "field" and idx.kids else idx
    if core.k == "var":
        return 0
    if core.k == "bin" and core.a in ("Add", "AddWithOverflow", "AddUnchecked"):
        ks = [x.get("v") for x in core.consts() if isinstance(x.get("v"), int)]
        if len(ks) == 1 and any(x.k == "var" for x in core.walk()):
            return ks[0]
    return None


def _index_core(fn, o):
    """(cursor-variable leaf, constant offset) of the command-line token `o` denotes — `args[i + k]`, `args[i - k]`,
    `args.get(i + k)`'s payload (possibly handed on through Ok/`?`) — else None"""
    s = prim.renorm(prim.expand_single_def_vars(fn, o, depth=5)).strip()
    for _ in range(7):
        if s.k == "field" and str(s.a) == "0" and s.kids and s.kids[0].strip().k == "variant":
            s = s.kids[0].strip()
        if s.k == "variant" and str(s.a) in ("Some", "Ok", "Continue") and s.kids:
            s = s.kids[0].strip()
            continue
        if s.k == "agg" and str(s.a).endswith(("Result::Ok", "Option::Some")) and len(s.kids) == 1:
            s = s.kids[0].strip()
            continue
        if s.k == "call" and s.a["name"] in ("copied", "cloned", "ok_or", "ok_or_else", "as_deref") and s.kids and str(s.a.get("callee", "")).startswith(("std::option::Option", "core::option::Option")):
            s = s.kids[0].strip()          # `args.get(k).copied().ok_or_else(..)?`: the same token, or the failure
            continue
        break
    idx = None
    if s.k == "index" and len(s.kids) == 2 and any(x.k == "arg" and x.a.get("name") == "args" for x in s.kids[0].walk()):
        idx = s.kids[1].strip()
    elif s.k == "call" and s.a["name"] in ("index", "get", "get_unchecked") and len(s.kids) == 2 and any(x.k == "arg" and x.a.get("name") == "args" for x in s.kids[0].walk()):
        idx = s.kids[1].strip()
    if idx is None:
        return None
    core = idx.kids[0].strip() if idx.k == "field" and idx.kids else idx
    call_bb = s.bb if s.k == "call" else None
    if core.k == "var":
        return core, 0, call_bb
    if core.k == "bin" and core.a in ("Add", "AddWithOverflow", "AddUnchecked", "Sub", "SubWithOverflow", "SubUnchecked") and len(core.kids) == 2:
        a0, a1 = core.kids[0].strip(), core.kids[1].strip()
        sub = core.a.startswith("Sub")
        if a0.k == "var" and a1.k == "const" and isinstance(a1.a.get("v"), int):
            return a0, (-a1.a["v"] if sub else a1.a["v"]), call_bb
        if not sub and a1.k == "var" and a0.k == "const" and isinstance(a0.a.get("v"), int):
            return a1, a0.a["v"], call_bb
    return None


def arm_token_abs(fn, arm, o, use_bb):
    """Position, counted from the arm's own token (0), of the command-line token that `o` denotes when it is evaluated:
    `args[i]` after one dominating `i += 1` of the arm is 1, `args[i - 1]` there is 0, `args.get(i + 1)` before any
    increment is 1. The cursor may be read through a copy made earlier (the argument of a spliced helper). None when
    `o` is not a token of `args`, when the arm moves the cursor other than by constant steps, or when a step may or may
    not have happened at the point of evaluation."""
    r = _index_core(fn, o)
    if r is None:
        return None
    leaf, k, call_bb = r
    L = leaf.a.get("local")
    if L is None:
        return None
    eval_bb = call_bb if call_bb is not None else use_bb
    # an unnamed copy of the cursor: evaluated where the copy was made
    for _ in range(4):
        if fn.local_name(L) is not None:
            break
        defs = [d for d in prim.local_defs(fn).get(L, []) if d[1] != "partial"]
        if len(defs) != 1 or defs[0][1] != "assign":
            return None
        rv = defs[0][2].rv
        if rv is None or rv.k not in ("use", "copy_for_deref") or not rv.ops or rv.ops[0].place is None or not rv.ops[0].place.is_local():
            return None
        eval_bb = defs[0][0]
        L = rv.ops[0].place.local
    if fn.local_name(L) is None:
        return None
    shift = 0
    for wb, kind, obj in arm.local_writes(L):
        if kind != "assign":
            return None
        wo = prim._origin_of_def(fn, (wb, kind, obj), 6, set()).strip()
        core = wo.kids[0].strip() if wo.k == "field" and wo.kids else wo
        step = None
        if core.k == "bin" and core.a in ("Add", "AddWithOverflow", "AddUnchecked") and len(core.kids) == 2:
            a0, a1 = core.kids[0].strip(), core.kids[1].strip()
            if a0.k == "var" and a0.a.get("local") == L and a1.k == "const" and isinstance(a1.a.get("v"), int):
                step = a1.a["v"]
        if step is None:
            return None
        if fn.dominates(wb, eval_bb):
            shift += step
        elif eval_bb in fn.reach_from([wb]) and eval_bb in arm.blocks:
            # (a step on some paths only; steps of an earlier loop iteration do not count: the arm is entered afresh)
            inside = set(arm.blocks)
            seen, st = {wb}, [wb]
            while st:
                x = st.pop()
                for y in fn.succs(x):
                    if y in inside and y not in seen and y != arm.entry:
                        seen.add(y)
                        st.append(y)
            if eval_bb in seen:
                return None
    return shift + k


def token_predicate(fn, arm, o, use_bb, tok):
    """Value, for the primary `tok`, of a flag computed from the arm's own token: a constant, `args[i].starts_with(lit)`,
    `args[i] == lit`, `args[i] != lit`, their negation — with `args[i]` shown to be the arm's own token at the point where
    it is read (arm_token_abs == 0). None when the flag is anything else."""
    s = prim.expand_single_def_vars(fn, o, depth=4).strip()
    if s.k == "const" and isinstance(s.a.get("v"), bool):
        return s.a["v"]
    if s.k == "un" and str(s.a) == "Not" and s.kids:
        v = token_predicate(fn, arm, s.kids[0], use_bb, tok)
        return None if v is None else (not v)
    if s.k == "call" and s.a["name"] in ("starts_with", "ends_with", "eq", "ne") and len(s.kids) == 2:
        subj, lit = s.kids[0], prim.resolve_promoted(fn, s.kids[1]).strip()
        if lit.k != "const" or not isinstance(lit.a.get("v"), str):
            subj, lit = s.kids[1], prim.resolve_promoted(fn, s.kids[0]).strip()
            if s.a["name"] in ("starts_with", "ends_with") or lit.k != "const" or not isinstance(lit.a.get("v"), str):
                return None
        if arm_token_abs(fn, arm, subj, s.bb if s.bb is not None else use_bb) != 0:
            return None
        v = lit.a["v"]
        return {"starts_with": tok.startswith(v), "ends_with": tok.endswith(v), "eq": tok == v, "ne": tok != v}[s.a["name"]]
    return None


def arm_blocks_for_token(fn, arm, tok):
    """the blocks of a (possibly shared) parser arm that can run for the primary `tok`: where the arm tells its tokens
    apart again (`"-type" | "-xtype" => { let x = args[i] == "-xtype"; .. if x {..} else {..} }`), only the side that the
    test selects for `tok` is followed; every other branch is followed on both sides"""
    feas, st, bridge = set(), [arm.entry], set()
    while st:
        b = st.pop()
        if b in feas or b in bridge:
            continue
        if b not in arm.blocks:
            # (an arm that was split per token leaves out the switch on the inner string test: one block is stepped over)
            bridge.add(b)
            st.extend(x for x in fn.succs(b) if x in arm.blocks)
            continue
        feas.add(b)
        t = fn.blocks[b].term
        nxt = fn.succs(b)
        if t.k == "switch" and fn.local_ty(t.discr.place.local if t.discr is not None and t.discr.place is not None and t.discr.place.is_local() else -1) == "bool":
            v = token_predicate(fn, arm, prim.switch_pred(fn, b), b, tok)
            if v is not None:
                nxt = [tgt for lab, tgt in prim.switch_edges(fn, b) if (lab == 0) == (not v)]
        st.extend(nxt)
    return feas


def alternatives_for_token(fn, arm, o, tok):
    """the values `o` can have when the arm runs for `tok`: a variable assigned on several paths of the arm stands for
    the definitions made in blocks that run for this token"""
    feas = arm_blocks_for_token(fn, arm, tok)
    s = o.strip()
    if s.k == "phi":
        return [k for k in s.kids if k.bb is None or k.bb in feas]
    if s.k == "var" and s.a.get("local") is not None and not s.a.get("is_arg") and s.a["local"] not in prim.mut_borrowed(fn):
        ds = prim.alternatives(fn, s.a["local"])
        if ds:
            return [od for bb, od in ds if bb in feas]
    return [o]
