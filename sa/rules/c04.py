"""C04 — xargs batching: order-preserving, lossless, within -n/-L/-s, maximal."""
import itertools

from .. import prim
from . import common as C
from . import shared

X = C.X
META = {
    "explanation": "R1 limiter protocol: in every impl of CommandSizeLimiter::try_arg all writes to self are dominated by the Ok edge of cursor.try_next and the locally built refusal carries the same argument; every counting limiter (-n, -L) is registered before any size limiter (the first refusal decides out_of_chars, which -x acts on); "
                   "R2 guarded increment: (initial value, comparison, increment, refusal edge) of each limiter vs the oracle table; the -s cost is computed once and is the value compared and added; "
                   "R3 linear handling: Argument is neither Clone nor Copy, is constructed only by the readers / for initial arguments, CommandBuilder::execute consumes the builder, every batch starts from a clone of the template limiters, extra_args only grows by push; "
                   "R6 which arguments end an input line (terminator flag writers of the default reader: a line ending in a blank continues); R4 initial arguments charged once, passed first and unchanged, and every part of the action that execute puts on the command line is a part that CommandBuilderOptions::new offered to the limiters; R5 process_input decision graph simulated against the reference flush-and-retry loop on every assignment of its atoms (refill/accept/refuse/-x/-r/pending/child result)",
    "decides": "the batching protocol on every path: no argument dropped, duplicated or reordered by the loop, limits checked before state updates, refusal only on the failing side of the limit comparison",
    "does_not_decide": "numeric maximality across interacting limiters for concrete lengths; that the -s cost equals what the OS charges (C06)",
}

LIMITERS = {
    X + "MaxArgsCommandSizeLimiter": {"counter": "current_args", "bound": "max_args", "init": 0, "cmp": "Lt", "count_if": ("ne", "Initial")},
    X + "MaxLinesCommandSizeLimiter": {"counter": "current_line", "bound": "max_lines", "init": 1, "cmp": "Le", "count_if": ("eq", "HardTerminated")},
    X + "MaxCharsCommandSizeLimiter": {"counter": "current_size", "bound": "max_chars", "init": 0, "cmp": "Le", "size": True},
}
TRAIT = X + "CommandSizeLimiter"


def proc_role(t):
    c = t.callee or ""
    if c == X + "ArgumentReader::next":
        return "read"
    if c.endswith("CommandBuilder::<'_>::add_arg"):
        return "add_arg"
    if c.endswith("CommandBuilder::<'_>::execute"):
        return "execute"
    if c.endswith("CommandBuilder::<'_>::new"):
        return "new_builder"
    if c.endswith("CommandResult::combine"):
        return "combine"
    return None


def proc_brole(fn, bb, o):
    o = o.strip()
    if o.k == "var" and o.a.get("name"):
        if fn.local_ty(o.a["local"]) == "bool" and C.bool_flag_with_both_constants(fn, o.a["local"]):
            return "flag:have_pending_command"          # canonical role name of the only set-once flag of the loop
        return "flag:" + o.a["name"]
    if o.k == "field":
        return "opt:" + o.a
    if o.k == "call" and o.a["name"] in ("is_some", "is_none"):
        k = o.kids[0].strip()
        return o.a["name"] + ":" + (k.a if k.k == "field" else "?")
    if o.k == "un" and o.a == "Not" and o.kids[0].strip().k == "field":
        return "not_opt:" + o.kids[0].strip().a
    return None


def process_graph(ctx, rule):
    c = getattr(ctx, "_proc_graph", None)
    if c is not None:
        return c
    f = ctx.fn(rule, X + "process_input")
    if f is None:
        ctx._proc_graph = (None, None)
        return ctx._proc_graph
    g = prim.event_graph(f, proc_role, branch_role=proc_brole)
    ctx._proc_graph = (f, g)
    return ctx._proc_graph


def reference_process_input(a):
    """Reference semantics of one pass through the xargs main loop, as a list of event roles.
    a: dict of atom -> value. Returns the expected sequence of (role) up to the next read or the return."""
    seq = []
    rd = a["read"]
    if rd == "err":
        return seq + ["RET:residual"]
    if rd == "some":
        seq.append("add_arg")
        if a["add0"]:
            return seq + ["read"]
        if a["out_of_chars"] and a["exit_flag"] and (a["max_args"] or a["max_lines"]):
            return seq + ["RET:err"]
        if a["pending"]:
            seq.append("execute")
            if not a["exec0"]:
                return seq + ["RET:residual"]
            seq.append("combine")
        seq.append("new_builder")
        seq.append("add_arg")
        if not a["add1"]:
            return seq + ["RET:err"]
        return seq + ["read"]
    # end of input
    if (not a["no_run_if_empty"]) or a["pending"]:
        seq.append("execute")
        if not a["exec1"]:
            return seq + ["RET:residual"]
        seq.append("combine")
        return seq + ["RET:ok"]
    return seq + ["RET:ok"]


def run(ctx):
    prog = ctx.prog
    # ---- R1 / R2 per limiter -----------------------------------------------------------------------
    impls = prog.trait_method_impls(TRAIT, "try_arg")
    ctx.floor("R1", "impls of CommandSizeLimiter::try_arg", len(impls), 3)
    for f in impls:
        ctx.analysed_fns.add(f.path)
        ty = f.impl_self
        spec = LIMITERS.get(ty)
        short = ty.split("::")[-1]
        tn = [(b, t) for b, t in f.calls() if (t.callee or "").endswith("LimiterCursor::<'_>::try_next")]
        ctx.ob("R1", "asks-rest:%s" % short, len(tn) == 1, "%s::try_arg must ask the remaining limiters exactly once (cursor.try_next); found %d call(s)" % (short, len(tn)), fn=f, how="call sites")
        if len(tn) != 1:
            continue
        tb, tt = tn[0]
        # the argument offered to the rest is the one received
        o = prim.origin_of_operand(f, tt.args[1]).strip()
        ctx.ob("R1", "same-arg-forwarded:%s" % short, o.k == "arg" and o.a["name"] == "arg", "try_next receives %s; must be the offered argument unchanged" % o.fmt(), fn=f, where=prim.site(f, tb), how="provenance slice")
        # writes to self
        writes = []
        for b in f.reachable():
            for s in f.blocks[b].stmts:
                if s.lhs is not None and s.lhs.local == 1 and "*" in s.lhs.proj and s.lhs.field_names():
                    writes.append((b, s))
        for b, s in writes:
            gs = prim.dominating_guards(f, b)
            ok = False
            for gd in gs:
                pr = gd["pred"].strip()
                if pr.k == "discr" and any(c.endswith("::try_next") for c in pr.callees()) and gd["labels"] == [0]:
                    ok = True
            ctx.ob("R1", "update-after-acceptance:%s.%s" % (short, s.lhs.field_names()[-1]), ok,
                   "write to self.%s must be dominated by the Ok edge of cursor.try_next (a limiter may update its own state only after every other limiter accepted the argument); guards: %s" % (s.lhs.field_names()[-1], prim.guards_fmt(gs)),
                   fn=f, where=prim.site(f, b, s), how="dominating guard")
        if spec is None:
            ctx.ob("R2", "unknown-limiter:%s" % short, False, "limiter %s has no oracle row (fail closed): add its (initial, comparison, increment) to the table after review" % ty, fn=f)
            continue
        ctx.ob("R1", "writes-present:%s" % short, len(writes) >= 1 and all(s.lhs.field_names()[-1] == spec["counter"] for _, s in writes),
               "%s must update exactly its counter `%s`; writes: %s" % (short, spec["counter"], [s.lhs.field_names()[-1] for _, s in writes]), fn=f, how="field writers")
        # local refusal: Err(ExhaustedCommandSpace{arg, ..}) with the same arg
        errs = []
        for b in f.reachable():
            for s in f.blocks[b].stmts:
                if s.rv is not None and s.rv.k == "agg" and s.rv.j.get("adt") == X + "ExhaustedCommandSpace":
                    errs.append((b, s))
        ctx.ob("R1", "refusal-site:%s" % short, len(errs) == 1, "%s builds %d local refusals; exactly one expected" % (short, len(errs)), fn=f, nontrivial=False)
        guard_bb = None
        for b, s in errs:
            names = s.rv.j["fields"]
            ao = prim.origin_of_operand(f, s.rv.ops[names.index("arg")]).strip()
            ctx.ob("R1", "refusal-returns-same-arg:%s" % short, ao.k == "arg" and ao.a["name"] == "arg", "the refusal carries %s; must hand back the refused argument itself (it is re-offered to the next batch)" % ao.fmt(), fn=f, where=prim.site(f, b, s), how="provenance slice")
            ooc = s.rv.ops[names.index("out_of_chars")].const_value()
            ctx.ob("R1", "refusal-kind:%s" % short, ooc is bool(spec.get("size", False)), "out_of_chars=%s in %s; oracle %s (only the size limiter reports a character overflow, -x depends on it)" % (ooc, short, bool(spec.get("size", False))), fn=f, where=prim.site(f, b, s), how="constant field")
        # R2: the acceptance test, in normal form. The remaining limiters are consulted (and the counter updated) exactly
        # when `lhs cmp bound` holds — plus, for the size limiter, the per-argument bound of the system limiter; every
        # other path ends in the single refusal.
        def is_field(o, name):
            return o.k == "field" and o.a == name

        def cost_core(o):
            """(counter part, cost part) of `counter + cost` spelled with +, checked or saturating addition"""
            core = o.strip()
            if core.k == "field" and core.kids and core.kids[0].strip().k == "bin":
                core = core.kids[0].strip()
            if (core.k == "bin" and core.a in ("Add", "AddWithOverflow")) or (core.k == "call" and core.a["name"] in ("saturating_add", "checked_add", "wrapping_add") and len(core.kids) == 2):
                parts = [k.strip() for k in core.kids]
                cur = [p for p in parts if is_field(p, spec["counter"])]
                cost = [p for p in parts if not is_field(p, spec["counter"])]
                if len(cur) == 1 and len(cost) == 1:
                    return cur[0], cost[0]
            return None, None

        def charge_parts(o):
            """the cost-function call in a charge `cost(arg)` or `cost(arg) + self.<overhead field>`"""
            o = o.strip()
            calls = [c for c in o.call_nodes() if c.a["callee"].endswith("count_osstr_chars_for_exec")]
            extra = [x.a for x in o.walk() if x.k == "field" and x.a not in ("arg", "0", "1")]
            other_calls = [c.a["name"] for c in o.call_nodes() if not c.a["callee"].endswith("count_osstr_chars_for_exec") and c.a["name"] not in ("saturating_add", "checked_add", "deref", "as_ref")]
            return calls, extra, other_calls
        gs_acc = prim.dominating_guards(f, tb)
        atoms = [at for at in prim.norm_guards(gs_acc) if at["rel"] in ("lt", "le", "gt", "ge")]
        want_rel = {"Lt": "lt", "Le": "le"}[spec["cmp"]]
        ok2 = False
        extra_atoms = []
        desc = prim.guards_fmt(gs_acc)
        for at in atoms:
            lhs, rhs, rel = at["a"].strip(), at["b"].strip(), at["rel"]
            if is_field(lhs, spec["bound"]):
                lhs, rhs, rel = rhs, lhs, prim._SWAP[rel]
            if spec.get("size"):
                cur, cost = cost_core(lhs)
                if cur is not None and rel == want_rel and is_field(rhs, spec["bound"]):
                    calls, extra, other = charge_parts(cost)
                    if len(calls) == 1 and not other and len(extra) <= 1:
                        ok2 = True
                        cost_call_bb = calls[0].a["bb"]
                        # the increment adds the same cost value
                        for wb, ws in writes:
                            wo = prim._origin_of_def(f, (wb, "assign", ws), 8, set()).strip()
                            c2, k2 = cost_core(wo)
                            same = c2 is not None and any(c.a["bb"] == cost_call_bb for c in charge_parts(k2)[0]) and charge_parts(k2)[1] == extra
                            ctx.ob("R2", "size-increment-is-the-compared-cost", same, "current_size must grow by exactly the cost that was compared against the limit (one call of the cost function, the same overhead); increment: %s" % wo.fmt(), fn=f, where=prim.site(f, wb, ws), how="value numbering (same call site)")
                        ca = calls[0].kids[0]
                        ctx.ob("R2", "size-cost-of-this-arg", any(x.k == "arg" and x.a["name"] == "arg" for x in prim.expand_single_def_vars(f, ca, depth=6).walk()), "the cost is computed from %s" % ca.fmt(), fn=f, how="provenance slice")
                        continue
                # the per-argument bound (contract K1): cost(this arg) <= self.<max single argument>
                calls, extra, other = charge_parts(lhs)
                if rel == "le" and len(calls) == 1 and not extra and not other and rhs.k == "field" and rhs.a not in (spec["counter"], spec["bound"]) and any(x.k == "arg" and x.a["name"] == "arg" for x in calls[0].kids[0].walk()):
                    continue
                extra_atoms.append(at)
            else:
                if is_field(lhs, spec["counter"]) and is_field(rhs, spec["bound"]) and rel == want_rel:
                    ok2 = True
                else:
                    extra_atoms.append(at)
        ctx.ob("R2", "limit-comparison:%s" % short, ok2 and not extra_atoms,
               "%s must accept exactly when `%s %s %s` holds (initial value %s)%s: this pair keeps the invariant `within limit` and refuses only when one more would exceed it; acceptance guards: %s; unexplained conditions: %s" % (
                   short, ("current_size + cost" if spec.get("size") else spec["counter"]), {"Lt": "<", "Le": "<="}[spec["cmp"]], spec["bound"], spec["init"],
                   " and the single argument is within the per-argument bound" if spec.get("size") else "", desc, [prim.guards_fmt([a["gd"]])[:80] for a in extra_atoms]),
               fn=f, where=prim.site(f, tb), how="dominating guards (normal form) + oracle row")
        # every other path ends in the refusal: a return is reached only through try_next or through the refusal
        errb = [b for b, s in errs]
        rets = f.return_blocks()
        ok = bool(errb) and all(prim.must_pass(f, 0, [r], [tb] + errb) for r in rets)
        ctx.ob("R2", "accept-side:%s" % short, ok, "every path of try_arg either consults the remaining limiters under the acceptance test or returns the refusal", fn=f, where=prim.site(f, tb), how="must-pass-through")
        # initial value
        nf = prog.fns.get(ty + "::new")
        if nf is None:
            ctx.missing("R2", ty + "::new")
        else:
            ctx.analysed_fns.add(nf.path)
            init = None
            for b in nf.reachable():
                for s in nf.blocks[b].stmts:
                    if s.rv is not None and s.rv.k == "agg" and s.rv.j.get("adt") == ty:
                        names = s.rv.j["fields"]
                        init = s.rv.ops[names.index(spec["counter"])].const_value()
                        bo = prim.origin_of_operand(nf, s.rv.ops[names.index(spec["bound"])]).strip()
                        ctx.ob("R2", "bound-from-option:%s" % short, bo.k == "arg", "%s::new stores %s as the bound" % (short, bo.fmt()), fn=nf, how="provenance slice")
            ctx.ob("R2", "initial:%s" % short, init == spec["init"], "%s starts its counter at %s; oracle %s (paired with `%s`)" % (short, init, spec["init"], spec["cmp"]), fn=nf, how="constant field")
        # increment condition for unit counters
        if not spec.get("size"):
            for wb, ws in writes:
                wo = prim._origin_of_def(f, (wb, "assign", ws), 8, set()).strip()
                core = wo
                if core.k == "field" and core.kids and core.kids[0].strip().k == "bin":
                    core = core.kids[0].strip()
                inc1 = core.k == "bin" and core.a in ("Add", "AddWithOverflow") and any(c.get("v") == 1 for c in core.consts()) and any(x.k == "field" and x.a == spec["counter"] for x in core.walk())
                gs = prim.dominating_guards(f, wb)
                cond_ok = False
                for gd in gs:
                    pr = gd["pred"].strip()
                    if pr.k == "call" and pr.a["name"] in ("eq", "ne") and "ArgumentKind" in (pr.a.get("inst") or ""):
                        var = [str(x.a).split("::")[-1] for x in pr.walk() if x.k == "agg"]
                        subj_fields = [x.a for x in pr.walk() if x.k == "field"]
                        eff = pr.a["name"] if gd["bool"] is True else {"eq": "ne", "ne": "eq"}[pr.a["name"]]
                        if var == [spec["count_if"][1]] and eff == spec["count_if"][0] and "kind" in subj_fields:
                            cond_ok = True
                ctx.ob("R2", "counts:%s" % short, inc1 and cond_ok, "%s must add 1 exactly when the accepted argument's kind %s %s; increment %s, guards %s" % (short, {"eq": "==", "ne": "!="}[spec["count_if"][0]], spec["count_if"][1], wo.fmt(), prim.guards_fmt(gs)), fn=f, where=prim.site(f, wb, ws), how="dominating guard + oracle row")

    shared.cost_model(ctx, "R2")

    # LimiterCursor::try_next: empty => Ok(arg); else first.try_arg(arg, rest)
    tnf = next((x for p, x in prog.fns.items() if p.endswith("LimiterCursor::<'_>::try_next")), None)
    if tnf is None:
        ctx.missing("R1", "LimiterCursor::try_next")
    else:
        ctx.analysed_fns.add(tnf.path)
        def role(t):
            c = t.callee or ""
            n = t.j.get("callee_name")
            if n == "is_empty":
                return "is_empty"
            if c == TRAIT + "::try_arg":
                return "first.try_arg"
            if n in ("split_at_mut", "split_first_mut"):
                return "split"
            return None
        g = C.G(prim.event_graph(tnf, role))
        ie = g.nodes("is_empty")
        ok = len(ie) == 1 and g.succ(ie[0], "else") == ["RET(agg:Result::Ok)"] and all(C.base(x) == "split" for x in g.succ(ie[0], "0"))
        if not ie:
            # `match limiters.split_first_mut() { None => Ok(arg), Some((first, rest)) => first.try_arg(arg, rest) }`
            sp_ = [x for x in g.nodes("split") if any(t_.j.get("callee_name") == "split_first_mut" for _, t_ in tnf.calls())]
            ok = len(sp_) == 1 and g.succ(sp_[0], "0") == ["RET(agg:Result::Ok)"] and bool(g.succ(sp_[0], "1")) and all(C.base(x) == "first.try_arg" for x in g.succ(sp_[0], "1"))
        ctx.ob("R1", "cursor-chain", ok and bool(g.nodes("first.try_arg")), "LimiterCursor::try_next: no limiter left => Ok(arg); otherwise the first limiter is asked with a cursor over the rest; events: %s" % g.fmt(), fn=tnf, how="event graph")
        for b, t in tnf.calls():
            if role(t) == "split":
                v = t.args[1].const_value() if len(t.args) > 1 else None
                ctx.ob("R1", "cursor-splits-one", v == 1 or t.j.get("callee_name") == "split_first_mut", "the cursor peels off %s limiter(s) per step" % v, fn=tnf, where=prim.site(tnf, b), how="constant argument")
            if role(t) == "first.try_arg":
                ao = prim.origin_of_operand(tnf, t.args[1]).strip()
                ctx.ob("R1", "cursor-forwards-arg", ao.k == "arg", "the limiter is offered %s" % ao.fmt(), fn=tnf, where=prim.site(tnf, b), how="provenance slice")

    # ---- R3 linear handling ---------------------------------------------------------------------------
    arg_adt = X + "Argument"
    clone_impls = [i for i in prog.impls if i.get("self_adt") == arg_adt and i.get("trait") in ("std::clone::Clone", "std::marker::Copy")]
    ctx.ob("R3", "argument-not-clonable", not clone_impls, "Argument implements %s: an input argument could be duplicated" % [i["trait"] for i in clone_impls], how="type fact (absence of impl)")
    ctors = []
    for f in prog.fns.values():
        if f.crate != "findutils":
            continue
        for b in f.reachable():
            for s in f.blocks[b].stmts:
                if s.rv is not None and s.rv.k == "agg" and s.rv.j.get("adt") == arg_adt:
                    ctors.append((f, b, s))
    allowed = ("ArgumentReader>::next", "CommandBuilderOptions::new")
    for f, b, s in ctors:
        ctx.ob("R3", "argument-constructed@%s" % prim.short(f.path), any(a in f.path for a in allowed), "Argument constructed in %s; only the two readers and the initial-argument setup may create arguments" % f.path, fn=f, where=prim.site(f, b, s), how="who-may-construct")
    ctx.floor("R3", "Argument construction sites", len(ctors), 3)
    ex = next((x for p, x in prog.fns.items() if p.endswith("CommandBuilder::<'_>::execute")), None)
    if ex is None:
        ctx.missing("R3", "CommandBuilder::execute")
    else:
        ctx.analysed_fns.add(ex.path)
        st = ex.local_ty(1)
        ctx.ob("R3", "execute-consumes-builder", not st.startswith("&"), "CommandBuilder::execute takes self as `%s`; it must consume the builder so that a flushed batch cannot be extended or run twice" % st, fn=ex, how="type fact (receiver by value)")
    nb = next((x for p, x in prog.fns.items() if p.endswith("CommandBuilder::<'_>::new")), None)
    if nb is not None:
        ctx.analysed_fns.add(nb.path)
        for b in nb.reachable():
            for s in nb.blocks[b].stmts:
                if s.rv is not None and s.rv.k == "agg" and (s.rv.j.get("adt") or "").endswith("xargs::CommandBuilder"):
                    names = s.rv.j["fields"]
                    lo = prim.origin_of_operand(nb, s.rv.ops[names.index("limiters")]).strip()
                    ok = lo.k == "call" and lo.a["name"] == "clone" and any(x.k == "field" and x.a == "limiters" for x in lo.walk())
                    ctx.ob("R3", "fresh-limiters-per-batch", ok, "a new batch must start from a clone of the template limiters (which already account for the initial arguments); got %s" % lo.fmt(), fn=nb, where=prim.site(nb, b, s), how="provenance slice")
                    eo = prim.origin_of_operand(nb, s.rv.ops[names.index("extra_args")]).strip()
                    ok2 = (eo.k == "call" and eo.a["name"] in ("new", "default", "with_capacity")) or (eo.k == "call" and "from_elem" in eo.a["callee"]) or "Vec" in eo.fmt()
                    ctx.ob("R3", "fresh-batch-empty", ok2 and not [x for x in eo.walk() if x.k in ("arg", "field")], "a new batch starts with extra_args = %s; must be empty" % eo.fmt(), fn=nb, where=prim.site(nb, b, s), how="provenance slice")
    # LimiterCollection::clone clones every limiter (dyn_clone), dyn_clone = Box::new(self.clone()), limiter Clone derived
    ws = prim.field_writes(prog, X + "CommandBuilder", "extra_args")
    for f, b, obj, val, kind in ws:
        ok = kind == "construct" and f.path.endswith("CommandBuilder::<'_>::new")
        ctx.ob("R3", "extra_args-writer@%s" % prim.short(f.path), ok, "CommandBuilder.extra_args assigned in %s" % f.path, fn=f, where=prim.site(f, b, obj), how="field writers")
    aa = next((x for p, x in prog.fns.items() if p.endswith("CommandBuilder::<'_>::add_arg")), None)
    if aa is None:
        ctx.missing("R3", "CommandBuilder::add_arg")
    else:
        ctx.analysed_fns.add(aa.path)
        def role(t):
            c = t.callee or ""
            if c.endswith("LimiterCollection::try_arg"):
                return "limiters"
            if t.j.get("callee_name") == "push":
                return "push"
            if t.j.get("callee_name") in ("insert", "extend", "append", "remove", "pop", "clear", "truncate", "swap", "reverse", "sort", "dedup"):
                return "othermut:" + t.j.get("callee_name")
            return None
        g = C.G(prim.event_graph(aa, role))
        lim = g.nodes("limiters")
        ok = len(lim) == 1 and all(C.base(x) == "push" for x in g.succ(lim[0], "0")) and bool(g.succ(lim[0], "0")) and all(C.is_err_ret(x) for x in g.succ(lim[0], "1")) \
            and not [n for n in g.out if C.base(n).startswith("othermut")]
        ok = ok and all(x == "RET(agg:Result::Ok)" for p_ in g.nodes("push") for x in g.succ(p_))
        ctx.ob("R3", "add_arg-shape", ok, "add_arg must offer the argument to the limiters and append it (push, at the end) exactly when accepted, otherwise hand the refusal back; events: %s" % g.fmt(), fn=aa, how="event graph")
        for b, t in aa.calls():
            if role(t) == "push":
                o = prim.origin_of_operand(aa, t.args[1]).strip()
                ok = o.k == "field" and o.a == "arg" and any(c.endswith("LimiterCollection::try_arg") for c in o.callees())
                recv = prim.origin_of_operand(aa, t.args[0])
                ctx.ob("R3", "add_arg-pushes-accepted-arg", ok and any(x.k == "field" and x.a == "extra_args" for x in recv.walk()), "push(%s) onto %s; must be the accepted argument's bytes unchanged onto extra_args" % (o.fmt(), recv.fmt()), fn=aa, where=prim.site(aa, b), how="provenance slice")
            if role(t) == "limiters":
                o = prim.origin_of_operand(aa, t.args[1]).strip()
                ctx.ob("R3", "add_arg-offers-its-arg", o.k == "arg", "limiters are offered %s" % o.fmt(), fn=aa, where=prim.site(aa, b), how="provenance slice")

    # ---- R4 initial arguments -----------------------------------------------------------------------------
    on = ctx.fn("R4", X + "CommandBuilderOptions::new")
    if on is not None:
        def role(t):
            c = t.callee or ""
            n = t.j.get("callee_name")
            if c.endswith("LimiterCollection::try_arg"):
                return "charge"
            if n == "next" and "Iterator" in (t.j.get("callee_inst") or ""):
                return "next_initial"
            return None
        g = C.G(prim.event_graph(on, role))
        nx = g.nodes("next_initial")
        ch = g.nodes("charge")
        ok = len(nx) == 1 and len(ch) == 1 and g.succ(nx[0], "1") == ch and all(x == nx[0] for x in g.succ(ch[0], "0")) and all(C.is_err_ret(x) for x in g.succ(ch[0], "1")) and g.succ(nx[0], "0") == ["RET(agg:Result::Ok)"]
        ctx.ob("R4", "initial-args-charged-once", ok, "CommandBuilderOptions::new must offer every initial argument exactly once to the template limiters and fail if one is refused; events: %s" % g.fmt(), fn=on, how="event graph")
        for b in on.reachable():
            for s in on.blocks[b].stmts:
                if s.rv is not None and s.rv.k == "agg" and s.rv.j.get("adt") == X + "Argument":
                    names = s.rv.j["fields"]
                    ko = prim.origin_of_operand(on, s.rv.ops[names.index("kind")]).strip()
                    ctx.ob("R4", "initial-kind", ko.k == "agg" and str(ko.a).endswith("ArgumentKind::Initial"), "initial arguments are offered with kind %s; oracle Initial (they count for -s but not for -n/-L)" % ko.fmt(), fn=on, where=prim.site(on, b, s), how="constant field")
    if ex is not None:
        # non-replace branch: args(initial_args) then args(extra_args)
        acalls = [(b, t) for b, t in ex.calls() if t.j.get("callee_name") == "args" and "process::Command" in (t.j.get("callee_inst") or "")]
        descs = []
        for b, t in acalls:
            o = prim.origin_of_operand(ex, t.args[1])
            kinds = set()
            if o.strip().k == "field" and o.strip().a == "extra_args":
                kinds.add("extra")
            if any(x.k == "field" and x.a == "action" for x in o.walk()) and not any(c.split("::")[-1] in ("map", "collect") for c in o.callees()):
                kinds.add("initial")
            descs.append((b, t, kinds))
        plain_init = [d for d in descs if d[2] == {"initial"}]
        extra = [d for d in descs if d[2] == {"extra"}]
        ok = len(extra) == 1 and len(plain_init) >= 1 and any(ex.dominates(pi[0], extra[0][0]) for pi in plain_init)
        # builder chain: args(extra) receiver derives from args(initial)
        if ok:
            ro = prim.origin_of_operand(ex, extra[0][1].args[0])
            ok = any(c.a["name"] == "args" for c in ro.call_nodes())
        ctx.ob("R4", "initial-then-appended", ok, "without -I the command line must be the initial arguments followed by the appended ones (Command::args(initial).args(extra_args)); found %s" % [(prim.site(ex, b), sorted(k)) for b, _, k in descs], fn=ex, how="provenance + dominance")

    # every part of the action that `execute` puts on the command line is a part that `new` offered to the limiters:
    # the fields of ExecAction::Command read by the one are read by the other
    if on is not None and ex is not None:
        def command_fields(fn_):
            out = set()
            def walk(j):
                if isinstance(j, list):
                    for x_ in j:
                        walk(x_)
                elif isinstance(j, dict):
                    pr = j.get("p")
                    if "l" in j and isinstance(pr, list):
                        for i_, e in enumerate(pr):
                            if isinstance(e, dict) and e.get("vn") == "Command" and i_ + 1 < len(pr) and isinstance(pr[i_ + 1], dict) and "f" in pr[i_ + 1] \
                                    and prim.strip_generics(str(pr[i_ + 1].get("of", ""))).endswith("ExecAction"):
                                out.add(pr[i_ + 1].get("n"))
                    for k_, v_ in j.items():
                        if k_ != "sp":
                            walk(v_)
            for b_ in fn_.reachable():
                for s_ in fn_.blocks[b_].stmts:
                    walk(s_.j)
                walk(fn_.blocks[b_].term.j)
            return out
        fx, fo = command_fields(ex), command_fields(on)
        ctx.ob("R4", "executed-parts-were-charged", bool(fx) and fx <= fo,
               "CommandBuilder::execute builds the command line from the parts %s of ExecAction::Command, CommandBuilderOptions::new offers the parts %s to the limiters; a part that is executed but never charged is not counted against -s or the system limit" % (sorted(fx), sorted(fo)),
               fn=on, how="place reads of the variant's fields in both functions")
        # and the offered list is the whole of those parts (no element skipped)
        for b, t in on.calls():
            if t.j.get("callee_name") == "collect":
                o = prim.origin_of_operand(on, t.args[0])
                if any(x.k == "variant" and str(x.a) == "Command" for x in o.walk()):
                    names = [c.a["name"] for c in o.call_nodes()]
                    extra = [n for n in names if n not in ("iter", "map", "as_ref", "deref", "cloned", "copied", "chain", "once", "into_iter", "as_slice", "as_os_str", "borrow")]
                    ctx.ob("R4", "all-initial-arguments-offered", not extra, "the initial argument list is built with %s over the command's parts; an adaptor that drops or reorders elements (%s) leaves arguments uncharged" % (names, extra), fn=on, where=prim.site(on, b), how="provenance slice + allow-list")

    # the chain is asked in the order the limiters were added and the first refusal decides `out_of_chars` (R1/R2); -x
    # gives up only when the *size* stands in the way, so every counting limiter (-n, -L) must be asked before any size
    # limiter (-s, the system budget): a batch that is full by count is then closed, not reported as too large
    dxf = prog.fns.get(X + "do_xargs")
    if dxf is not None:
        ctx.analysed_fns.add(dxf.path)
        adds = []
        for b, t in dxf.calls():
            if (t.callee or "").startswith(X + "LimiterCollection::add"):
                inst = t.j.get("callee_inst") or ""
                kind = "size" if "MaxCharsCommandSizeLimiter" in inst else ("count" if ("MaxArgsCommandSizeLimiter" in inst or "MaxLinesCommandSizeLimiter" in inst) else "?")
                if kind == "?":
                    o = prim.origin_of_operand(dxf, t.args[1])
                    cs = " ".join(o.callees())
                    kind = "size" if "MaxCharsCommandSizeLimiter" in cs else ("count" if ("MaxArgsCommandSizeLimiter" in cs or "MaxLinesCommandSizeLimiter" in cs) else "?")
                adds.append((b, kind))
        ctx.floor("R1", "limiters registered in do_xargs", len(adds), 4)
        bad = []
        for b1, k1 in adds:
            if k1 != "size":
                continue
            after = dxf.reach_from(dxf.succs(b1))
            for b2, k2 in adds:
                if k2 != "size" and b2 in after:
                    bad.append((prim.site(dxf, b1), prim.site(dxf, b2), k2))
        ctx.ob("R1", "counting-limiters-asked-before-size-limiters", not bad and all(k != "?" for _, k in adds),
               "limiters are asked in registration order and the first refusal decides out_of_chars; a size limiter registered at %s precedes a counting (or unrecognised) limiter registered later — kinds in order of appearance: %s" % ([x[:2] for x in bad][:3], [k for _, k in adds]),
               fn=dxf, how="registration sites + reachability")

    # ---- R6 line accounting input: which arguments end an input line (shared with C05.R5) --------------------
    from ..engine import Ctx
    from . import c05
    sub = Ctx("C05", prog, ctx.tier)
    c05.run(sub)
    for o in sub.obs:
        if o.rule == "C05.R5":
            ctx.ob("R6", o.key, o.ok, o.msg, where=o.where, how=o.how)
            if o.fn:
                ctx.analysed_fns.add(o.fn)

    # ---- R5 process_input decision graph ------------------------------------------------------------------
    f, g = process_graph(ctx, "R5")
    if f is not None:
        edges = g.canon()
        gg = C.G(g)
        need = ["read", "add_arg", "execute", "new_builder", "combine", "flag:have_pending_command", "opt:no_run_if_empty", "opt:out_of_chars", "opt:exit_if_pass_char_limit"]
        have = {C.base(n) for n in gg.out}
        miss = [n for n in need if n not in have and not (n.startswith("opt:") and "not_" + n in have)]     # (`!opt` read as a test of its own)
        ctx.ob("R5", "atoms", not miss, "process_input decision atoms missing: %s (cannot build the truth table; fail closed)" % miss, fn=f)
        atoms = ["read", "add0", "out_of_chars", "exit_flag", "max_args", "max_lines", "pending", "exec0", "add1", "no_run_if_empty", "exec1"]
        n_rows = 0
        bad_rows = []
        if not miss:
            adds = sorted(gg.nodes("add_arg"))
            execs = sorted(gg.nodes("execute"))
            # identify first/second add_arg: the one fed by read is #0
            first_add = [n for n in adds if any(b == n for a, l, b in edges if C.base(a) == "read")]
            second_add = [n for n in adds if n not in first_add]
            final_exec = [n for n in execs if any(C.base(a) in ("opt:no_run_if_empty", "not_opt:no_run_if_empty", "flag:have_pending_command") and b == n and _from_eof(gg, a) for a, l, b in edges)]
            loop_exec = [n for n in execs if n not in final_exec]
            if len(first_add) != 1 or len(second_add) != 1 or len(final_exec) != 1 or len(loop_exec) != 1:
                ctx.ob("R5", "sites", False, "expected one add_arg per attempt (first, retry) and one execute per flush point (loop, end); got add_arg %s, execute %s" % (adds, execs), fn=f)
            else:
                for vals in itertools.product(["some", "none", "err"], *[[False, True]] * 10):
                    a = dict(zip(atoms, vals))
                    asg = {
                        "read": (lambda l, r=a["read"]: (r == "err" and l.split(",")[0] == "1") or (r == "some" and l == "0,1") or (r == "none" and l.startswith("0,") and l != "0,1")),
                        first_add[0]: (lambda l, v=a["add0"]: (l.split(",")[0] != "1") if v else (l.split(",")[0] == "1")),
                        second_add[0]: (lambda l, v=a["add1"]: (l.split(",")[0] != "1") if v else (l.split(",")[0] == "1")),
                        loop_exec[0]: 0 if a["exec0"] else 1,
                        final_exec[0]: 0 if a["exec1"] else 1,
                        "opt:out_of_chars": a["out_of_chars"], "opt:exit_if_pass_char_limit": a["exit_flag"],
                        "is_some:max_args": a["max_args"], "is_some:max_lines": a["max_lines"],
                        "is_none:max_args": not a["max_args"], "is_none:max_lines": not a["max_lines"],
                        "flag:have_pending_command": a["pending"], "opt:no_run_if_empty": a["no_run_if_empty"], "not_opt:no_run_if_empty": not a["no_run_if_empty"],
                    }
                    # one pass: from the read node until the next read / return
                    tr = _one_pass(edges, asg)
                    want = reference_process_input(a)
                    n_rows += 1
                    if tr != want:
                        bad_rows.append((a, tr, want))
                seen = set()
                shown = []
                for a, tr, want in bad_rows:
                    key = (tuple(tr or []), tuple(want))
                    if key in seen:
                        continue
                    seen.add(key)
                    if len(seen) > 6:
                        break
                    shown.append("for atoms %s:\n  code:      %s\n  reference: %s" % ({k: v for k, v in a.items()}, tr, want))
                # (one obligation for the whole table: its verdict on either normal form stands for all rows)
                ctx.ob("R5", "truth-table", not bad_rows, "%d of %d atom assignments deviate from the reference flush-and-retry loop%s" % (len(bad_rows), n_rows, "".join("\n" + x for x in shown)), fn=f, how="event-graph simulation over %d assignments" % n_rows)
        # have_pending_command: set true on every path from an accepted argument to the next read; never reset
        hp = C.find_local(f, "have_pending_command", ty="bool", pred=C.bool_flag_with_both_constants)
        if not hp:
            ctx.missing("R5", "have_pending_command flag")
        else:
            cs = prim.const_assigns_to(f, hp[0])
            trues = [bb for bb, v in cs if v is True]
            falses = [bb for bb, v in cs if v is False]
            others = [d for d in prim.local_defs(f).get(hp[0], []) if d[1] != "assign" or d[2].rv.k != "use" or d[2].rv.ops[0].kind != "const"]
            reads = [b for b, t in f.calls() if proc_role(t) == "read"]
            loop = f.reach_from(reads)
            resets_in_loop = [bb for bb in falses if bb in loop and any(r in f.reach_from([bb]) for r in reads) and bb != 0 and not f.dominates(bb, reads[0])]
            ctx.ob("R5", "pending-flag-writers", bool(trues) and not others and not resets_in_loop, "have_pending_command writers: true@%s false@%s other:%d; it may only be initialised false and set true" % (trues, falses, len(others)), fn=f, how="local writers")
            adds_b = [(b, t) for b, t in f.calls() if proc_role(t) == "add_arg"]
            for b, t in adds_b:
                # success edge target: the switch on discr -> non-Err edge
                ok = _accept_sets_flag(f, b, t, trues, reads)
                ctx.ob("R5", "accepted=>pending", ok, "after an argument has been accepted every path back to the reader must set have_pending_command (otherwise the last batch is lost at end of input with -r)", fn=f, where=prim.site(f, b), how="must-pass")
        # the retried argument is the refused one; the fresh builder receives it
        adds_b = [(b, t) for b, t in f.calls() if proc_role(t) == "add_arg"]
        for b, t in adds_b:
            o = prim.origin_of_operand(f, t.args[1])
            from_reader = any(c == X + "ArgumentReader::next" for c in o.callees()) and not any(c.endswith("add_arg") for c in o.callees())
            from_refusal = any(c.endswith("add_arg") for c in o.callees()) and any(x.k == "field" and x.a == "arg" for x in o.walk())
            ctx.ob("R5", "offered-argument-origin", from_reader or from_refusal, "add_arg is offered %s; must be the argument just read, or the argument handed back by the refusal" % o.fmt(), fn=f, where=prim.site(f, b), how="provenance slice")
        ctx.floor("R5", "add_arg call sites", len(adds_b), 2)


def _from_eof(gg, node):
    """node is on the end-of-input side: reachable from read's none edge without passing add_arg"""
    for r in gg.nodes("read"):
        for l, b in gg.out.get(r, []):
            if l.startswith("0,") and l != "0,1":
                reach = {b} | gg.reach([b], stop_roles=("add_arg", "read"))
                if node in reach:
                    return True
    return False


def _one_pass(edges, asg):
    """simulate from the (single) read node to the next read / return; returns list of roles"""
    out = {}
    for a, l, b in edges:
        out.setdefault(a, []).append((l, b))
    reads = [n for n in out if C.base(n) == "read"]
    if len(reads) != 1:
        return None
    cur = reads[0]
    seq = []
    first = True
    for _ in range(100):
        if cur.startswith("RET("):
            if "FromResidual" in cur or cur == "RET(agg:Result::Err)":
                seq.append("RET:residual")      # an error handed on as it is (`?`, or `return Err(e)` without a payload of its own)
            elif "Result::Err" in cur:
                seq.append("RET:err")
            elif "Result::Ok" in cur:
                seq.append("RET:ok")
            else:
                seq.append(cur)
            return seq
        role = C.base(cur)
        if role == "read" and not first:
            seq.append("read")
            return seq
        if role in ("add_arg", "execute", "combine", "new_builder"):
            seq.append(role)
        first = False
        es = out.get(cur, [])
        if len(es) == 1 and es[0][0] == "":
            cur = es[0][1]
            continue
        want = asg.get(cur, asg.get(role))
        picks = []
        for l, b in es:
            f0 = l.split(",")[0]
            if callable(want):
                if want(l):
                    picks.append(b)
            elif want is True and f0 == "else":
                picks.append(b)
            elif want is False and f0 == "0":
                picks.append(b)
            elif want is not None and not isinstance(want, bool) and f0 == str(want):
                picks.append(b)
        picks = sorted(set(picks))
        if len(picks) != 1:
            return None
        cur = picks[0]
    return None


def _accept_sets_flag(f, b, t, trues, reads):
    # find the switch on the add_arg result and its non-Err targets
    cur = t.target
    for _ in range(4):
        term = f.blocks[cur].term
        if term.k == "switch":
            ok_targets = [tg for lab, tg in prim.switch_edges(f, cur) if lab != 1]
            return all(prim.must_pass(f, tg, reads, trues) for tg in ok_targets)
        if term.k == "goto":
            cur = term.target
        else:
            break
    return False
