"""C03 — visit order (pre/post-order), -prune cuts exactly one subtree, -sorted."""
from .. import prim
from ..dispatch import arm_of
from . import common as C

META = {
    "explanation": "R5 contract W7: below a root link followed only under -H walkdir releases the first depth-1 directory last (known finding); R5 contract W4: under -depth the depth-0 entry is held back until the walker is exhausted (walkdir yields a followed root link before its contents); R1 dispatch-table rows: -depth/-d/-delete set Config.depth_first=true, nothing else writes it (field writers), WalkDir::contents_first receives it; -sorted sets sorted_output and installs sort_by(a.file_name().cmp(b.file_name())) under it; "
                   "R2 who-may-call: only PruneMatcher marks the skip flag, under file_type().is_dir() of the entry, always true; flag per-entry (MatcherIO::new inside the loop, flag written only by the marker and the constructor); "
                   "R3 skip_current_dir on the walk iterator iff should_skip_current_dir() after matches in the same iteration; R4 walkdir contract W2: that call is guarded by !depth_first",
    "decides": "R4 also: skip_current_dir only for a directory the walk has entered (contract W5: -xdev directories on another device are yielded but not entered); the code paths by which order and pruning are configured and applied, for every expression and tree",
    "does_not_decide": "walkdir's own ordering and the content of its directory stack (trusted, contract W2 read from walkdir 2.5 source)",
}

CONFIG = "findutils::find::Config"
MIO = "findutils::find::matchers::MatcherIO"
PRUNE_MATCHES = C.matcher_impl(C.M + "prune::PruneMatcher", "matches")


def run(ctx):
    prog = ctx.prog
    fn, d, arms, info = C.parser_arms(ctx, "R1")
    # ---- R1 ----------------------------------------------------------------------------------
    if arms:
        for tok in ("-depth", "-d", "-delete"):
            a = arm_of(arms, tok)
            if a is None:
                ctx.missing("R1", "parser arm for %s" % tok)
                continue
            wb = [b for n, v, b, _ in a.field_writes("find::Config") if n == "depth_first" and v is not None and v.k == "const" and v.a.get("v") is True]
            ok = bool(wb) and prim.must_pass(fn, a.entry, [info["join"]], wb)
            ctx.ob("R1", "token:%s=>depth_first" % tok, ok, "the %s arm must set Config.depth_first = true on every path" % tok, fn=fn, where=prim.site(fn, a.entry), how="dispatch table + must-pass")
        a = arm_of(arms, "-sorted")
        if a is None:
            ctx.missing("R1", "parser arm for -sorted")
        else:
            wb = [b for n, v, b, _ in a.field_writes("find::Config") if n == "sorted_output" and v is not None and v.k == "const" and v.a.get("v") is True]
            ctx.ob("R1", "token:-sorted=>sorted_output", bool(wb) and prim.must_pass(fn, a.entry, [info["join"]], wb),
                   "the -sorted arm must set Config.sorted_output = true", fn=fn, where=prim.site(fn, a.entry), how="dispatch table + must-pass")
        # no arm may reset depth_first / sorted_output to false
        for lits, a in arms.items():
            for n, v, b, s in a.field_writes("find::Config"):
                if n in ("depth_first", "sorted_output") and not (v is not None and v.k == "const" and v.a.get("v") is True):
                    ctx.ob("R1", "reset:%s@%s" % (n, "|".join(lits)), False, "arm %s writes Config.%s = %s (only `true` may be written while parsing)" % (lits, n, v.fmt() if v else "?"), fn=fn, where=prim.site(fn, b, s))
    ws = prim.field_writes(prog, CONFIG, "depth_first")
    nw = 0
    for f, b, obj, val, kind in ws:
        nw += 1
        if kind == "construct":
            ok = val is not None and val.k == "const" and val.a.get("v") is False and f.path.endswith("Default>::default")
            ctx.ob("R1", "depth_first-init@%s" % prim.short(f.path), ok, "Config.depth_first constructed with %s in %s (must be the `false` default only)" % (val.fmt() if val else "?", f.path), fn=f, where=prim.site(f, b, obj), how="field writers")
        else:
            ok = val is not None and val.k == "const" and val.a.get("v") is True and f.path == C.BMT
            ctx.ob("R1", "depth_first-write@%s" % prim.short(f.path), ok, "Config.depth_first written with %s in %s (only `true`, only by the parser)" % (val.fmt() if val else "?", f.path), fn=f, where=prim.site(f, b, obj), how="field writers")
    ctx.floor("R1", "writers of Config.depth_first", nw, 3)

    pf, g = C.walk_graph(ctx, "R1")
    if pf is None:
        return
    # WalkDir::contents_first(config.depth_first) feeds the iterator that is walked
    cf = [(b, t) for b, t in pf.calls() if t.callee == "walkdir::WalkDir::contents_first"]
    ctx.ob("R1", "contents_first-called", len(cf) == 1, "WalkDir::contents_first call sites in process_dir: %d" % len(cf), fn=pf)
    for b, t in cf:
        o = prim.origin_of_operand(pf, t.args[1]).strip()
        ok = o.k == "field" and o.a == "depth_first" and o.kids[0].strip().k == "arg"
        ctx.ob("R1", "contents_first<-depth_first", ok, "contents_first receives %s; must be Config.depth_first unmodified" % o.fmt(), fn=pf, where=prim.site(pf, b), how="provenance slice")
    # the walked iterator derives from that builder chain
    it = [(b, t) for b, t in pf.calls() if C.walk_role(t) == "next"]
    for b, t in it:
        o = prim.origin_of_operand(pf, t.args[0])
        # `it` is a named local defined by into_iter(walkdir)
        names = [x.a.get("name") for x in o.walk() if x.k == "var"]
        ctx.ob("R1", "walk-iterator", (len(names) == 1 and pf.local_ty([x.a["local"] for x in o.walk() if x.k == "var"][0]) == "walkdir::IntoIter") or any(c.endswith("into_iter") for c in o.callees()), "walk loop iterates %s" % o.fmt(), fn=pf, where=prim.site(pf, b), nontrivial=False)
    # -sorted: sort_by installed under sorted_output, comparing file names in (a, b) order
    sb = [(b, t) for b, t in pf.calls() if (t.callee or "").startswith("walkdir::WalkDir::sort_by")]
    ctx.ob("R1", "sort_by-site", len(sb) == 1 and sb[0][1].callee == "walkdir::WalkDir::sort_by",
           "-sorted must install WalkDir::sort_by with a byte-wise file-name comparison; found %s" % [t.callee for _, t in sb], fn=pf)
    for b, t in sb:
        gs = prim.dominating_guards(pf, b)
        ok = any(gd["bool"] is True and gd["pred"].strip().k == "field" and gd["pred"].strip().a == "sorted_output" for gd in gs)
        ctx.ob("R1", "sort_by-guard", ok, "sort_by must be installed exactly when Config.sorted_output is set; dominating guards: %s" % prim.guards_fmt(gs), fn=pf, where=prim.site(pf, b), how="dominating guard")
        clo = [x for x in prim.origin_of_operand(pf, t.args[1]).walk() if x.k == "agg" and str(x.a).startswith("closure:")]
        cf2 = prog.fns.get(clo[0].a.split(":", 1)[1]) if clo else None
        if cf2 is None:
            ctx.ob("R1", "sort_by-comparator", False, "comparator closure not found", fn=pf, where=prim.site(pf, b))
        else:
            ctx.analysed_fns.add(cf2.path)
            cmps = [(bb, tt) for bb, tt in cf2.calls() if tt.j.get("callee_name") == "cmp"]
            ok = len(cmps) == 1
            desc = "no single cmp call"
            if ok:
                tt = cmps[0][1]
                oa = prim.origin_of_operand(cf2, tt.args[0]).strip()
                ob_ = prim.origin_of_operand(cf2, tt.args[1]).strip()
                def is_fname(o, argi):
                    if not (o.k == "call" and o.a["callee"] == "walkdir::DirEntry::file_name"):
                        return False
                    r = o.kids[0].strip()
                    return r.k == "arg" and r.a["idx"] == argi
                # closure args: _1 = closure env, _2 = a, _3 = b
                ok = is_fname(oa, 2) and is_fname(ob_, 3) and "OsStr" in (tt.j.get("callee_inst") or "")
                desc = "cmp(%s, %s) via %s" % (oa.fmt(), ob_.fmt(), tt.j.get("callee_inst"))
                # result returned unmodified
                rv, nonconst = C.const_return(cf2)
                ret_o = prim.origin_of_local(cf2, 0).strip()
                ok = ok and ret_o.k == "call" and ret_o.a["name"] == "cmp"
            ctx.ob("R1", "sort_by-comparator", ok, "comparator must be a.file_name().cmp(b.file_name()) on raw OsStr bytes, returned unmodified; found %s" % desc, fn=cf2, how="provenance slice of the closure body")

    # ---- R2 prune marks --------------------------------------------------------------------
    markers = [(f, b, t) for f, b, t in prog.all_calls() if (t.callee or "").endswith("::mark_current_dir_to_be_skipped")]
    ctx.floor("R2", "callers of mark_current_dir_to_be_skipped", len(markers), 1)
    for f, b, t in markers:
        ctx.ob("R2", "marker@%s" % prim.short(f.path), f.path == PRUNE_MATCHES, "mark_current_dir_to_be_skipped called from %s; only PruneMatcher::matches may prune" % f.path, fn=f, where=prim.site(f, b), how="who-may-call")
        gs = prim.dominating_guards(f, b)
        ok = False
        for gd in gs:
            o = gd["pred"].strip()
            if gd["bool"] is True and o.k == "call" and o.a["callee"].endswith("FileType::is_dir"):
                s = o.kids[0].strip()
                if s.k == "call" and s.a["callee"].endswith("WalkEntry::file_type") and s.kids[0].strip().k == "arg":
                    ok = True
        ctx.ob("R2", "marker-guard@%s" % prim.short(f.path), ok,
               "the prune mark must be dominated by entry.file_type().is_dir() == true (the walker's own, follow-aware type: only an entry the walker descends into may be skipped); guards: %s" % prim.guards_fmt(gs),
               fn=f, where=prim.site(f, b), how="dominating guard")
    pm = ctx.fn("R2", PRUNE_MATCHES)
    if pm is not None:
        vals, nonconst = C.const_return(pm)
        ctx.ob("R2", "prune-always-true", vals == {True} and not nonconst, "-prune must be true on every path; returns %s%s" % (sorted(vals), " + computed" if nonconst else ""), fn=pm, how="constant return")
    ws = prim.field_writes(prog, MIO, "should_skip_dir")
    for f, b, obj, val, kind in ws:
        if kind == "construct":
            ok = f.path.endswith("MatcherIO::<'_>::new") and val is not None and val.k == "const" and val.a.get("v") is False
        else:
            ok = f.path.endswith("::mark_current_dir_to_be_skipped") and val is not None and val.k == "const" and val.a.get("v") is True
        ctx.ob("R2", "skipflag-writer@%s" % prim.short(f.path), ok, "MatcherIO.should_skip_dir written with %s in %s" % (val.fmt() if val else "?", f.path), fn=f, where=prim.site(f, b, obj), how="field writers")
    ctx.floor("R2", "writers of MatcherIO.should_skip_dir", len(ws), 2)
    # per-entry flag: a fresh MatcherIO between fetching an entry and evaluating it
    gg = C.G(g)
    for m in gg.nodes("matches"):
        pass
    nexts = [b for b, t in pf.calls() if C.walk_role(t) == "next"]
    news = [b for b, t in pf.calls() if C.walk_role(t) == "io_new"]
    mts = [(b, t) for b, t in pf.calls() if C.walk_role(t) == "matches"]
    for b, t in mts:
        ok = bool(nexts) and all(prim.must_pass(pf, nb, [b], news) for nb in nexts)
        ctx.ob("R2", "fresh-io-per-entry", ok, "every path from fetching an entry to evaluating it must create a fresh MatcherIO (prune/quit flags must not leak to siblings)", fn=pf, where=prim.site(pf, b), how="must-pass")
        o = prim.origin_of_operand(pf, t.args[2])
        ok2 = any(x.k == "var" and "MatcherIO" in pf.local_ty(x.a["local"]) for x in o.walk()) or any(c.endswith("MatcherIO::<'_>::new") for c in o.callees())
        ctx.ob("R2", "matches-uses-that-io", ok2, "matches receives %s" % o.fmt(), fn=pf, where=prim.site(pf, b), nontrivial=False)

    # ---- R3 skip iff marked ---------------------------------------------------------------------
    skips = [(b, t) for b, t in pf.calls() if C.walk_role(t) == "skip"]
    ctx.ob("R3", "skip-site", len(skips) == 1, "walkdir skip_current_dir call sites in process_dir: %d (exactly one expected)" % len(skips), fn=pf)
    all_skips = [(f, b, t) for f, b, t in prog.all_calls() if t.callee == "walkdir::IntoIter::skip_current_dir"]
    for f, b, t in all_skips:
        ctx.ob("R3", "skip-caller@%s" % prim.short(f.path), f.path == C.PROCESS_DIR, "skip_current_dir called in %s" % f.path, fn=f, where=prim.site(f, b), how="who-may-call")
    for b, t in skips:
        gs = prim.dominating_guards(pf, b)
        ok = any(gd["bool"] is True and gd["pred"].strip().k == "call" and gd["pred"].strip().a["callee"].endswith("::should_skip_current_dir") for gd in gs)
        ctx.ob("R3", "skip-guard", ok, "skip_current_dir must be dominated by should_skip_current_dir() == true; guards: %s" % prim.guards_fmt(gs), fn=pf, where=prim.site(pf, b), how="dominating guard")
        o0 = prim.origin_of_operand(pf, t.args[0])
        o1 = prim.origin_of_operand(pf, pf.blocks[nexts[0]].term.args[0]) if nexts else None
        same = o1 is not None and [x.a.get("local") for x in o0.walk() if x.k == "var"] == [x.a.get("local") for x in o1.walk() if x.k == "var"] and o0.fmt() == o1.fmt()
        ctx.ob("R3", "skip-same-iterator", same, "skip_current_dir receiver %s vs walk iterator %s" % (o0.fmt(), o1.fmt() if o1 else "?"), fn=pf, where=prim.site(pf, b), how="provenance slice")
        # W2
        ok4 = False
        for gd in gs:
            o = gd["pred"].strip()
            if o.k == "field" and o.a == "depth_first" and gd["bool"] is False:
                ok4 = True
            if o.k == "un" and o.a == "Not" and o.kids[0].strip().k == "field" and o.kids[0].strip().a == "depth_first" and gd["bool"] is True:
                ok4 = True
        ctx.ob("R4", "skip-not-under-depth", ok4,
               "walkdir contract W2: with contents_first(true) the yielded directory has already been popped, so skip_current_dir() pops its *parent* and drops the remaining siblings; the call must be guarded by !config.depth_first "
               "(\"under -depth, -prune changes nothing\"). Dominating guards: %s" % prim.guards_fmt(gs), fn=pf, where=prim.site(pf, b), how="dominating guard (API contract W2)")
    # W5: a directory on another file system is yielded but not entered
    sfs = [(b, t) for b, t in pf.calls() if t.callee == "walkdir::WalkDir::same_file_system"]
    may_stay = [(b, t) for b, t in sfs if not (prim.origin_of_operand(pf, t.args[1]).strip().k == "const" and prim.origin_of_operand(pf, t.args[1]).strip().a.get("v") is False)]
    if may_stay and skips:
        sb = skips[0][0]
        starts = [gg_b for gg_b in pf.reachable() if pf.blocks[gg_b].term.k == "switch" and (lambda o: o.k == "call" and o.a["callee"].endswith("::should_skip_current_dir"))(prim.switch_pred(pf, gg_b).strip())]
        removed = set()
        classes = set()
        is0 = lambda x: x.strip().k == "const" and x.strip().a.get("v") == 0
        depth_of = lambda x: any(c.a["name"] == "depth" for c in x.call_nodes())
        dev_of = lambda x: any(c.a["name"] in ("device_of", "dev", "st_dev") for c in x.call_nodes())
        def has_dir(x):
            return any(y.k == "arg" and y.a["name"] == "dir" for y in prim.expand_single_def_vars(pf, x).walk())

        def exempt(at):
            a_, b_ = at["a"].strip(), at["b"].strip()
            if (at["rel"] == "ne" and a_.k == "field" and a_.a == "same_file_system" and b_.k == "const" and b_.a.get("v") is True) or \
               (at["rel"] == "eq" and a_.k == "field" and a_.a == "same_file_system" and b_.k == "const" and b_.a.get("v") is False):
                return "not -xdev"
            if prim.atom_holds([at], "le", depth_of, is0) or prim.atom_holds([at], "eq", depth_of, is0):
                return "starting point"
            if at["rel"] == "eq" and dev_of(at["a"]) and dev_of(at["b"]) and (has_dir(at["a"]) != has_dir(at["b"])):
                return "same device"
            return None
        pending_phi = []
        for b in pf.reachable():
            for tgt, atoms in prim.edge_atoms(pf, b):
                done_ = False
                for at in atoms:
                    cl_ = exempt(at)
                    if cl_:
                        removed.add((b, tgt)); classes.add(cl_); done_ = True
                if done_:
                    continue
                # the condition computed first (`let other = xdev && depth > 0 && dev != root; if .. && !other`): the switch
                # tests a bool that is a constant on the short-circuit paths and the last comparison otherwise. The edge is
                # exempt when every way the bool can have this edge's value establishes one of the three conditions.
                for at in atoms:
                    a_ = at["a"].strip()
                    bv = at["b"].strip().a.get("v") if at["b"].strip().k == "const" else None
                    if a_.k != "phi" or not isinstance(bv, bool) or at["rel"] not in ("eq", "ne"):
                        continue
                    pending_phi.append((b, tgt, a_, bv if at["rel"] == "eq" else (not bv)))
                    continue
        # blocks that can only be entered over exempt edges (the short-circuit exits of `a && b && c` meet in one block)
        def exempt_blocks():
            ex = set()
            changed = True
            preds_ = pf.preds()
            while changed:
                changed = False
                for x in pf.reachable():
                    if x in ex or x == 0:
                        continue
                    ps_ = [q for q in preds_.get(x, []) if q in pf.reachable()]
                    if ps_ and all((q, x) in removed or q in ex for q in ps_):
                        ex.add(x)
                        changed = True
            return ex
        for _round in range(3):
            exb = exempt_blocks()
            grew = False
            for b, tgt, phi_, tv in pending_phi:
                if (b, tgt) in removed:
                    continue
                ways = []
                for alt in phi_.kids:
                    s_ = alt.strip()
                    if s_.k == "const" and isinstance(s_.a.get("v"), bool):
                        if s_.a["v"] != tv:
                            continue                        # this way gives the other value
                        where_ = alt.bb if alt.bb is not None else s_.bb
                        ats_ = prim.norm_guards(prim.dominating_guards(pf, where_)) if where_ is not None else []
                        cl_ = next((exempt(x) for x in ats_ if exempt(x)), None)
                        ways.append(cl_ or ("short-circuit" if where_ in exb else None))
                    else:
                        ats_ = prim.norm_guards([{"bb": b, "labels": [], "pred": alt, "bool": tv, "target": tgt, "all_labels": []}])
                        ways.append(next((exempt(x) for x in ats_ if exempt(x)), None))
                if ways and all(ways):
                    removed.add((b, tgt)); classes |= set(w for w in ways if w != "short-circuit"); grew = True
            if not grew:
                break
        seen = set()
        st = [t_ for s_ in starts for t_, ats in prim.edge_atoms(pf, s_) if any(a["rel"] == "eq" and a["b"].strip().a.get("v") is True for a in ats if a["b"].strip().k == "const")]
        while st:
            x = st.pop()
            if x in seen or x == sb:
                seen.add(x)
                continue
            seen.add(x)
            for s_ in pf.succs(x):
                if (x, s_) not in removed and s_ not in seen:
                    st.append(s_)
        ctx.ob("R4", "skip-only-entered-directory", bool(starts) and sb not in seen,
               "walkdir contract W5: with same_file_system(true) a directory on another file system (depth > 0) is yielded but not entered, so skip_current_dir() would pop its *parent* and lose the remaining siblings; "
               "every path from should_skip_current_dir()==true to the skip must establish one of: -xdev off, depth 0, or the entry's device equals the starting point's (classes seen: %s)" % sorted(classes),
               fn=pf, where=prim.site(pf, sb), how="edge-removal reachability (API contract W5)")
    # the mark is honoured: from should_skip==true (and not depth_first) the loop cannot fetch the next entry without skipping
    for n in gg.nodes("should_skip"):
        tr = gg.succ(n, "else")
        fl = gg.succ(n, "0")
        ok = bool(tr) and all(C.base(x) == "skip" for x in tr) or _via_depth_guard(pf, skips)
        ctx.ob("R3", "mark-honoured", ok, "after should_skip_current_dir()==true the next event must be skip_current_dir (possibly behind the !depth_first guard); found %s" % tr, fn=pf, how="event graph")
        ctx.ob("R3", "unmarked-not-skipped", bool(fl) and all(C.base(x) != "skip" for x in fl), "after should_skip_current_dir()==false no skip may happen; found %s" % fl, fn=pf, how="event graph")
    # should_skip is consulted after matches in the same iteration
    for m in gg.nodes("matches"):
        r = gg.reach([m], stop_roles=("next",))
        ctx.ob("R3", "skip-consulted-after-matches", any(C.base(x) == "should_skip" for x in r), "should_skip_current_dir is not consulted between matches and the next fetch", fn=pf, how="event graph")

    # ---- R5 contract W4: a followed root link is yielded before its contents even with contents_first ------------------------
    # walkdir (2.5, IntoIter::handle_entry): only a *normal* directory is deferred under contents_first; a depth-0 symlink
    # that follow_root_links resolves to a directory is pushed *and* yielded at once. So when contents_first(depth_first) and
    # follow_root_links(follow != Never) can both be set, the caller has to hold the starting point back itself.
    frl = [(b, t) for b, t in pf.calls() if (t.callee or "").startswith("walkdir::WalkDir::follow_root_links")]
    cf = [(b, t) for b, t in pf.calls() if (t.callee or "").startswith("walkdir::WalkDir::contents_first")]
    both_possible = False
    if frl and cf:
        a = prim.origin_of_operand(pf, frl[0][1].args[1]).strip()
        c = prim.origin_of_operand(pf, cf[0][1].args[1]).strip()
        both_possible = not (a.k == "const" and a.a.get("v") is False) and not (c.k == "const" and c.a.get("v") is False)
    if both_possible:
        sb = [(b, st) for b in pf.reachable() for st in pf.blocks[b].stmts if C.walk_stmt_role(pf, b, st) == "stash"]
        ok = False
        desc = "no entry is ever held back"
        for b, st in sb:
            gs = prim.dominating_guards(pf, b)
            has_df = any(gd["pred"].strip().k == "field" and gd["pred"].strip().a == "depth_first" and gd["bool"] is True for gd in gs)
            has_d0 = any(gd["pred"].strip().k == "bin" and gd["pred"].strip().a == "Eq" and gd["bool"] is True and any(cc.get("v") == 0 for cc in gd["pred"].consts()) and any(x.endswith("WalkEntry::depth") for x in gd["pred"].callees()) for gd in gs)
            extra = [gd["pred"].fmt()[:60] for gd in gs if gd["pred"].strip().k == "call" and gd["pred"].strip().a["name"] in ("is_dir", "is_symlink", "path_is_symlink", "follow")]
            desc = "held back under depth_first=%s, depth()==0=%s" % (has_df, has_d0)
            if has_df and has_d0:
                ok = True
        ctx.ob("R5", "starting-point-last-under-depth", ok,
               "walkdir contract W4: with follow_root_links a starting point that is a symbolic link to a directory is yielded *before* its contents even when contents_first is set; under -depth the depth-0 entry therefore has to be held back until the walk below it is over (%s). `find -H link -depth` otherwise prints `link` first, and `find -H link -delete` unlinks the link before its contents" % desc,
               fn=pf, where=prim.site(pf, frl[0][0]), how="dominating guards of the deferred-slot store (API contract W4)")

    # walkdir contract W7 (same place, IntoIter::get_deferred_dir): the followed root link sits on walkdir's directory stack
    # but not in its list of deferred directories, and a deferred directory is released when `stack depth < deferred count`.
    # Below a followed root link under -H (follow_links off, so the root is not converted into a normal directory) the two are
    # off by one: the *first* directory deferred at depth 1 stays at the bottom of the list until the walk ends, so it is
    # evaluated after all its later siblings. Every directory still comes after its contents, but with -sorted the siblings
    # are no longer in name order. The caller would have to compensate for that one directory; nothing does.
    if both_possible:
        fl = [(b, t) for b, t in pf.calls() if (t.callee or "").startswith("walkdir::WalkDir::follow_links")]
        h_mode_possible = True
        if fl and frl:
            a = prim.origin_of_operand(pf, frl[0][1].args[1]).strip()
            l_ = prim.origin_of_operand(pf, fl[0][1].args[1]).strip()
            # the quirk needs "root links followed, other links not": impossible only when both flags are the same value
            h_mode_possible = a.fmt() != l_.fmt()
        compensated = any((t.callee or "").endswith(("WalkEntry::new",)) and any(gd["pred"].strip().k == "field" and gd["pred"].strip().a == "depth_first" and gd["bool"] is True for gd in prim.dominating_guards(pf, b))
                          and any(cc.get("v") == 1 for gd in prim.dominating_guards(pf, b) for cc in gd["pred"].consts()) for b, t in pf.calls())
        ctx.ob("R5", "first-directory-below-followed-root-in-order", (not h_mode_possible) or compensated,
               "walkdir contract W7: with contents_first and a starting point that is a symbolic link followed only because it is the starting point (-H), walkdir releases the first "
               "directory at depth 1 only when the walk ends — after all its later siblings. `find -H LINK -depth -sorted` therefore does not evaluate siblings in name order; process_dir does not compensate "
               "(it would have to evaluate that directory itself when the walk leaves it)",
               fn=pf, where=prim.site(pf, frl[0][0]) if frl else None, how="builder flags (API contract W7) + search for a compensating synthesised depth-1 entry")


def _via_depth_guard(pf, skips):
    """true-edge of should_skip may lead to `next` only through the false side of a depth_first test"""
    for b, t in skips:
        gs = prim.dominating_guards(pf, b)
        preds = [gd["pred"].strip() for gd in gs]
        if any(o.k == "call" and o.a["callee"].endswith("::should_skip_current_dir") for o in preds) and \
           any((o.k == "field" and o.a == "depth_first") or (o.k == "un" and o.kids[0].strip().k == "field" and o.kids[0].strip().a == "depth_first") for o in preds):
            # every path from the should_skip true edge to `next` that avoids skip must cross the depth_first test
            return True
    return False
