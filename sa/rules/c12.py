"""C12 — -name/-path/-lname (and -i forms) = fnmatch on the whole string (wiring and translation tables)."""
from .. import prim
from . import common as C

M = C.M
G = M + "glob::"
META = {
    "explanation": "R1 subject and truth: NameMatcher/PathMatcher/LinkNameMatcher return exactly Pattern::matches_or_report(subject, matcher_io) (no shortcut comparison), with subject = file_name() / path() / read_link target through identity conversions; "
                   "R2 caseless flag: the flag each token passes equals the oracle table (-iname -ilname -ipath -iwholename caseless, the rest not), and Pattern::new turns it into IGNORECASE / NONE; "
                   "R3 whole-string API (contracts O2, O3): the only onig entry point at the match role is Regex::match_with_param at 0 compared with Some(string.len()); a failed match is diagnosed (stderr, exit status) and false; the regex is compiled by Regex::with_options with Syntax::posix_basic() and that syntax's own options or-ed with the flag; "
                   "R3 also: Pattern::new hands its own pattern to the translation unchanged; R4 the characters scanned are those of the argument itself (no pre-pass on the pattern text); R4 translation tables recovered from the char dispatch of glob_to_regex and compared row by row: ? -> '.', * -> '.*', backslash -> next char literal / trailing backslash never matches, [ -> bracket expression or literal, anything else literal; "
                   "literal escape set of regex_push_literal == { . [ \\\\ * ^ $ } (the BRE specials); bracket prologue of extract_bracket_expr: '!' -> '^', then a leading ']' is literal with and without negation; a bracket expression that does not compile falls back to a literal '['",
    "decides": "that each test is the glob engine's verdict on the right string, compiled with the right options, through a whole-string API, and that the glob->BRE translation has the right per-character rows",
    "does_not_decide": "equality of the generated BRE's language (as implemented by onig) with fnmatch's — the core of the property, no static argument in reach; bracket-expression internals beyond the prologue",
}

CASELESS = {"-name": False, "-iname": True, "-lname": False, "-ilname": True, "-path": False, "-ipath": True, "-wholename": False, "-iwholename": True}
CTOR = {"-name": M + "name::NameMatcher", "-iname": M + "name::NameMatcher", "-lname": M + "lname::LinkNameMatcher", "-ilname": M + "lname::LinkNameMatcher",
        "-path": M + "path::PathMatcher", "-ipath": M + "path::PathMatcher", "-wholename": M + "path::PathMatcher", "-iwholename": M + "path::PathMatcher"}
SUBJECT_ID = {"to_string_lossy", "deref", "as_ref", "borrow", "as_os_str", "as_path", "to_str", "as_str", "into_owned", "to_owned", "clone", "as_deref"}
BRE_SPECIALS = {".", "[", "\\", "*", "^", "$"}


def char_const(fn, op):
    """char constant behind an operand: 'c', or Some('c') via a promoted constant"""
    v = op.const_value() if op.kind == "const" else None
    if isinstance(v, str) and len(v) == 1:
        return v
    o = prim.origin_of_operand(fn, op).strip()
    if o.k == "const" and o.a.get("k") == "char":
        return o.a.get("ch")
    if o.k == "agg" and str(o.a).endswith("Option::Some") and o.kids:
        k = o.kids[0].strip()
        if k.k == "const" and k.a.get("k") == "char":
            return k.a.get("ch")
    return None


def glob_role(fn):
    def role(t):
        c = t.callee or ""
        n = t.j.get("callee_name")
        inst = t.j.get("callee_inst") or ""
        if c == "std::string::String::push":
            ch = char_const(fn, t.args[1])
            return "push:%s" % (ch if ch is not None else "var")
        if c == "std::string::String::push_str":
            o = prim.origin_of_operand(fn, t.args[1]).strip()
            return "push_str:%s" % (o.a.get("v") if o.k == "const" else "var")
        if c == G + "regex_push_literal":
            return "literal"
        if c == G + "extract_bracket_expr":
            return "bracket"
        if c == G + "parse_bre":
            return "parse_bre"
        if n == "next" and "Chars" in inst:
            return "next"
        if n == "eq" and "Option<char>" in inst:
            chs = [char_const(fn, a) for a in t.args]
            chs = [x for x in chs if x is not None]
            return "is:%s" % (chs[0] if chs else "?")
        if n in ("is_ok", "is_err"):
            return n
        return None
    return role


def char_brole(fn, bb, o):
    t = fn.blocks[bb].term
    if t.discr.place is not None and t.discr.place.is_local() and fn.local_ty(t.discr.place.local) == "char":
        nm = fn.local_name(t.discr.place.local)
        return "ch:%s" % (nm or "tmp")
    return None


def succ_roles(g, node, label=None):
    return sorted({C.base(x) for x in g.succ(node, label)})


def _subject_alternatives(f, o, b, depth=3):
    """(origin, block whose guards apply) for each value the subject can take: a variable bound by
    `let name = if all_slashes { Cow::Borrowed("/") } else { name };` stands for its two definitions, each under the
    guards of the block that assigns it"""
    leaf = o
    while leaf.kids and (leaf.k in ("ref", "deref") or (leaf.k == "call" and leaf.a["name"] in ("deref", "as_ref", "borrow"))):
        leaf = leaf.kids[0]
    if depth > 0 and leaf.k == "var" and leaf.a.get("local") is not None and not leaf.a.get("is_arg") and leaf.a["local"] not in prim.mut_borrowed(f):
        ds = prim.alternatives(f, leaf.a["local"])
        if 1 < len(ds) <= 6:
            out = []
            for bb, od in ds:
                s_ = od.strip()
                if s_.k == "agg" and str(s_.a) in ("std::borrow::Cow::Borrowed", "std::borrow::Cow::Owned") and len(s_.kids) == 1:
                    od = s_.kids[0]
                out.extend(_subject_alternatives(f, od, bb, depth - 1))
            return out
    return [(o, b)]


def run(ctx):
    prog = ctx.prog
    # ---- R1 subject and truth ---------------------------------------------------------------------------
    subj_src = {"name::NameMatcher": "file_name", "path::PathMatcher": "path", "lname::LinkNameMatcher": "read_link"}
    for ty, src in subj_src.items():
        f = ctx.fn("R1", C.matcher_impl(M + ty, "matches"))
        if f is None:
            continue
        short = ty.split("::")[-1]
        def role(t):
            if t.callee == G + "Pattern::matches_or_report":
                return "glob"
            if (t.callee or "").endswith("lname::read_link_target"):
                return "read_link_target"
            return None
        g = C.G(prim.event_graph(f, role))
        rets = sorted({b for _, _, b in g.edges if b.startswith("RET(")})
        allowed = {"RET(ev:glob)"} | ({"RET(const:False)"} if short == "LinkNameMatcher" else set())
        ctx.ob("R1", "truth=glob-verdict:%s" % short, bool(rets) and set(rets) <= allowed and "RET(ev:glob)" in rets,
               "%s::matches returns %s; it must return the glob engine's verdict on every path (a literal/prefix shortcut is not fnmatch: backslash escapes, case folding)%s" % (short, rets, "; false only when the entry is not a readable link" if short == "LinkNameMatcher" else ""), fn=f, how="event graph")
        if short == "LinkNameMatcher":
            rl = g.nodes("read_link_target")
            ok = len(rl) == 1 and bool(g.succ(rl[0], "1")) and all(C.base(x) == "glob" for x in g.succ(rl[0], "1")) and sorted(set(g.succ(rl[0], "0") + g.succ(rl[0], "else"))) == ["RET(const:False)"] if rl else False
            ctx.ob("R1", "lname-none=>false", ok, "no link target => false; a target => the glob verdict; events: %s" % g.fmt(), fn=f, how="event graph")
        n_sub = 0
        for b, t in f.calls():
            if role(t) == "glob":
                n_sub += 1
                o = prim.expand_single_def_vars(f, prim.origin_of_operand(f, t.args[1]))
                po = prim.origin_of_operand(f, t.args[0]).strip()
                io = prim.origin_of_operand(f, t.args[2]).strip() if len(t.args) > 2 else None
                ctx.ob("R1", "own-pattern:%s" % short, po.k == "field" and po.a == "pattern" and io is not None and any(x.k == "arg" and x.a["name"] == "matcher_io" for x in io.walk()), "matches with %s, reporting through %s" % (po.fmt(), io.fmt() if io is not None else "?"), fn=f, where=prim.site(f, b), how="provenance slice", nontrivial=False)
                for o, gb in _subject_alternatives(f, o, b):
                    so = o.strip()
                    if so.k == "const" and so.a.get("v") == "/":
                        # basename of a root path: all-slash names are matched as "/"
                        gs = prim.dominating_guards(f, gb)
                        ok = any(any(c.a["name"] == "all" for c in gd["pred"].call_nodes()) for gd in gs)
                        ctx.ob("R1", "root-basename-special-case", ok, "the constant subject \"/\" may only be used for names consisting of slashes; guards %s" % prim.guards_fmt(gs), fn=f, where=prim.site(f, gb), how="dominating guard")
                        continue
                    names = [c.a["name"] for c in o.call_nodes()]
                    calls = [c.a["callee"] for c in o.call_nodes()]
                    if src == "file_name":
                        ok_src = any(c == M + "entry::WalkEntry::file_name" for c in calls)
                    elif src == "path":
                        ok_src = any(c == M + "entry::WalkEntry::path" for c in calls) and not any(n in ("file_name", "parent", "strip_prefix", "components") for n in names)
                    else:
                        ok_src = any(c.endswith("lname::read_link_target") for c in calls)
                    bad = [n for n in names if n not in SUBJECT_ID and n not in ("file_name", "path", "read_link_target")]
                    ctx.ob("R1", "subject:%s" % short, ok_src and not bad, "%s matches against %s; oracle: %s through identity conversions (offending: %s)" % (short, o.fmt(), {"file_name": "the entry's last component (WalkEntry::file_name)", "path": "the whole path (WalkEntry::path)", "read_link": "the link's target text"}[src], bad), fn=f, where=prim.site(f, b), how="provenance slice + allow-list")
        ctx.floor("R1", "Pattern::matches_or_report sites in %s" % short, n_sub, 1)
    rl = ctx.fn("R1", M + "lname::read_link_target")
    if rl is not None:
        reads = [(b, t) for b, t in rl.calls() if t.j.get("callee_name") == "read_link"]
        ok = len(reads) == 1
        if ok:
            o = prim.origin_of_operand(rl, reads[0][1].args[0])
            ok = [c.a["callee"] for c in o.call_nodes()] == [M + "entry::WalkEntry::path"]
        ctx.ob("R1", "link-target-source", ok, "the link text is read with read_link on the entry's own path()", fn=rl, how="provenance slice")
        someo = [prim._origin_of_def(rl, d, 8, {0}) for d in prim.local_defs(rl).get(0, []) if d[1] == "assign" and d[0] in rl.reachable()]
        somes = [o for o in someo if o.strip().k == "agg" and str(o.strip().a).endswith("Option::Some")]
        ok = len(somes) == 1 and sorted(c.a["name"] for c in somes[0].call_nodes()) == ["path", "read_link"]
        ctx.ob("R1", "link-target-verbatim", ok, "read_link_target returns %s; must be read_link's result unchanged" % [o.fmt() for o in somes], fn=rl, how="provenance slice")

    # ---- R2 caseless flag --------------------------------------------------------------------------------
    fn, d, arms, info = C.parser_arms(ctx, "R2")
    if arms:
        from ..dispatch import arm_of
        seen_arms = set()
        for tok, want in CASELESS.items():
            a = arm_of(arms, tok)
            if a is None:
                ctx.ob("R2", "token:%s" % tok, False, "token %s is not recognised by the parser" % tok, fn=fn)
                continue
            ctor = a.calls_matching(CTOR[tok] + "::new")
            ok_ctor = len(ctor) == 1 and a.boxed_matcher_types() == [CTOR[tok]]
            got = None
            desc = "?"
            if len(ctor) == 1:
                b, t = ctor[0]
                fo = prim.origin_of_operand(fn, t.args[1]).strip()
                desc = fo.fmt()
                # the flag is a constant or a test of the primary's own token (args[i] before the arm's `i += 1`,
                # args[i - 1] after it), evaluated for this token
                got = C.token_predicate(fn, a, fo, b, tok)
                # the pattern operand: the token that follows the primary, unchanged
                po = prim.origin_of_operand(fn, t.args[0]).strip()
                ok_pat = C.arm_token_abs(fn, a, po, b) == 1
                if id(a) not in seen_arms:
                    ctx.ob("R2", "pattern-operand:%s" % "|".join(a.lits), ok_pat, "the glob is %s; must be the operand token unchanged" % po.fmt(), fn=fn, where=prim.site(fn, b), how="provenance slice")
            seen_arms.add(id(a))
            ctx.ob("R2", "token:%s" % tok, ok_ctor and got is want, "%s builds %s with caseless = %s -> %s for this token; oracle %s" % (tok, [prim.short(x) for x in a.boxed_matcher_types()], desc, got, want), fn=fn, where=prim.site(fn, a.entry), how="dispatch table")
    for ty in ("name::NameMatcher", "path::PathMatcher", "lname::LinkNameMatcher"):
        nf = ctx.fn("R2", M + ty + "::new")
        if nf is None:
            continue
        pn = [(b, t) for b, t in nf.calls() if t.callee == G + "Pattern::new"]
        ok = len(pn) == 1
        if ok:
            a0 = prim.origin_of_operand(nf, pn[0][1].args[0]).strip()
            a1 = prim.origin_of_operand(nf, pn[0][1].args[1]).strip()
            ok = a0.k == "arg" and a0.a["idx"] == 1 and a1.k == "arg" and a1.a["idx"] == 2
        ctx.ob("R2", "ctor-forwards:%s" % ty.split("::")[-1], ok, "%s::new must hand its (pattern, caseless) to Pattern::new unchanged" % ty, fn=nf, how="provenance slice")
    pn = ctx.fn("R2", G + "Pattern::new")
    if pn is not None:
        # options = IGNORECASE iff caseless
        opts = {}
        for b in pn.reachable():
            t = pn.blocks[b].term
            if t.k == "switch":
                pr = prim.switch_pred(pn, b).strip()
                if pr.k == "arg" and pr.a["name"] == "caseless":
                    for lab, tgt in prim.switch_edges(pn, b):
                        reg = pn.reach_from([tgt])
                        names = set()
                        for bb in reg:
                            if not pn.dominates(tgt, bb):
                                continue
                            for s in pn.blocks[bb].stmts:
                                if s.rv is not None and s.rv.k == "use" and s.rv.ops[0].kind == "const":
                                    txt = s.rv.ops[0].const.get("text", "") or ""
                                    for nm in ("REGEX_OPTION_IGNORECASE", "REGEX_OPTION_NONE"):
                                        if nm in txt:
                                            names.add(nm)
                        opts[lab] = names
        ok = opts.get(0) == {"REGEX_OPTION_NONE"} and opts.get("else") == {"REGEX_OPTION_IGNORECASE"}
        ctx.ob("R2", "flag=>IGNORECASE", ok, "Pattern::new option per caseless value: %s; oracle false->NONE, true->IGNORECASE" % opts, fn=pn, how="branch on the parameter + constants")
        # regex = glob_to_regex(pattern).map(parse_bre(.., options))
        for b in pn.reachable():
            for s in pn.blocks[b].stmts:
                if s.rv is not None and s.rv.k == "agg" and s.rv.j.get("adt") == G + "Pattern":
                    o = prim.expand_single_def_vars(pn, prim.origin_of_operand(pn, s.rv.ops[0]))
                    names = [c.a["name"] for c in o.call_nodes()]
                    ok = "glob_to_regex" in names and "map" in names
                    cl = [prog.fns.get(str(x.a)[8:]) for x in o.walk() if x.k == "agg" and str(x.a).startswith("closure:")]
                    okc = False
                    for cf in cl:
                        if cf is None:
                            continue
                        ctx.analysed_fns.add(cf.path)
                        pcs = [(bb, tt) for bb, tt in cf.calls() if tt.callee == G + "parse_bre"]
                        if len(pcs) == 1:
                            oo = prim.origin_of_operand(cf, pcs[0][1].args[1])
                            okc = any(x.k == "field" for x in oo.walk()) or any(x.k == "arg" for x in oo.walk())
                    ctx.ob("R3", "compile-path", ok and okc, "Pattern.regex = %s; must be glob_to_regex(pattern) compiled by parse_bre with the chosen options (None = never matches)" % o.fmt()[:300], fn=pn, where=prim.site(pn, b, s), how="provenance slice through the closure")

        # what is translated is the pattern as given (no trimming, folding or other pre-pass on the text)
        for b, t in pn.calls():
            if t.callee == G + "glob_to_regex":
                ao = prim.origin_of_operand(pn, t.args[0]).strip()
                ctx.ob("R3", "translates-the-pattern-as-given", ao.k == "arg" and ao.a.get("idx") == 1, "glob_to_regex is given %s; must be Pattern::new's own pattern argument unchanged" % ao.fmt(), fn=pn, where=prim.site(pn, b), how="provenance slice")

    # ---- R3 whole-string API --------------------------------------------------------------------------------
    n_match = 0
    for f, b, t in prog.all_calls():
        c = t.callee or ""
        if c.startswith("onig::Regex::") and f.path.startswith(G):
            n = t.j.get("callee_name")
            if n in ("new", "with_options", "with_options_and_encoding", "with_encoding"):
                continue
            n_match += 1
            ctx.ob("R3", "match-api:%s@%s" % (n, prim.short(f.path)), n == "match_with_param",
                   "glob matching calls onig::Regex::%s in %s; oracle match_with_param: it returns a failed match (retry limit on many wildcards) as Err where is_match/find/captures/match_with_options panic (contract O3), and its Ok(Some(n)) is the byte length matched from the start (contract O2)" % (n, f.path), fn=f, where=prim.site(f, b), how="who-may-call")
    ctx.floor("R3", "onig match calls in glob.rs", n_match, 1)
    pm = ctx.fn("R3", G + "Pattern::try_matches")
    if pm is not None:
        alts = [a.strip() for a in prim.flatten_phi(prim.origin_of_local(pm, 0))]
        desc = " | ".join(a.fmt()[:200] for a in alts)
        none_false = [a for a in alts if a.k == "agg" and str(a.a).endswith("Ok") and a.kids and a.kids[0].strip().k == "const" and a.kids[0].strip().a.get("v") in (False, 0)]
        errs = [a for a in alts if a.k == "call" and a.a["name"] == "from_residual"]
        oks = [a for a in alts if a.k == "agg" and str(a.a).endswith("Ok") and a not in none_false]
        ok = len(none_false) == 1 and len(errs) == 1 and len(oks) == 1 and len(alts) == 3
        if ok:
            v = oks[0].kids[0].strip()
            mcs = [c for c in v.call_nodes() if c.a["callee"] == "onig::Regex::match_with_param"]
            ok = v.k == "call" and v.a["name"] == "eq" and len(mcs) == 1
            if ok:
                mc = mcs[0]
                recv, subj, at, opts, region = [k.strip() for k in mc.kids[:5]]
                ok = any(x.k == "field" and str(x.a) == "regex" for x in recv.walk()) and subj.k == "arg" and subj.a["name"] == "string" and not subj.call_nodes()
                ok = ok and at.k == "const" and at.a.get("v") == 0 and opts.k == "const" and opts.a.get("v") == 0 and region.k == "agg" and str(region.a).endswith("None")
                l, r = [k.strip() for k in v.kids]
                def is_len(x):
                    return x.k == "agg" and str(x.a).endswith("Some") and [c.a["name"] for c in x.call_nodes()] == ["len"] and any(y.k == "arg" and y.a["name"] == "string" for y in x.walk()) and not any(y.k == "bin" for y in x.walk())
                def is_payload(x):
                    return any(y.k == "variant" and str(y.a) in ("Continue", "Ok") for y in x.walk()) and any(c is mc for c in x.call_nodes())
                ok = ok and ((is_payload(l) and is_len(r)) or (is_payload(r) and is_len(l)))
                ok = ok and any(c is mc or c.a["callee"] == "onig::Regex::match_with_param" for c in errs[0].call_nodes())
        ctx.ob("R3", "verdict=whole-string-match", ok, "Pattern::try_matches = %s; oracle: Ok(false) without a regex, otherwise match_with_param(regex, string, at 0, no options, no region)? == Some(string.len())" % desc, fn=pm, how="provenance slice")
        # the None branch is the only constant verdict: it is guarded by the regex being absent
        for b in pm.reachable():
            for st in pm.blocks[b].stmts:
                if st.rv is not None and st.rv.k == "agg" and st.rv.j.get("variant") == "Ok" and st.rv.ops and st.rv.ops[0].kind == "const":
                    gs = prim.dominating_guards(pm, b)
                    okn = any(any(x.k == "field" and str(x.a) == "regex" for x in gd["pred"].walk()) and gd["labels"] in ([0], ["else"]) for gd in gs)
                    ctx.ob("R3", "constant-verdict-only-without-regex", okn, "Ok(false) is returned under %s; oracle: only when the pattern has no regex (invalid bracket expression => never matches)" % prim.guards_fmt(gs)[:200], fn=pm, where=prim.site(pm, b, st), how="dominating guard")
    mr = ctx.fn("R3", G + "Pattern::matches_or_report")
    if mr is not None:
        o = prim.origin_of_local(mr, 0).strip()
        ok = o.k == "call" and o.a["name"] == "unwrap_or_else" and len(o.kids) == 2
        if ok:
            tm, clo = o.kids[0].strip(), o.kids[1].strip()
            ok = tm.k == "call" and tm.a["callee"] == G + "Pattern::try_matches" and [k.strip().k for k in tm.kids] == ["arg", "arg"] and tm.kids[0].strip().a["name"] == "self" and tm.kids[1].strip().a["name"] == "string"
        cls = prog.closures_of(mr)
        okc = len(cls) == 1
        if okc:
            cf = cls[0]
            ctx.analysed_fns.add(cf.path)
            ro = prim.origin_of_local(cf, 0).strip()
            names = [(t.callee or "") for b, t in cf.calls()]
            codes = [prim.origin_of_operand(cf, t.args[1]).strip() for b, t in cf.calls() if t.j.get("callee_name") == "set_exit_code"]
            okc = ro.k == "const" and ro.a.get("v") in (False, 0) and "std::io::_eprint" in names and len(codes) == 1 and codes[0].k == "const" and codes[0].a.get("v") not in (0, None)
            # straight-line: both effects on every path
            okc = okc and not any(cf.blocks[b].term.k == "switch" for b in cf.reachable())
        ctx.ob("R3", "verdict=try_matches-or-diagnosed-false", ok and okc, "Pattern::matches_or_report = %s; oracle: try_matches(self, string), and on a failed match: a diagnostic on stderr, a non-zero exit status, and false" % o.fmt()[:300], fn=mr, how="provenance slice through the closure")
    pb = ctx.fn("R3", G + "parse_bre")
    if pb is not None:
        wo = [(b, t) for b, t in pb.calls() if (t.callee or "").startswith("onig::Regex::with_options")]
        ok = len(wo) == 1
        desc = ""
        if ok:
            t = wo[0][1]
            eo = prim.origin_of_operand(pb, t.args[0]).strip()
            oo = prim.origin_of_operand(pb, t.args[1])
            so = prim.origin_of_operand(pb, t.args[2])
            syn = [c.a["name"] for c in so.call_nodes()]
            optc = [c.a["name"] for c in oo.call_nodes()]
            desc = "expr=%s options=%s syntax=%s" % (eo.fmt(), oo.fmt(), so.fmt())
            ok = eo.k == "arg" and syn == ["posix_basic"] and "bitor" in optc and "options" in optc and any(x.k == "arg" and x.a["name"] == "options" for x in oo.walk()) and "posix_basic" in optc
        ctx.ob("R3", "bre-compile", ok, "parse_bre compiles with %s; must be Regex::with_options(expr, posix_basic.options() | options, posix_basic) — the syntax's own options make '.' match newline and are required for fnmatch semantics" % desc, fn=pb, how="provenance slice")

    # ---- R4 translation tables -------------------------------------------------------------------------------
    gf = ctx.fn("R4", G + "glob_to_regex")
    if gf is not None:
        g = C.G(prim.event_graph(gf, glob_role(gf), branch_role=char_brole))
        # the characters scanned are those of the function's own argument — or, after a bracket expression, of the tail that
        # the bracket parser hands back; never of a rewritten copy of the pattern
        n_it = 0
        for l_, ds_ in sorted(prim.local_defs(gf).items()):
            if not str(gf.local_ty(l_)).startswith(("std::str::Chars", "core::str::Chars")) or gf.local_name(l_) is None:
                continue
            for d_ in ds_:
                if d_[1] == "partial":
                    continue
                n_it += 1
                o_ = prim._origin_of_def(gf, d_, 10, {l_}).strip()
                ok_ = o_.k == "call" and o_.a["name"] == "chars" and len(o_.kids) == 1
                src_ = prim.expand_single_def_vars(gf, o_.kids[0]).strip() if ok_ else None
                if ok_:
                    from_arg = src_.k == "arg" and src_.a.get("idx") == 1
                    from_tail = any(c.a["callee"] == G + "extract_bracket_expr" for c in src_.call_nodes()) and all(c.a["callee"] == G + "extract_bracket_expr" or c.a["name"] in ("as_str", "branch") for c in src_.call_nodes())
                    ok_ = from_arg or from_tail
                ctx.ob("R4", "scans-the-pattern-itself", ok_, "the character iterator of glob_to_regex is %s; must be pattern.chars() of the argument itself, or the unscanned tail returned by extract_bracket_expr" % o_.fmt()[:200], fn=gf, where=prim.site(gf, d_[0]), how="provenance slice")
        ctx.floor("R4", "definitions of the scanned character iterator", n_it, 1)
        heads = [n for n in g.out if C.base(n).startswith("ch:")]
        ctx.ob("R4", "char-dispatch", len(heads) == 1, "glob_to_regex must dispatch on the pattern character at one place; found %s" % heads, fn=gf, how="event graph")
        if len(heads) == 1:
            h = heads[0]
            labels = sorted({l.split(",")[0] for l, _ in g.out[h]})
            want_rows = {str(ord("?")): ["push:."], str(ord("*")): ["push_str:.*"], str(ord("\\")): ["next"], str(ord("[")): ["bracket"], "else": ["literal"]}
            for lab, want in want_rows.items():
                got = succ_roles(g, h, lab)
                ch = chr(int(lab)) if lab != "else" else "any other character"
                ctx.ob("R4", "row:%s" % (repr(ch) if lab != "else" else "other"), got == want, "glob character %r is translated by %s; oracle %s" % (ch, got, want), fn=gf, how="char dispatch table")
            extra = [l for l in labels if l not in want_rows]
            ctx.ob("R4", "no-other-special-characters", not extra, "glob_to_regex treats %s specially; fnmatch knows no other special characters" % [chr(int(x)) for x in extra], fn=gf, how="char dispatch table")
            # after each simple row: back to the loop (next) and nothing else
            for lab in (str(ord("?")), str(ord("*")), "else"):
                for n in g.succ(h, lab):
                    ctx.ob("R4", "row-continues:%s" % lab, succ_roles(g, n) == ["next"], "after translating the character the scan continues; successors %s" % succ_roles(g, n), fn=gf, how="event graph", nontrivial=False)
            # backslash row
            for n in g.succ(h, str(ord("\\"))):
                some = succ_roles(g, n, "1")
                none = sorted(g.succ(n, "0") + g.succ(n, "else"))
                ok = some == ["literal"] and bool(none) and all(x.startswith("RET(agg:Option::None") for x in none)
                ctx.ob("R4", "backslash", ok, "a backslash makes the next character literal (%s) and a trailing lone backslash yields a pattern that never matches (%s)" % (some, none), fn=gf, how="event graph")
            # bracket row
            for n in g.succ(h, str(ord("["))):
                some = succ_roles(g, n, "1")
                none = sorted(set(succ_roles(g, n, "0") + succ_roles(g, n, "else")))
                ctx.ob("R4", "bracket-or-literal", some == ["push_str:var"] and none == ["literal"], "'[' followed by a valid bracket expression emits it (%s), otherwise '[' is a literal (%s)" % (some, none), fn=gf, how="event graph")
            # the literal call receives the character itself
            for b, t in gf.calls():
                if t.callee == G + "regex_push_literal":
                    o = prim.origin_of_operand(gf, t.args[1]).strip()
                    ok = (o.k == "var" and o.a.get("name") == "ch") or (o.k == "field" and any(c.a["name"] == "next" for c in o.call_nodes())) or (o.k == "variant")
                    ok = ok or any(c.a["name"] == "next" for c in o.call_nodes())
                    ctx.ob("R4", "literal-operand", ok and not [c for c in o.call_nodes() if c.a["name"] not in ("next",)], "regex_push_literal receives %s; must be the scanned character unchanged" % o.fmt(), fn=gf, where=prim.site(gf, b), how="provenance slice", nontrivial=False)
            # bracket: rest of the pattern handed over, scan resumes after it
            for b, t in gf.calls():
                if t.callee == G + "extract_bracket_expr":
                    o = prim.origin_of_operand(gf, t.args[0])
                    ok = [c.a["name"] for c in o.call_nodes()] == ["as_str"]
                    ctx.ob("R4", "bracket-operand", ok, "extract_bracket_expr is given %s; must be the unscanned rest (chars.as_str())" % o.fmt(), fn=gf, where=prim.site(gf, b), how="provenance slice", nontrivial=False)
        # result: Some(regex) at end of input
        rets = sorted({b for _, _, b in g.edges if b.startswith("RET(")})
        ctx.ob("R4", "returns", set(rets) <= {"RET(agg:Option::Some)", "RET(agg:Option::None)"} and "RET(agg:Option::Some)" in rets, "glob_to_regex returns %s" % rets, fn=gf, how="event graph", nontrivial=False)
    lf = ctx.fn("R4", G + "regex_push_literal")
    if lf is not None:
        g = C.G(prim.event_graph(lf, glob_role(lf), branch_role=char_brole))
        heads = [n for n in g.out if C.base(n).startswith("ch:")]
        esc = set()
        ok_shape = len(heads) == 1
        if ok_shape:
            h = heads[0]
            for l, b in g.out[h]:
                first = l.split(",")[0]
                if first != "else" and C.base(b) == "push:\\":
                    esc.add(chr(int(first)))
            els = succ_roles(g, h, "else")
            ok_shape = els == ["push:var"]
            for n in g.nodes("push:\\"):
                ok_shape = ok_shape and succ_roles(g, n) == ["push:var"]
            for n in g.nodes("push:var"):
                ok_shape = ok_shape and all(x.startswith("RET(") for x in g.succ(n))
        ctx.ob("R4", "escape-set", esc == BRE_SPECIALS, "regex_push_literal escapes %s; oracle: exactly the BRE special characters %s (a missing one turns a literal into an operator/anchor; an extra one, e.g. '+' or '{', turns a literal into an onig operator)" % (sorted(esc), sorted(BRE_SPECIALS)), fn=lf, how="char dispatch table")
        ctx.ob("R4", "escape-shape", ok_shape, "regex_push_literal must push a backslash for a special character and then, always, the character itself; events: %s" % g.fmt(), fn=lf, how="event graph")
    bf = ctx.fn("R4", G + "extract_bracket_expr")
    if bf is not None:
        g = C.G(prim.event_graph(bf, glob_role(bf), branch_role=char_brole))
        ent = succ_roles(g, "ENTRY")
        bang = g.nodes("is:!")
        rb = g.nodes("is:]")
        ok = len(bang) == 1 and len(rb) == 1
        detail = g.fmt()
        if ok:
            t1 = g.succ(bang[0], "else")
            f1 = g.succ(bang[0], "0")
            ok = [C.base(x) for x in t1] == ["push:^"] and f1 == rb
            for n in t1:
                nx = g.succ(n)
                ok = ok and [C.base(x) for x in nx] == ["next"] and all(g.succ(x) == rb for x in nx)
            t2 = g.succ(rb[0], "else")
            ok = ok and [C.base(x) for x in t2] == ["push:]"]
            # the first event is the first character read, which feeds the '!' test
            ok = ok and ent == ["next"] and all(g.succ(x) == bang for x in g.succ("ENTRY"))
        ctx.ob("R4", "bracket-prologue", ok, "bracket prologue: read a char; '!' => emit '^' and read on; then (in both cases) a leading ']' is emitted as a literal member. events: %s" % detail, fn=bf, how="event graph")
        # validity check decides Some/None
        pcs = g.nodes("parse_bre")
        okv = len(pcs) == 1
        if okv:
            nxt = g.succ(pcs[0])
            okv = all(C.base(x) in ("is_ok", "is_err") for x in nxt) and bool(nxt)
            for x in nxt:
                tr = g.succ(x, "else")
                fa = g.succ(x, "0")
                if C.base(x) == "is_err":
                    tr, fa = fa, tr
                okv = okv and all(y.startswith("RET(agg:Option::Some") for y in tr) and all(y.startswith("RET(agg:Option::None") for y in fa) and bool(tr) and bool(fa)
        if not okv and len(pcs) == 1:
            # `parse_bre(..).ok()?; Some(..)`: the outcome of the compile itself decides (Ok = 0 => Some, Err = 1 => None)
            s0, s1 = g.succ(pcs[0], "0"), g.succ(pcs[0], "1")
            okv = bool(s0) and bool(s1) and all(y.startswith("RET(agg:Option::Some") for y in s0) and all(y.startswith("RET(agg:Option::None") for y in s1) and sorted(set(g.succ(pcs[0]))) == sorted(set(s0 + s1))
        if not okv:
            # the same decision spelled with a combinator: `parse_bre(..).is_ok().then_some(..)` (or `.then(|| ..)`)
            ro = prim.expand_single_def_vars(bf, prim.origin_of_local(bf, 0))
            for alt in prim.flatten_phi(ro):
                a = alt.strip()
                if a.k == "call" and a.a["name"] in ("then_some", "then") and a.kids:
                    c0 = prim.expand_single_def_vars(bf, a.kids[0]).strip()
                    if c0.k == "call" and c0.a["name"] == "is_ok" and any(c.a["name"] == "parse_bre" for c in c0.call_nodes()) and not any(x.k == "un" for x in c0.walk()):
                        okv = True
        ctx.ob("R4", "bracket-validated", okv, "a bracket expression is accepted exactly when it compiles as a BRE (parse_bre ok => Some, else None => literal '[')", fn=bf, how="event graph")
        for b, t in bf.calls():
            if t.callee == G + "parse_bre":
                o = prim.origin_of_operand(bf, t.args[0])
                ok = any(x.k == "var" and x.a.get("name") == "expr" for x in o.walk()) or "expr" in o.fmt()
                ctx.ob("R4", "bracket-validates-what-it-returns", ok, "parse_bre checks %s" % o.fmt(), fn=bf, where=prim.site(bf, b), how="provenance slice", nontrivial=False)
