"""C07 — find -print0 paths are byte-exact and survive the pipe into xargs -0."""
from .. import fmtlit, prim
from . import common as C

M = C.M
X = C.X
META = {
    "explanation": "R1 verbatim print: Printer::print hands the entry's own path (WalkEntry::path through allow-listed identity conversions only) and the delimiter to one write_fmt whose compiled template is exactly two bare placeholders with no literal text; the record is written by a complete-write API (write_fmt/write_all, never a bare Write::write whose count is dropped); "
                   "the delimiter's Display writes exactly one \\n / one \\0; -print/-fprint construct Newline, -print0/-fprint0 construct Null; Printer::matches prints exactly once and is true on every path; "
                   "R2 path source: WalkEntry::path returns walkdir's path or the stored copy, every stored copy is made from walkdir's path by identity conversions, WalkDir::new receives the starting point string unmodified; "
                   "R2 also: the operands reach the walk as typed (C18.R1, imported); R3 no interpretation on the xargs side in -0/-d mode and reader selection (clauses shared with C05); R4 verbatim delivery: accepted bytes are pushed unchanged, every argument reaches exactly one batch in order, argv = initial arguments then the batch (clauses shared with C04)",
    "decides": "that nothing is escaped, normalised, added or partially written between the walker's path and find's output, and nothing is interpreted, dropped or duplicated between xargs' NUL-delimited input and the child's argv",
    "does_not_decide": "walkdir's path joining (starting point + '/' + names); behaviour for names that are not valid UTF-8 (outside the property)",
}

PRINT = M + "printer::Printer::print"
IDENTITY = {
    "to_string_lossy": "identity on valid UTF-8 (the property's domain)",
    "deref": "smart-pointer deref", "as_ref": "borrow", "borrow": "borrow", "into": "std string/path type conversion",
    "from": "std string/path type conversion", "to_owned": "copy", "to_path_buf": "copy", "as_path": "borrow",
    "as_os_str": "borrow", "as_bytes": "borrow", "into_owned": "copy-on-write to owned", "to_os_string": "copy",
    "clone": "copy", "into_os_string": "move", "as_str": "borrow", "to_str": "checked borrow", "display": "Display adapter of Path (lossy only on invalid UTF-8)",
    "as_os_string": "borrow", "into_path": "move", "into_string": "move", "as_mut": "borrow", "new": "Path::new/OsStr::new wrappers (checked by type below)",
}
PATH_TYPES = ("Path", "PathBuf", "OsStr", "OsString", "str", "String", "Cow")


SOURCES = (M + "entry::WalkEntry::path", "walkdir::DirEntry::path", M + "entry::WalkError::path", "walkdir::Error::path")
TRANSPARENT = ("map_err",)      # leaves the Ok payload untouched; the Err side is WalkError::from, checked by walkerror-path


def non_identity(o, extra_ok=()):
    """calls in a provenance tree that are neither path sources nor allow-listed identity conversions"""
    bad = []
    o = prim.simplify(o)
    for c in o.call_nodes():
        n = c.a.get("name")
        if c.a["callee"] in SOURCES or n in TRANSPARENT or n in extra_ok:
            continue
        if n in IDENTITY:
            if n == "new" and not any(t in c.a["callee"] for t in ("path::Path", "ffi::OsStr")):
                bad.append(c.a["callee"])
            continue
        bad.append(c.a["callee"])
    for x in o.walk():
        if x.k in ("bin", "index", "unknown", "cast"):
            bad.append("<%s>" % x.k)
    return bad


def run(ctx):
    prog = ctx.prog
    # ---- R1 Printer::print ----------------------------------------------------------------------------
    f = ctx.fn("R1", PRINT)
    if f is not None:
        writes = []
        for b, t in f.calls():
            n = t.j.get("callee_name")
            inst = (t.j.get("callee_inst") or "")
            if "io::Write" in inst or "std::io::Write" in (t.j.get("callee_trait") or ""):
                recv = prim.origin_of_operand(f, t.args[0]) if t.args else None
                is_out = recv is not None and any(x.k == "arg" and x.a["name"] == "out" for x in recv.walk())
                if is_out:
                    writes.append((b, t, n))
        data = [(b, t, n) for b, t, n in writes if n not in ("flush",)]
        ctx.ob("R1", "single-write", len(data) == 1, "Printer::print writes to its output at %d site(s) (%s); one complete write per record expected" % (len(data), [n for _, _, n in data]), fn=f, how="call sites on the output handle")
        for b, t, n in data:
            ctx.ob("R1", "complete-write-api", n in ("write_fmt", "write_all"),
                   "the record is written with Write::%s; only write_fmt (write!) and write_all retry until every byte is out — Write::write may stop short (pipes, 1 KiB+ records after a newline in a line-buffered stdout) and the remainder of the path is lost" % n,
                   fn=f, where=prim.site(f, b), how="API contract std::io::Write::write")
            if n == "write_fmt":
                try:
                    fc = fmtlit.format_call_of_operand(f, t.args[1])
                except fmtlit.FmtError as e:
                    fc = None
                    ctx.ob("R1", "template-decodable", False, "format template not decodable: %s" % e, fn=f, where=prim.site(f, b))
                if fc is None:
                    ctx.ob("R1", "template", False, "write_fmt argument is not a format_args! built in this body (cannot decide)", fn=f, where=prim.site(f, b))
                    continue
                ph = fc.placeholders()
                ok = fc.literal_text() == "" and len(ph) == 2 and all(p["plain"] for p in ph) and [p["index"] for p in ph] == [0, 1] and all(a[0] == "display" for a in fc.args)
                ctx.ob("R1", "template", ok, "the record template is %r; must be exactly `{}{}` (path, delimiter): no literal text, no width/precision, Display (not Debug, which would quote and escape)" % fc.shape(), fn=f, where=prim.site(f, b), how="compiled fmt::Arguments template decoded")
                if len(fc.args) == 2:
                    po, do = fc.args[0][1], fc.args[1][1]
                    bad = non_identity(po)
                    src = [c for c in po.call_nodes() if c.a["callee"] == M + "entry::WalkEntry::path"]
                    ok = not bad and len(src) == 1 and src[0].kids[0].strip().k == "arg"
                    ctx.ob("R1", "path-verbatim", ok, "the printed value is %s; must be the entry's WalkEntry::path() through identity conversions only (offending: %s)" % (po.fmt(), bad), fn=f, where=prim.site(f, b), how="provenance slice + allow-list")
                    ds = do.strip()
                    ctx.ob("R1", "delimiter-operand", ds.k == "field" and ds.a == "delimiter", "the second placeholder prints %s; must be self.delimiter" % do.fmt(), fn=f, where=prim.site(f, b), how="provenance slice")
            elif n == "write_all":
                o = prim.origin_of_operand(f, t.args[1])
                ctx.ob("R1", "path-verbatim", False, "record assembled outside a format template (%s): not an accepted idiom, cannot decide" % o.fmt(), fn=f, where=prim.site(f, b))
    # delimiter Display
    df = ctx.fn("R1", "<%sprinter::PrintDelimiter as std::fmt::Display>::fmt" % M)
    if df is not None:
        adt = prog.adts.get(M + "printer::PrintDelimiter")
        names = {v["idx"]: v["name"] for v in adt["variants"]} if adt else {}
        want = {"Newline": "\n", "Null": "\0"}
        got = {}
        for b in df.reachable():
            t = df.blocks[b].term
            if t.k == "switch":
                ty = prim.discr_type_of_switch(df, b)
                if ty and ty.endswith("PrintDelimiter"):
                    for lab, tgt in prim.switch_edges(df, b):
                        if lab == "else":
                            continue
                        reg = df.reach_from([tgt])
                        texts = []
                        for bb in sorted(reg):
                            try:
                                fc = fmtlit.format_call_at(df, bb)
                            except fmtlit.FmtError:
                                fc = None
                            if fc is not None and df.dominates(tgt, bb):
                                texts.append(fc.shape())
                        if not texts:
                            # `f.write_str(self.as_str())`: the arm only chooses the text, one write after the match emits it
                            ws_ = [(b2, t2) for b2, t2 in df.calls() if t2.j.get("callee_name") == "write_str" and b2 in reg]
                            if len(ws_) == 1:
                                alts_ = [a_.strip() for a_ in prim.flatten_phi(prim.resolve_promoted(df, prim.origin_of_operand(df, ws_[0][1].args[1])))]
                                mine = []
                                for bb in sorted(reg):
                                    if not df.dominates(tgt, bb):
                                        continue
                                    for s_ in df.blocks[bb].stmts:
                                        if s_.rv is not None and s_.rv.k == "use" and s_.rv.ops and s_.rv.ops[0].kind == "const" and s_.rv.ops[0].const.get("k") == "str":
                                            mine.append(s_.rv.ops[0].const_value())
                                if len(mine) == 1 and all(a_.k == "const" for a_ in alts_) and mine[0] in [a_.a.get("v") for a_ in alts_]:
                                    texts = [mine[0].replace("{", "{{").replace("}", "}}")]
                        got[names.get(lab, lab)] = texts
        for v, w in want.items():
            ctx.ob("R1", "delimiter:%s" % v, got.get(v) == [w], "PrintDelimiter::%s is displayed as %r; must be exactly %r (one byte, nothing else)" % (v, got.get(v), w), fn=df, how="discriminant dispatch + decoded template")
    # token -> delimiter
    fn, d, arms, info = C.parser_arms(ctx, "R1")
    if arms:
        from ..dispatch import arm_of
        for tok, want in (("-print", "Newline"), ("-print0", "Null"), ("-fprint", "Newline"), ("-fprint0", "Null")):
            a = arm_of(arms, tok)
            if a is None:
                ctx.missing("R1", "parser arm for %s" % tok)
                continue
            feas = C.arm_blocks_for_token(fn, a, tok)
            news = [(b, t) for b, t in a.calls_matching("printer::Printer::new") if b in feas]
            ds = []
            for b, t in news:
                for o in C.alternatives_for_token(fn, a, prim.origin_of_operand(fn, t.args[0]), tok):
                    o = o.strip()
                    ds.append(str(o.a).split("::")[-1] if o.k == "agg" else o.fmt())
            ctx.ob("R1", "token:%s" % tok, ds == [want] and a.boxed_matcher_types() == [M + "printer::Printer"], "%s constructs Printer with delimiter %s (boxed %s); oracle %s" % (tok, ds, [prim.short(x) for x in a.boxed_matcher_types()], want), fn=fn, where=prim.site(fn, a.entry), how="dispatch table")
    # default -print added by build_top_level_matcher uses Newline
    bt = ctx.fn("R1", C.BTLM)
    if bt is not None:
        news = [(b, t) for b, t in bt.calls() if (t.callee or "").endswith("printer::Printer::new")]
        for b, t in news:
            o = prim.origin_of_operand(bt, t.args[0]).strip()
            ctx.ob("R1", "default-print-delimiter", o.k == "agg" and str(o.a).endswith("PrintDelimiter::Newline"), "the implicit -print uses %s" % o.fmt(), fn=bt, where=prim.site(bt, b), how="constant argument")
    # Printer::matches: one print, true
    pm = ctx.fn("R1", C.matcher_impl(M + "printer::Printer", "matches"))
    if pm is not None:
        def role(t):
            if t.callee and t.callee.startswith(PRINT):
                return "print"
            return None
        g = C.G(prim.event_graph(pm, role))
        pn = g.nodes("print")
        ok = bool(pn) and all(C.base(x) == "print" for x in g.succ("ENTRY")) and all(x == "RET(const:True)" for n in pn for x in g.succ(n))
        ctx.ob("R1", "matches-prints-once-and-is-true", ok, "Printer::matches must print exactly once on every path and return true; events: %s" % g.fmt(), fn=pm, how="event graph")
        for b, t in pm.calls():
            if role(t) == "print":
                o = prim.origin_of_operand(pm, t.args[1]).strip()
                ctx.ob("R1", "prints-this-entry", o.k == "arg", "print is given %s; must be the entry being evaluated" % o.fmt(), fn=pm, where=prim.site(pm, b), how="provenance slice")

    # ---- R2 path source ---------------------------------------------------------------------------------
    wp = ctx.fn("R2", M + "entry::WalkEntry::path")
    if wp is not None:
        srcs = []
        alts = []
        for bb, o in prim.defs_origins(wp, 0):
            if bb in wp.reachable():
                alts.extend((bb, a) for a in prim.flatten_phi(o))
        for bb, o in alts:
            bad = non_identity(o)
            names = [c.a["callee"] for c in o.call_nodes()]
            is_wd = any(c == "walkdir::DirEntry::path" for c in names)
            is_stored = any(x.k == "variant" and str(x.a) in ("Explicit", "0") for x in o.walk()) or any(x.k == "field" and x.a == "inner" for x in o.walk())
            srcs.append((o.fmt(), bad, is_wd, is_stored))
            ctx.ob("R2", "path-accessor", not bad and (is_wd or is_stored), "WalkEntry::path returns %s; must be walkdir's DirEntry::path() or the stored copy, unchanged (offending: %s)" % (o.fmt(), bad), fn=wp, where=prim.site(wp, bb), how="provenance slice + allow-list")
        ctx.floor("R2", "return values of WalkEntry::path", len(srcs), 2)
    # every Entry::Explicit construction stores an identity copy of a walkdir path
    n_exp = 0
    for f2 in prog.fns.values():
        if f2.crate != "findutils":
            continue
        for b in f2.reachable():
            for s in f2.blocks[b].stmts:
                if s.rv is not None and s.rv.k == "agg" and s.rv.j.get("adt") == M + "entry::Entry" and s.rv.j.get("variant") == "Explicit":
                    n_exp += 1
                    o = prim.origin_of_operand(f2, s.rv.ops[0])
                    bad = non_identity(o)
                    names = [c.a["callee"] for c in o.call_nodes()]
                    from_wd = any(c in ("walkdir::DirEntry::path", M + "entry::WalkError::path") for c in names) or any(x.k == "arg" for x in o.walk())
                    ctx.ob("R2", "explicit-entry-path@%s" % prim.short(f2.path), not bad and from_wd, "Entry::Explicit stores %s; must be an identity copy of the walker's path (offending: %s)" % (o.fmt(), bad), fn=f2, where=prim.site(f2, b, s), how="provenance slice + allow-list")
    ctx.floor("R2", "Entry::Explicit construction sites", n_exp, 2)
    # WalkEntry::new callers (outside the type) pass a walkdir path
    for f2, b, t in prog.all_calls():
        if (t.callee or "").startswith(M + "entry::WalkEntry::new") and f2.crate == "findutils":
            o = prim.origin_of_operand(f2, t.args[0])
            bad = non_identity(o)
            names = [c.a["callee"] for c in o.call_nodes()]
            ctx.ob("R2", "walkentry-new-arg@%s" % prim.short(f2.path), not bad and any(c == "walkdir::DirEntry::path" for c in names), "WalkEntry::new receives %s; must be the walker's own path" % o.fmt(), fn=f2, where=prim.site(f2, b), how="provenance slice + allow-list")
    # WalkError path: copy of walkdir::Error::path
    we = prog.fns.get("<%sentry::WalkError as std::convert::From<&walkdir::Error>>::from" % M)
    if we is None:
        ctx.missing("R2", "From<&walkdir::Error> for WalkError")
    else:
        ctx.analysed_fns.add(we.path)
        for b in we.reachable():
            for s in we.blocks[b].stmts:
                if s.rv is not None and s.rv.k == "agg" and s.rv.j.get("adt") == M + "entry::WalkError":
                    names = s.rv.j["fields"]
                    o = prim.origin_of_operand(we, s.rv.ops[names.index("path")])
                    cl = [prog.fns.get(str(x.a)[8:]) for x in o.walk() if x.k == "agg" and str(x.a).startswith("closure:")]
                    okc = True
                    for cf in cl:
                        if cf is not None:
                            ctx.analysed_fns.add(cf.path)
                            if non_identity(prim.origin_of_local(cf, 0)):
                                okc = False
                    calls = [c.a["name"] for c in o.call_nodes()]
                    ctx.ob("R2", "walkerror-path", okc and "path" in calls and set(calls) <= {"path", "map", "cloned", "to_owned"} | set(IDENTITY), "WalkError.path = %s; must be walkdir::Error::path() copied unchanged" % o.fmt(), fn=we, where=prim.site(we, b, s), how="provenance slice + allow-list")
    # WalkDir::new(starting point)
    pf = ctx.fn("R2", C.PROCESS_DIR)
    if pf is not None:
        wn = [(b, t) for b, t in pf.calls() if (t.callee or "").startswith("walkdir::WalkDir::new")]
        ctx.ob("R2", "walk-root-site", len(wn) == 1, "process_dir creates %d walkers; one expected" % len(wn), fn=pf, nontrivial=False)
        for b, t in wn:
            o = prim.origin_of_operand(pf, t.args[0]).strip()
            ctx.ob("R2", "walk-root-verbatim", o.k == "arg", "WalkDir::new receives %s; must be the starting point string exactly as given (every printed path begins with it)" % o.fmt(), fn=pf, where=prim.site(pf, b), how="provenance slice")
    df2 = ctx.fn("R2", C.DO_FIND)
    if df2 is not None:
        for b, t in df2.calls():
            if t.callee == C.PROCESS_DIR:
                o = prim.expand_single_def_vars(df2, prim.origin_of_operand(df2, t.args[0]))
                bad = non_identity(o, extra_ok=("next", "into_iter", "iter", "branch", "parse_args"))
                it = any(c.a["name"] == "next" for c in o.call_nodes())
                ctx.ob("R2", "starting-point-verbatim", it and not bad and any(x.k == "field" and x.a == "paths" for x in o.walk()), "process_dir is given %s; must be an element of the parsed starting points, unchanged (offending: %s)" % (o.fmt(), bad), fn=df2, where=prim.site(df2, b), how="provenance slice + allow-list")

    # ---- R3 / R4 shared clauses ---------------------------------------------------------------------------
    C.import_rules(ctx, "C05", ["R1", "R2"], "R3")
    C.import_rules(ctx, "C04", ["R1", "R2", "R3", "R4", "R5"], "R4")
    # every path is delivered only if no command line is refused by exec: the system budget (C06.R1, R2)
    C.import_rules(ctx, "C06", ["R1", "R2"], "R4", key_prefix="budget")
    # "the starting point as given": the operands reach the walk as they were typed (C18.R1). Imported last: C18 in turn
    # imports R2 of this property, which is complete by now.
    C.import_rules(ctx, "C18", ["R1"], "R2", key_prefix="as-given")
