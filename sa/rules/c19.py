"""C19 — xargs exit status is the documented function of its children's outcomes."""
import itertools

from .. import audit, panic, prim
from . import common as C

X = C.X
META = {
    "explanation": "R1 exit table of xargs_main recovered from the enum-discriminant dispatch and compared row by row (0, 123, 124, 125, 126, 127, own errors 1); "
                   "R2 child-status classification in CommandBuilder::execute simulated on all outcomes (success / code / 255 / signal / spawn NotFound / other spawn error); "
                   "R3 CommandResult::combine is sticky (writes only while Success); R4 stop-at-once and continue-past-failure from the process_input decision graph (C04.R5 simulation re-used: "
                   "a fatal outcome returns without another execute, a Failure is combined and the loop goes on); R6 panic audit over everything reachable from xargs_main (same engine as C11: zone/interval proofs, categories, reviewed table) and the recursion of the limiter chain; R5 error conversions keep the class (From<CommandExecutionError> wraps, every other error is a non-CommandExecution variant)",
    "decides": "the mapping child outcome -> class -> exit status, that classes propagate unchanged through `?` on every path, and (R6) that no panic-capable construct of xargs' own code is reachable without a proof or reviewed argument — a panic would end xargs with status 101 instead of the documented 1",
    "does_not_decide": "std's decoding of wait status into ExitStatus::code()/signal(); which io::ErrorKind the OS reports for a given exec failure",
}

EXEC = "findutils::xargs::CommandBuilder::<'_>::execute"
EXIT_TABLE = {("Ok", "Success"): 0, ("Ok", "Failure"): 123, ("Err", "UrgentlyFailed"): 124, ("Err", "Killed"): 125,
              ("Err", "CannotRun"): 126, ("Err", "NotFound"): 127, ("Err", "Unknown"): 1}


def variant_names(prog, adt):
    a = prog.adts.get(adt)
    return {v["idx"]: v["name"] for v in a["variants"]} if a else {}


def _run_tables(ctx):
    prog = ctx.prog
    # ---- R1 exit table ---------------------------------------------------------------------------
    xm = ctx.fn("R1", X + "xargs_main")
    if xm is not None:
        def brole(f, bb, o):
            ty = prim.discr_type_of_switch(f, bb)
            if ty is None:
                return None
            if ty.startswith("std::result::Result"):
                return "result"
            if ty.endswith("xargs::CommandResult"):
                return "CommandResult"
            if ty.endswith("xargs::XargsError"):
                return "XargsError"
            if ty.endswith("xargs::CommandExecutionError"):
                return "CommandExecutionError"
            return "discr:" + ty
        def role(t):
            if t.callee == X + "do_xargs":
                return "do_xargs"
            return None
        g = prim.event_graph(xm, role, branch_role=brole)
        gg = C.G(g)
        cr = variant_names(prog, X + "CommandResult")
        xe = variant_names(prog, X + "XargsError")
        ce = variant_names(prog, X + "CommandExecutionError")
        ctx.ob("R1", "enums-found", bool(cr) and bool(xe) and bool(ce), "CommandResult %s, XargsError %s, CommandExecutionError %s" % (cr, xe, ce), nontrivial=False)
        unknown = [n for n in gg.out if C.base(n).startswith("discr:")]
        ctx.ob("R1", "no-unknown-dispatch", not unknown, "xargs_main dispatches on unexpected types %s" % unknown, fn=xm, nontrivial=False)
        def pick_variant(names, want):
            idx = [i for i, n in names.items() if n == want]
            def f(l, idx=idx, names=names):
                first = l.split(",")[0]
                if first == "else":
                    return False
                return idx and first == str(idx[0])
            return f
        def pick_else_or(names, want):
            """select the edge taken for variant `want`: its own label if present, else the `else` edge"""
            idx = [i for i, n in names.items() if n == want]
            return idx[0] if idx else None
        rows = []
        for rv in cr.values():
            rows.append(("Ok", rv, None))
        for xv in xe.values():
            if xv == "CommandExecution":
                for cv in ce.values():
                    rows.append(("Err", xv, cv))
            else:
                rows.append(("Err", xv, None))
        edges = gg.edges
        for res, v1, v2 in rows:
            def chooser(names, want):
                idx = [i for i, n in names.items() if n == want]
                def f(l):
                    first = l.split(",")[0]
                    explicit = {e[1].split(",")[0] for e in edges}
                    return first == str(idx[0]) if idx else False
                return f
            asg = {"do_xargs": (lambda l, r=res: l.split(",")[0] == ("0" if r == "Ok" else "1")),
                   "result": (lambda l, r=res: l.split(",")[0] == ("0" if r == "Ok" else "1"))}
            tr = _walk(edges, res, v1, v2, cr, xe, ce)
            if res == "Ok":
                want = EXIT_TABLE[("Ok", v1)] if ("Ok", v1) in EXIT_TABLE else None
                key = "Ok(%s)" % v1
            elif v1 == "CommandExecution":
                want = EXIT_TABLE.get(("Err", v2))
                key = "Err(CommandExecution(%s))" % v2
            else:
                want = 1
                key = "Err(%s)" % v1
            if want is None:
                ctx.ob("R1", "row:%s" % key, False, "outcome class %s has no row in the oracle exit table (fail closed: decide its exit status and add the row)" % key, fn=xm)
                continue
            ctx.ob("R1", "row:%s" % key, tr == "RET(const:%d)" % want, "xargs_main maps %s to %s; oracle exit status %d" % (key, tr, want), fn=xm, how="discriminant dispatch table")
        ctx.floor("R1", "rows of the exit table", len(rows), 10)

    # ---- R2 classification ---------------------------------------------------------------------------
    ex = next((x for p, x in prog.fns.items() if p == EXEC), None)
    if ex is None:
        ctx.missing("R2", EXEC)
    else:
        ctx.analysed_fns.add(ex.path)
        def role(t):
            n = t.j.get("callee_name")
            inst = t.j.get("callee_inst") or ""
            if n == "status" and "process::Command" in inst:
                return "status"
            if n in ("success", "code") and "ExitStatus" in inst:
                return n
            if n == "signal":
                return "signal"
            if n == "kind" and "io::Error" in inst:
                return "kind"
            if n in ("eq", "ne") and "ErrorKind" in inst:
                o = prim.resolve_promoted(ex, prim.origin_of_operand(ex, t.args[1])).strip()
                if o.k != "agg":
                    o = prim.resolve_promoted(ex, prim.origin_of_operand(ex, t.args[0])).strip()
                return "kind_%s_%s" % (n, str(o.a).split("::")[-1] if o.k == "agg" else "?")
            if n in ("spawn", "output", "exec", "wait", "try_wait", "wait_with_output") and ("process::" in inst):
                return "other_run:" + n
            return None
        def brole(f, bb, o):
            ty = prim.discr_type_of_switch(f, bb)
            if ty and ty.endswith("xargs::ExecAction"):
                return "action"
            o = o.strip()
            if o.k == "bin" and o.a in ("Eq", "Ne") and any(isinstance(c.get("v"), int) and c.get("k") == "int" for c in o.consts()) and any(cc.endswith("ExitStatus::code") for cc in o.callees()):
                v = [c.get("v") for c in o.consts() if c.get("k") == "int"][0]
                return "code_%s_%s" % (o.a, v)
            # `match status.code() { Some(255) => .., Some(_) => .., None => .. }`: the payload switched on directly
            if f.blocks[bb].term.j.get("discr_ty") in ("i32", "i64", "u8", "u16", "u32") and any(cc.endswith("ExitStatus::code") for cc in o.callees()) and any(x.k == "variant" and str(x.a) == "Some" for x in o.walk()):
                return "codeval"
            return None
        g = prim.event_graph(ex, role, branch_role=brole)
        gg = C.G(g)
        sts = gg.nodes("status")
        ctx.ob("R2", "single-run", len(sts) == 1 and not [n for n in gg.out if C.base(n).startswith("other_run")], "execute must run the child exactly once via Command::status(); events %s" % sorted({C.base(n) for n in gg.out}), fn=ex, how="event graph")
        if len(sts) == 1:
            sub = [("ENTRY", "", sts[0])] + [e for e in gg.edges if e[0] != "ENTRY"]
            n_rows = 0
            for st_ok, success, code_some, is255, sig_some, notfound in itertools.product([False, True], repeat=6):
                if st_ok:
                    if success:
                        want = "Ok(CommandResult::Success)"
                    elif code_some:
                        want = "Err(CommandExecutionError::UrgentlyFailed)" if is255 else "Ok(CommandResult::Failure)"
                    else:
                        want = "Err(CommandExecutionError::Killed)" if sig_some else "Err(CommandExecutionError::Unknown)"
                else:
                    want = "Err(CommandExecutionError::NotFound)" if notfound else "Err(CommandExecutionError::CannotRun)"
                asg = {"status": 0 if st_ok else 1, "success": success, "code": 1 if code_some else 0,
                       "code_Eq_255": is255, "code_Ne_255": not is255, "signal": 1 if sig_some else 0,
                       "kind_eq_NotFound": notfound, "kind_ne_NotFound": not notfound, "kind": None}
                # Option discriminants: 1 = Some, else/0 = None
                asg["code"] = (lambda l, v=code_some: (l.split(",")[0] == "1") == v)
                asg["signal"] = (lambda l, v=sig_some: (l.split(",")[0] == "1") == v)
                asg["codeval"] = (lambda l, v=is255: (l.split(",")[0] == "255") == v)
                tr = C.simulate(g, asg, edges=sub)
                got = tr[-1] if tr else None
                n_rows += 1
                ok = got == "RET(agg:Result::%s)" % want
                bits = "".join("1" if x_ else "0" for x_ in (st_ok, success, code_some, is255, sig_some, notfound))
                if True:
                    ctx.ob("R2", "class:%s@%s" % (want, bits), ok,
                           "child outcome (spawned=%s success=%s code=%s ==255:%s signal=%s NotFound=%s) is classified %s; oracle %s" % (st_ok, success, code_some, is255, sig_some, notfound, got, want), fn=ex, how="event-graph simulation")
            ctx.ob("R2", "classification-table", True, "%d outcome rows simulated" % n_rows, fn=ex, how="event-graph simulation over %d assignments" % n_rows)
        # the status examined is that of the command built from the batch
        for b, t in ex.calls():
            if role(t) == "status":
                o = prim.origin_of_operand(ex, t.args[0])
                ctx.ob("R2", "status-of-built-command", any(x.k == "var" and x.a.get("name") == "command" for x in o.walk()), "status() is called on %s" % o.fmt()[:120], fn=ex, where=prim.site(ex, b), nontrivial=False)

    # ---- R3 combine is sticky -----------------------------------------------------------------------
    cb = ctx.fn("R3", X + "CommandResult::combine")
    if cb is not None:
        ws = []
        for b in cb.reachable():
            for s in cb.blocks[b].stmts:
                if s.lhs is not None and s.lhs.local == 1 and s.lhs.proj == ["*"]:
                    ws.append((b, s))
        ok = len(ws) == 1
        desc = ""
        if ok:
            b, s = ws[0]
            gs = prim.dominating_guards(cb, b)
            desc = prim.guards_fmt(gs)
            names = variant_names(prog, X + "CommandResult")
            succ_idx = [i for i, n in names.items() if n == "Success"]
            ok = any(gd["pred"].strip().k == "discr" and gd["labels"] == [succ_idx[0]] for gd in gs) if succ_idx else False
            vo = prim.origin_of_operand(cb, s.rv.ops[0]).strip() if s.rv.k == "use" else None
            ok = ok and vo is not None and vo.k == "arg"
        ctx.ob("R3", "combine-sticky", ok, "CommandResult::combine may overwrite the accumulated result only while it is still Success (a failure is never forgotten); writes: %d, guards: %s" % (len(ws), desc), fn=cb, how="writers + dominating guard")

    # ---- R4 stop at once / continue past failures ------------------------------------------------------
    from . import c04
    f, g = c04.process_graph(ctx, "R4")
    if f is not None:
        gg = C.G(g)
        for n in gg.nodes("execute"):
            bad = gg.succ(n, "1")
            ctx.ob("R4", "fatal=>stop:%s" % n, bool(bad) and all(C.is_err_ret(x) for x in bad), "after a fatal child outcome (execute() = Err) xargs must return at once, running no further command; next events: %s" % bad, fn=f, how="event graph")
            good = gg.succ(n, "0")
            ctx.ob("R4", "nonfatal=>combined:%s" % n, bool(good) and all(C.base(x) == "combine" for x in good), "a non-fatal child result must be folded into the accumulated result; next events: %s" % good, fn=f, how="event graph")
        # combine receives the accumulated `result` and the value of this execute; the function returns Ok(result)
        for b, t in f.calls():
            if c04.proc_role(t) == "combine":
                o0 = prim.origin_of_operand(f, t.args[0])
                o1 = prim.origin_of_operand(f, t.args[1])
                ok = any(x.k == "var" and x.a.get("name") == "result" for x in o0.walk()) and any(cc.endswith("::execute") for cc in o1.callees())
                ctx.ob("R4", "combine-args", ok, "combine(%s, %s)" % (o0.fmt()[:60], o1.fmt()[:80]), fn=f, where=prim.site(f, b), how="provenance slice")
        rets = []
        for b in f.reachable():
            for s in f.blocks[b].stmts:
                if s.lhs is not None and s.lhs.is_local() and s.lhs.local == 0 and s.rv is not None and s.rv.k == "agg" and s.rv.j.get("variant") == "Ok":
                    o = prim.origin_of_operand(f, s.rv.ops[0])
                    rets.append(any(x.k == "var" and x.a.get("name") == "result" for x in o.walk()))
        ctx.ob("R4", "returns-accumulated-result", bool(rets) and all(rets), "process_input's Ok value must be the accumulated result", fn=f, how="provenance slice")
        # result initialised Success
        rl = C.find_local(f, "result", ty="xargs::CommandResult")
        if rl:
            inits = [prim._origin_of_def(f, d, 4, set()).strip() for d in prim.local_defs(f).get(rl[0], []) if d[1] == "assign"]
            ctx.ob("R4", "result-starts-success", len(inits) == 1 and inits[0].k == "agg" and str(inits[0].a).endswith("CommandResult::Success"), "the accumulated result starts as %s" % [i.fmt() for i in inits], fn=f, how="local writers")

    # ---- R5 conversions ------------------------------------------------------------------------------------
    conv = [fn for p, fn in prog.fns.items() if fn.impl_self == X + "XargsError" and fn.impl_trait == "std::convert::From" and fn.name == "from"]
    ctx.floor("R5", "From impls for XargsError", len(conv), 4)
    for fn in conv:
        ctx.analysed_fns.add(fn.path)
        argty = fn.local_ty(1)
        built = []
        for b in fn.reachable():
            for s in fn.blocks[b].stmts:
                if s.rv is not None and s.rv.k == "agg" and s.rv.j.get("adt") == X + "XargsError":
                    built.append(s.rv.j["variant"])
        if argty.endswith("CommandExecutionError"):
            ctx.ob("R5", "from:CommandExecutionError", built == ["CommandExecution"], "From<CommandExecutionError> builds %s; must wrap as CommandExecution (so that `?` keeps the fatal class)" % built, fn=fn, how="constructor")
        else:
            ok = "CommandExecution" not in built
            ctx.ob("R5", "from:%s" % argty.split("::")[-1], ok, "From<%s> builds %s; own errors must not masquerade as child outcomes" % (argty, built), fn=fn, how="constructor")
    # ArgumentTooLarge / clap / io errors in do_xargs & process_input are XargsError variants != CommandExecution (=> 1 by R1)
    for path in (X + "do_xargs", X + "process_input"):
        fn = prog.fns.get(path)
        if fn is None:
            continue
        for b in fn.reachable():
            for s in fn.blocks[b].stmts:
                if s.rv is not None and s.rv.k == "agg" and s.rv.j.get("adt") == X + "XargsError" and s.rv.j["variant"] == "CommandExecution":
                    ctx.ob("R5", "own-error-as-child-outcome@%s" % prim.short(path), False, "%s constructs XargsError::CommandExecution directly" % path, fn=fn, where=prim.site(fn, b, s))
    # help/version => success
    dx = prog.fns.get(X + "do_xargs")
    if dx is not None:
        ctx.analysed_fns.add(dx.path)
        okv = []
        for b in dx.reachable():
            for s in dx.blocks[b].stmts:
                if s.lhs is not None and s.lhs.is_local() and s.lhs.local == 0 and s.rv is not None and s.rv.k == "agg" and s.rv.j.get("variant") == "Ok":
                    o = prim.origin_of_operand(dx, s.rv.ops[0]).strip()
                    okv.append(o.fmt())
        ctx.ob("R5", "do_xargs-ok-values", all(("CommandResult::Success" in v) or ("process_input" in v) for v in okv) and okv, "do_xargs returns Ok(%s); only the accumulated child result or Success (help/version)" % okv, fn=dx, how="provenance slice")


def _walk(edges, res, v1, v2, cr, xe, ce):
    """follow the discriminant dispatch of xargs_main for Result<CommandResult::v1, XargsError::v1(v2)>"""
    out = {}
    for a, l, b in edges:
        out.setdefault(a, []).append((l, b))
    cur = "ENTRY"
    for _ in range(40):
        if cur.startswith("RET("):
            return cur
        es = out.get(cur, [])
        if not es:
            return None
        if len(es) == 1 and es[0][0] == "":
            cur = es[0][1]
            continue
        role = C.base(cur)
        if role in ("do_xargs", "result"):
            want_idx = 0 if res == "Ok" else 1
        elif role == "CommandResult":
            want_idx = [i for i, n in cr.items() if n == v1]
            want_idx = want_idx[0] if want_idx else None
        elif role == "XargsError":
            want_idx = [i for i, n in xe.items() if n == v1]
            want_idx = want_idx[0] if want_idx else None
        elif role == "CommandExecutionError":
            want_idx = [i for i, n in ce.items() if n == v2]
            want_idx = want_idx[0] if want_idx else None
        else:
            return None
        explicit = [b for l, b in es if l.split(",")[0] == str(want_idx)]
        if explicit:
            nxt = sorted(set(explicit))
        else:
            nxt = sorted({b for l, b in es if l.split(",")[0] == "else"})
        if len(nxt) != 1:
            return None
        cur = nxt[0]
    return None


def _audit(ctx):
    prog = ctx.prog
    audit.run(ctx, "R6", [X + "xargs_main", "xargs::main"], "xargs")
    for comp in panic.recursion_cycles(prog, [X + "xargs_main"]):
        if any("LimiterCursor" in x for x in comp):
            tn = prog.fns.get(X + "LimiterCursor::<'_>::try_next")
            ok = False
            if tn is not None:
                # each step hands the *rest* of split_at_mut(1) to the next limiter: the slice shrinks by one per level
                for b, t in tn.calls():
                    if t.j.get("callee_name") in ("split_at_mut", "split_first_mut"):
                        v = t.args[1].const_value() if len(t.args) > 1 else 1
                        ok = v == 1 or t.j.get("callee_name") == "split_first_mut"
            ctx.ob("R6", "recursion:limiter-chain", ok, "the limiter chain recurses once per installed limiter (at most four): each level passes the remainder of split_at_mut(1)", fn=tn, how="call-graph cycle + constant argument")
        else:
            ctx.ob("R6", "recursion:%s" % prim.short(comp[0]), False, "unreviewed recursion cycle %s" % [prim.short(x) for x in comp], how="call-graph cycle")


def run(ctx):
    _run_tables(ctx)
    _audit(ctx)
