"""C11 — malformed command lines rejected before any action; never a panic."""
from .. import audit, dispatch, fmtlit, panic, prim
from . import common as C
from . import shared

M = C.M
LM = M + "logical_matchers::"
META = {
    "explanation": "R1 parse-before-walk: in do_find the parse of the whole command line dominates every walk, its error is propagated, find_main turns it into a diagnostic on stderr and a non-zero constant; "
                   "R2 effect separation: nothing reachable from argument parsing evaluates a matcher, removes a file, spawns a process or writes to the injected output (allowed and listed: File::create for -fprint*, reading -files0-from, stat of reference files); "
                   "R4 error discipline: in the parse-time call graph no Result of a local validator is discarded (ok()/unwrap_or*/is_ok/let _) outside the reviewed name-or-number fallbacks of -user/-group; "
                   "R5 operator typestate (oracle B11): every operator arm rejects end-of-input/')' after it, every binary operator arm rejects a pending operator ('operand required' flag: set by ! -a -o ',', cleared when an operand is appended) and an empty left side (builder checks), ')' rejects when no '(' is open or the group is empty, end of input rejects an open '(', an unknown token is an error; "
                   "R6 validators reject by default: every string->enum parser's fall-through arm is an error, every constant regular expression that validates an operand or a primary name is anchored at both ends; "
                   "R7 panic audit (DESIGN section 3) over everything reachable from find_main: 300+ sites discharged by the zone/interval domain, by category or by a reviewed table with machine-checked side conditions; declared preconditions verified at every call site; recursion whose depth is input-controlled is reported; "
                   "R8 progress: every iteration of the two argument-scanning loops passes an increment of the scan index",
    "decides": "R9: integers are converted only from text established to be digits (no sign); R10: a token is classified once, at the scan position (no look-back except the reviewed `{} +`), the empty-parentheses diagnostic is tied to nothing-parsed-since-(; R6 also: a -regex operand is compiled as written before any derived form; that rejection happens before any effect and ends in a non-zero status, the operator/operand state machine of the parser, that validators cannot fall through to acceptance, that no panic-capable construct in find's own code is reachable without a proof or reviewed argument, and that the parser's loops make progress",
    "does_not_decide": "panics inside dependencies other than the documented-panicking conversions that are enumerated as sites; termination of the walk itself; failures of the output stream (a broken pipe makes the reviewed `.unwrap()` on writes panic: the state of the output pipe is outside the property's quantifier)",
    "assumptions": ["argv[0] is present (execve convention)", "timestamps stamped by the kernel (st_ctime) come from a present-day clock"],
}

BINARY = {"-a": "check_new_and_condition", "-and": "check_new_and_condition", "-o": "new_or_condition", "-or": "new_or_condition", ",": "new_list_condition"}
UNARY = ("!", "-not")
SPAWN = ("std::process::Command::status", "std::process::Command::spawn", "std::process::Command::output", "argmax::Command::status", "argmax::Command::spawn", "argmax::Command::output")
REMOVE = ("std::fs::remove_file", "std::fs::remove_dir", "std::fs::remove_dir_all", "std::fs::rename")
R4_REVIEWED = {
    (M + "glob::extract_bracket_expr", M + "glob::parse_bre", "is_ok"): "the compile attempt *is* the validity test of a bracket expression: failure selects the literal-'[' interpretation required by fnmatch, it does not accept an invalid operand",
}
ENUM_PARSERS = [M + "type_matcher::parse", "<%ssize::Unit as std::str::FromStr>::from_str" % M, "<%sregex::RegexType as std::str::FromStr>::from_str" % M]


MAX_SAFE_NESTING = 300      # a debug build overflows an 8 MiB stack between 400 and 600 levels (measured)


def _bounded_recursion(prog, f):
    """self-recursion with a counter: some usize parameter p is passed as `p + 1` at every recursive call, every such call
    is dominated by `p <= K` (any spelling) for a constant K <= MAX_SAFE_NESTING, and every outside caller passes a
    constant <= K"""
    rec = [(b, t) for b, t in f.calls() if t.callee == f.path]
    if not rec:
        return True, "no direct self call"
    for p in range(1, f.arg_count + 1):
        if f.local_ty(p) not in ("usize", "u32", "u64", "u16", "u8"):
            continue
        if any(d[1] != "partial" for d in prim.local_defs(f).get(p, [])):
            continue            # the counter must not be reassigned
        bound = None
        ok = True
        for b, t in rec:
            if len(t.args) < p:
                ok = False
                break
            o = prim.origin_of_operand(f, t.args[p - 1]).strip()
            core = o.kids[0].strip() if o.k == "field" and o.kids else o
            inc = core.k == "bin" and core.a in ("Add", "AddWithOverflow") and any(k.strip().k == "arg" and k.strip().a["idx"] == p for k in core.kids) and any(c.get("v") == 1 for c in core.consts())
            if not inc:
                ok = False
                break
            k_here = None
            for at in prim.norm_guards(prim.dominating_guards(f, b)):
                for x, y, rel in ((at["a"], at["b"], at["rel"]), (at["b"], at["a"], prim._SWAP[at["rel"]])):
                    xs, ys = x.strip(), y.strip()
                    if xs.k == "arg" and xs.a["idx"] == p and ys.k == "const" and isinstance(ys.a.get("v"), int) and not isinstance(ys.a.get("v"), bool):
                        if rel == "le":
                            k_here = ys.a["v"]
                        elif rel == "lt":
                            k_here = ys.a["v"] - 1
            if k_here is None or k_here > MAX_SAFE_NESTING:
                ok = False
                break
            bound = k_here if bound is None else max(bound, k_here)
        if not ok:
            continue
        outside = [(g, b, t) for g, b, t in prog.all_calls() if t.callee == f.path and g.path != f.path]
        for g, b, t in outside:
            o = prim.origin_of_operand(g, t.args[p - 1]).strip()
            if not (o.k == "const" and isinstance(o.a.get("v"), int) and o.a["v"] <= bound):
                return False, "caller %s passes %s as the depth counter" % (g.path, o.fmt())
        return True, "parameter `%s` is passed as +1 at each of the %d recursive call(s), each dominated by `%s <= %d`; %d outside caller(s) start it at a constant" % (f.local_name(p), len(rec), f.local_name(p), bound, len(outside))
    return False, "no parameter is a bounded depth counter (passed as p + 1 under a dominating `p <= K`, K <= %d)" % MAX_SAFE_NESTING


def run(ctx):
    prog = ctx.prog
    # ---- R1 parse before walk ---------------------------------------------------------------------------
    df = ctx.fn("R1", C.DO_FIND)
    if df is not None:
        pa = [b for b, t in df.calls() if t.callee == C.PARSE_ARGS]
        wk = [b for b, t in df.calls() if t.callee == C.PROCESS_DIR]
        ctx.ob("R1", "parse-dominates-walk", len(pa) == 1 and bool(wk) and all(df.dominates(pa[0], w) for w in wk), "do_find: parse_args sites %s, process_dir sites %s; the single parse must dominate every walk" % (pa, wk), fn=df, how="dominators")
        g = C.G(prim.event_graph(df, lambda t: "parse" if t.callee == C.PARSE_ARGS else ("walk" if t.callee == C.PROCESS_DIR else None)))
        pn = g.nodes("parse")
        ok = len(pn) == 1 and bool(g.succ(pn[0], "1")) and all(C.is_err_ret(x) for x in g.succ(pn[0], "1")) and not any(C.base(x) == "walk" for x in g.reach(g.succ(pn[0], "1")))
        ctx.ob("R1", "parse-error-propagated", ok, "a parse error must leave do_find at once (`?`), without a walk; events: %s" % g.fmt(), fn=df, how="event graph")
    fm = ctx.fn("R1", C.FIND_MAIN)
    if fm is not None:
        g = C.G(prim.event_graph(fm, lambda t: "do_find" if t.callee == C.DO_FIND else ("diag" if t.j.get("callee_name") == "write_fmt" and "Stderr" in (t.j.get("callee_inst") or "") else None)))
        dn = g.nodes("do_find")
        ok = len(dn) == 1
        if ok:
            er = g.succ(dn[0], "1")
            ok = bool(er) and all(C.base(x) == "diag" for x in er)
            for x in er:
                ok = ok and all(y.startswith("RET(const:") and y != "RET(const:0)" for y in g.succ(x))
        ctx.ob("R1", "error=>diagnostic+nonzero", ok, "find_main: an error from do_find must be written to stderr and turned into a non-zero constant status; events %s" % g.fmt(), fn=fm, how="event graph")
        for b, t in fm.calls():
            if t.j.get("callee_name") == "write_fmt":
                try:
                    fc = fmtlit.format_call_of_operand(fm, t.args[1])
                except fmtlit.FmtError:
                    fc = None
                ok = fc is not None and len(fc.placeholders()) == 1 and fc.args and any(x.k == "variant" or x.k == "var" for x in fc.args[0][1].walk())
                ctx.ob("R1", "diagnostic-names-the-error", ok, "the diagnostic template is %r" % (fc.shape() if fc else None), fn=fm, where=prim.site(fm, b), how="decoded template", nontrivial=False)
    # ---- R2 effect separation ------------------------------------------------------------------------------
    reach = prog.reachable_fns([C.PARSE_ARGS])
    ctx.floor("R2", "functions reachable from parse_args", len(reach), 60)
    matches_impls = {f.path for f in prog.trait_method_impls(C.MATCHER_TRAIT, "matches")}
    ctx.ob("R2", "no-evaluation-at-parse-time", not (reach & matches_impls), "Matcher::matches implementations reachable from parse_args: %s" % sorted(reach & matches_impls), how="call-graph closure (%d functions)" % len(reach))
    bad = []
    outw = []
    creates = []
    for p in sorted(reach):
        f = prog.fns[p]
        for b, t in f.calls():
            base = (t.callee or "").split("::<")[0]
            if base in SPAWN or base in REMOVE:
                bad.append((p, base, prim.site(f, b)))
            if base == "std::fs::File::create":
                creates.append(p)
            if (t.callee or "").endswith("Dependencies::get_output"):
                outw.append((p, prim.site(f, b)))
    ctx.ob("R2", "no-removal-or-spawn-at-parse-time", not bad, "parse-time code reaches %s" % bad, how="call-graph closure")
    ctx.ob("R2", "no-output-at-parse-time", not outw, "parse-time code touches the injected output: %s" % outw, how="call-graph closure")
    ctx.ob("R2", "file-creation-only-for-fprint", set(creates) <= {M + "get_or_create_file"}, "File::create at parse time in %s; allowed only in get_or_create_file (the -fprint*/-fls output file)" % sorted(set(creates)), how="call-graph closure")
    # ---- R4 error discipline ---------------------------------------------------------------------------------
    validators = set()
    for p in reach:
        f = prog.fns[p]
        if f.crate == "findutils" and f.sig and "Result<" in str(f.sig).split("->")[-1]:
            validators.add(p)
    ctx.floor("R4", "parse-time functions returning Result", len(validators), 15)
    n_use = 0
    for p in sorted(reach):
        f = prog.fns[p]
        if f.crate != "findutils":
            continue
        for b, t in f.calls():
            n = t.j.get("callee_name")
            if n in ("ok", "unwrap_or", "unwrap_or_default", "unwrap_or_else", "is_ok", "is_err", "map_or", "map_or_else", "err", "and", "or", "or_else") and (t.callee or "").startswith("std::result::Result"):
                o = prim.origin_of_operand(f, t.args[0]).strip()
                if o.k == "call" and o.a["callee"] in validators:
                    if (p, o.a["callee"], n) in R4_REVIEWED:
                        ctx.ob("R4", "reviewed-probe:%s@%s" % (prim.short(o.a["callee"]), prim.short(p)), True, "reviewed: %s" % R4_REVIEWED[(p, o.a["callee"], n)], fn=f, where=prim.site(f, b), how="reviewed exception", nontrivial=False)
                        continue
                    n_use += 1
                    if n == "ok" and t.target is not None and t.dest is not None and t.dest.is_local():
                        # `validator(..).ok()?` in a function returning Option: the failure is handed on as None, not dropped
                        nt = f.blocks[t.target].term
                        if nt.k == "call" and nt.j.get("callee_name") == "branch" and "Try" in (nt.callee or "") and nt.args and nt.args[0].place is not None and nt.args[0].place.is_local() \
                                and nt.args[0].place.local == t.dest.local and not f.blocks[t.target].stmts:
                            ctx.ob("R4", "validator-failure-propagated:%s@%s" % (prim.short(o.a["callee"]), prim.short(p)), True, "%s turns the Err of %s into its own None with `.ok()?`" % (p, o.a["callee"]), fn=f, where=prim.site(f, b), how="who-consumes")
                            continue
                    ctx.ob("R4", "discarded-validator-result:%s@%s" % (prim.short(o.a["callee"]), prim.short(p)), False,
                           "%s discards the Result of %s with .%s(): a rejected operand would be accepted silently" % (p, o.a["callee"], n), fn=f, where=prim.site(f, b), how="who-consumes")
        # `let _ = validator(..)`: result never read
        for b, t in f.calls():
            if t.callee in validators and t.dest is not None and t.dest.is_local():
                used = t.dest.local == 0 or _local_used(f, t.dest.local, after=b)
                ctx.ob("R4", "result-consumed:%s@%s" % (prim.short(t.callee), prim.short(p)), used, "the Result of %s is not examined in %s" % (t.callee, p), fn=f, where=prim.site(f, b), how="uses of the destination", nontrivial=False)
    # ---- R5 operator typestate --------------------------------------------------------------------------------------
    fn, d, arms, info = C.parser_arms(ctx, "R5")
    if arms:
        flag = _operand_required_flag(fn, arms)
        ctx.ob("R5", "operand-required-flag", flag is not None,
               "no boolean state that is set by every operator arm (! -not -a -and -o -or ,) and cleared when an operand is appended: a binary operator directly after another operator or after '!' cannot be rejected (oracle B11: -a -o , are only legal in state 'have operand')", fn=fn, how="local writers per arm (role-based)")
        inline_definition = set()
        for tok in list(BINARY) + list(UNARY):
            a = dispatch.arm_of(arms, tok)
            if a is None:
                ctx.ob("R5", "arm:%s" % tok, False, "operator %s not recognised" % tok, fn=fn)
                continue
            # (1) nothing follows => Err
            am = [(b, t) for b, t in a.calls if t.callee == M + "are_more_expressions"]
            ok1 = len(am) == 1
            if ok1:
                b0, t0 = am[0]
                tr = prim.follow_bool(fn, t0.target, t0.dest.local)
                ok1 = tr is not None and _leads_to_err_only(fn, tr[1], a, info["join"]) and prim.origin_of_operand(fn, t0.args[1]).strip().k == "var"
            elif not am:
                # the same question asked in place (or in a helper spliced in): `args.get(i + 1).is_some_and(|next| *next != ")")`,
                # its false side leading to Err only
                for b0, t0 in a.calls:
                    if t0.j.get("callee_name") != "is_some_and" or t0.dest is None or not t0.dest.is_local() or t0.target is None:
                        continue
                    so = prim.origin_of_operand(fn, t0.args[0])
                    if C.arm_token_abs(fn, a, so, b0) != 1:
                        continue
                    co = prim.origin_of_operand(fn, t0.args[1]).strip()
                    cf_ = ctx.prog.fns.get(str(co.a)[8:]) if co.k == "agg" and str(co.a).startswith("closure:") else None
                    if cf_ is None:
                        continue
                    ctx.analysed_fns.add(cf_.path)
                    ro = prim.origin_of_local(cf_, 0).strip()
                    is_ne_paren = ro.k == "call" and ro.a["name"] == "ne" and any(c.get("v") == ")" for c in prim.resolve_promoted(cf_, ro).consts()) and any(x.k == "arg" and x.a.get("idx") == 2 for x in ro.walk())
                    tr = prim.follow_bool(fn, t0.target, t0.dest.local)
                    if is_ne_paren and tr is not None and _leads_to_err_only(fn, tr[1], a, info["join"]):
                        ok1 = True
                        inline_definition.add(tok)
            ctx.ob("R5", "nothing-follows:%s" % tok, ok1, "operator %s must be rejected when the command line (or the parenthesis) ends right after it (are_more_expressions false => Err)" % tok, fn=fn, where=prim.site(fn, a.entry), how="dispatch table + branch outcome")
            if tok in BINARY:
                # (2) builder check is `?`-propagated
                bc = [(b, t) for b, t in a.calls if (t.callee or "") == LM + "ListMatcherBuilder::" + BINARY[tok]]
                ok2 = len(bc) == 1
                if ok2:
                    nxt = fn.blocks[bc[0][1].target].term
                    ok2 = nxt.k == "call" and nxt.j.get("callee_name") == "branch"
                ctx.ob("R5", "empty-left-side:%s" % tok, ok2, "operator %s must ask the builder whether an operand precedes it (%s) and propagate its error" % (tok, BINARY[tok]), fn=fn, where=prim.site(fn, a.entry), how="dispatch table")
                # (3) pending operator => Err before the builder is touched
                ok3 = False
                if flag is not None and bc:
                    for gd in prim.dominating_guards(fn, bc[0][0]):
                        pr = gd["pred"].strip()
                        if pr.k == "var" and pr.a.get("local") == flag and gd["bool"] is False and gd["bb"] in a.blocks:
                            tgt_true = [tg for lab, tg in prim.switch_edges(fn, gd["bb"]) if lab == "else"]
                            ok3 = bool(tgt_true) and _leads_to_err_only(fn, tgt_true[0], a, info["join"])
                ctx.ob("R5", "pending-operator:%s" % tok, ok3, "operator %s must be rejected while an operand is still required (directly after ! -a -o or ,)" % tok, fn=fn, where=prim.site(fn, a.entry), how="dominating guard on the operand-required flag")
            if flag is not None:
                ws = [w for w in a.local_writes(flag) if w[1] == "assign" and w[2].rv.k == "use" and w[2].rv.ops[0].const_value() is True]
                # set on every path that falls through to the join
                okw = bool(ws) and prim.must_pass(fn, a.entry, [info["join"]], [w[0] for w in ws])
                ctx.ob("R5", "sets-operand-required:%s" % tok, okw, "operator %s must leave the parser in state 'operand required' on every accepting path" % tok, fn=fn, where=prim.site(fn, a.entry), how="must-pass")
        # what "something follows" means: a next token exists and it is not ')'
        # (where every operator arm asks the question in place, its definition was checked there)
        am = ctx.prog.fns.get(M + "are_more_expressions") if inline_definition == set(list(BINARY) + list(UNARY)) else ctx.fn("R5", M + "are_more_expressions")
        if am is not None:
            alts = []
            for bb, o in prim.defs_origins(am, 0):
                if bb in am.reachable():
                    alts.extend(prim.flatten_phi(o))
            kinds = set()
            for o in alts:
                st = o.strip()
                if st.k == "const":
                    kinds.add("const:%s" % st.a.get("v"))
                elif st.k == "call" and st.a["name"] in ("ne", "eq") and any(c.get("v") == ")" for c in st.consts()):
                    idx = [x for x in st.walk() if x.k == "index"]
                    nxt = False
                    if idx:
                        ix = idx[0].kids[1].strip()
                        core = ix.kids[0].strip() if ix.k == "field" and ix.kids else ix
                        nxt = core.k == "bin" and core.a in ("Add", "AddWithOverflow") and any(c.get("v") == 1 for c in core.consts()) and any(x.k == "arg" and x.a["name"] == "index" for x in core.walk())
                    kinds.add("%s-close-paren%s" % (st.a["name"], "" if nxt else "(wrong token)"))
                else:
                    kinds.add("other:" + st.fmt()[:60])
            ctx.ob("R5", "more-expressions-definition", kinds == {"const:False", "ne-close-paren"},
                   "are_more_expressions returns %s; oracle: false when no token follows, otherwise `next token != \")\"` — an operator directly before ')' (`( -name x -o )`) must be rejected like one at the end of the command line" % sorted(kinds), fn=am, how="provenance of the returned value")
        # appended operand clears the flag
        if flag is not None:
            appends = [(b, t) for b, t in fn.calls() if (t.callee or "").startswith(LM + "ListMatcherBuilder::new_and_condition")]
            falses = [bb for bb, v in prim.const_assigns_to(fn, flag) if v is False and bb != 0]
            ok = bool(appends) and bool(falses) and all(any(fn.dominates(fb, b) for fb in falses) for b, _ in appends)
            ctx.ob("R5", "operand-clears-flag", ok, "appending an operand must clear 'operand required' (writes of false at %s must dominate both append sites)" % falses, fn=fn, how="dominators")
        # ')' arm
        a = dispatch.arm_of(arms, ")")
        if a is None:
            ctx.ob("R5", "arm:)", False, "')' not recognised", fn=fn)
        else:
            errs = a.err_returns()
            oks = [b for b in a.blocks for s in fn.blocks[b].stmts if s.rv is not None and s.rv.k == "agg" and s.rv.j.get("variant") == "Ok" and s.lhs.is_local() and s.lhs.local == 0]
            ok = len(errs) >= 2 and len(oks) == 1
            cond = {"unbalanced": False, "empty": False}
            if ok:
                for gd in prim.dominating_guards(fn, oks[0]):
                    pr = gd["pred"].strip()
                    inner = pr.kids[0].strip() if pr.k == "un" and pr.a == "Not" else pr
                    truth = gd["bool"] if pr is inner else (not gd["bool"] if gd["bool"] is not None else None)
                    if inner.k == "var" and inner.a.get("name") == "expecting_bracket" and truth is True:
                        cond["unbalanced"] = True
                    if inner.k == "arg" and inner.a.get("name") == "expecting_bracket" and truth is True:
                        cond["unbalanced"] = True
                    if pr.k == "call" and pr.a["name"] in ("eq", "ne") and any(c.get("v") == "(" for c in pr.consts()):
                        if (pr.a["name"] == "eq") == (gd["bool"] is False):
                            cond["empty"] = True
            ctx.ob("R5", "close-paren", ok and all(cond.values()), "')' must be rejected when no '(' is open and when the group is empty, and otherwise end the nested parse; found %s" % cond, fn=fn, where=prim.site(fn, a.entry), how="dominating guards")
        # unknown token
        a = arms.get(("_",))
        if a is not None:
            flagged = [b for b, t in a.calls if t.callee == M + "parse_str_to_newer_args"]
            errs = a.err_returns()
            none_err = False
            for b in sorted(a.blocks):
                t = fn.blocks[b].term
                if t.k == "switch":
                    pr = prim.switch_pred(fn, b).strip()
                    if pr.k == "discr" and any(c.a["callee"] == M + "parse_str_to_newer_args" for c in pr.call_nodes()):
                        for lab, tgt in prim.switch_edges(fn, b):
                            if lab == 0 or (lab == "else" and 0 not in [l for l, _ in prim.switch_edges(fn, b)]):
                                none_err = none_err or _leads_to_err_only(fn, tgt, a, info["join"])
            ctx.ob("R5", "unknown-token=>error", bool(flagged) and none_err, "a token that is neither a known primary/operator nor a -newerXY form must be rejected", fn=fn, where=prim.site(fn, a.entry), how="dispatch table default arm")
        # end of input with an open parenthesis
        eb = None
        for b in fn.reachable():
            t = fn.blocks[b].term
            if t.k == "switch":
                pr = prim.switch_pred(fn, b).strip()
                if pr.k in ("var", "arg") and pr.a.get("name") == "expecting_bracket" and not any(b in arm.blocks for arm in arms.values()):
                    tgt_true = [tg for lab, tg in prim.switch_edges(fn, b) if lab == "else"]
                    if tgt_true:
                        reg = fn.reach_from([tgt_true[0]])
                        only_err = all(not (s.rv is not None and s.rv.k == "agg" and s.rv.j.get("variant") == "Ok" and s.lhs.is_local() and s.lhs.local == 0) for x in reg for s in fn.blocks[x].stmts)
                        if only_err:
                            eb = b
        ctx.ob("R5", "unclosed-paren=>error", eb is not None, "reaching the end of the arguments inside a parenthesis must be an error", fn=fn, how="branch outcome")
        # every operand-taking primary arm has its missing-argument rejection: covered by the audit (an unguarded args[i+1] is an
        # unproven bounds check), recorded here as the count of arms that return Err
        n_err = sum(1 for lits, a in arms.items() if a.err_returns(with_residual=True))
        ctx.floor("R5", "arms with a rejection path", n_err, 30)
    # ---- R6 validators ----------------------------------------------------------------------------------------------------
    for path in ENUM_PARSERS:
        f = ctx.fn("R6", path)
        if f is None:
            continue
        ds = dispatch.find_dispatches(f)
        ok = bool(ds)
        if ok:
            db = ds[0].tests[-1]["false_bb"]
            reg = [x for x in f.reach_from([db]) if f.dominates(db, x)]
            errs = any(s.rv is not None and s.rv.k == "agg" and s.rv.j.get("adt") == "std::result::Result" and s.rv.j.get("variant") == "Err" for x in reg for s in f.blocks[x].stmts)
            oks = any(s.rv is not None and s.rv.k == "agg" and s.rv.j.get("adt") == "std::result::Result" and s.rv.j.get("variant") == "Ok" and s.lhs.is_local() and s.lhs.local == 0 for x in reg for s in f.blocks[x].stmts)
            # an Ok built after the match joins all arms; the default region must not reach it
            ret_ok_reach = any(s.rv is not None and s.rv.k == "agg" and s.rv.j.get("variant") == "Ok" for x in f.reach_from([db]) for s in f.blocks[x].stmts)
            ok = errs and not oks and not ret_ok_reach
        ctx.ob("R6", "default-rejects:%s" % prim.short(path), ok, "the fall-through arm of %s must be an error (an unknown operand must not be mapped to a valid value)" % path, fn=f, how="string dispatch table")
    n_re = 0
    for p in sorted(reach):
        f = prog.fns[p]
        if f.crate != "findutils":
            continue
        for b, t in f.calls():
            if (t.callee or "").startswith("regex::Regex::new"):
                o = prim.origin_of_operand(f, t.args[0]).strip()
                pat = o.a.get("v") if o.k == "const" else None
                n_re += 1
                ok = isinstance(pat, str) and pat.startswith("^") and pat.endswith("$") and not pat.endswith("\\$")
                ctx.ob("R6", "anchored:%s" % prim.short(p), ok,
                       "the validating regular expression %r in %s is not anchored at both ends: an operand/primary with leading or trailing garbage passes validation" % (pat, p), fn=f, where=prim.site(f, b), how="constant argument")
    ctx.floor("R6", "validating regular expressions", n_re, 4)
    shared.regex_validated_as_written(ctx, "R6")
    # ---- R7 panic audit --------------------------------------------------------------------------------------------------------
    audit.run(ctx, "R7", [C.FIND_MAIN, "find::main"], "find")
    for comp in panic.recursion_cycles(prog, [C.FIND_MAIN, "find::main"]):
        names = sorted({prim.short(x) for x in comp})
        kind = "parser" if C.BMT in comp else ("matcher-tree" if all(C.MATCHER_TRAIT in x or "Matcher" in x for x in comp) else "other")
        if kind == "parser":
            bmt = prog.fns[C.BMT]
            ok, why = _bounded_recursion(prog, bmt)
            ctx.ob("R7", "recursion:expression-parser", ok,
                   "build_matcher_tree calls itself once per '(': the nesting depth is chosen by the command line, each level needs a large stack frame, and exhausting the stack aborts the process (SIGABRT) instead of ending with an exit status — the recursion must carry a depth counter that is bounded by a constant: %s" % why, fn=bmt, how="call-graph cycle + dominating guard (normal form) + provenance of the counter")
        elif kind == "matcher-tree":
            meth = comp[0].rsplit("::", 1)[-1]
            ctx.ob("R7", "recursion:matcher-tree:%s" % meth, True, "%s recurses through the combinators (%d impls): depth = nesting depth of the expression tree, which build_matcher_tree's own (much larger) frames have already survived" % (meth, len(comp)), how="call-graph cycle (reviewed)", nontrivial=False)
        else:
            ctx.ob("R7", "recursion:%s" % names[0], False, "unreviewed recursion cycle %s" % names, how="call-graph cycle")
    # ---- R9 numbers are converted only from text established to be digits -------------------------------------------
    # (Rust's integer FromStr takes a leading '+'; find's operands do not)
    INTS = ("u8", "u16", "u32", "u64", "u128", "usize", "i8", "i16", "i32", "i64", "i128", "isize")
    n_sites = 0
    for p in sorted(prog.fns):
        f = prog.fns[p]
        if f.crate != "findutils" or not p.startswith("findutils::find::") or "::tests::" in p:
            continue
        for b, t in f.calls():
            if t.j.get("callee_name") != "parse" or not (t.callee or "").startswith("core::str::"):
                continue
            inst = (t.j.get("callee_inst") or "")
            ty = inst.rsplit("::<", 1)[-1].rstrip(">") if "::<" in inst else "?"
            if ty not in INTS and not (len(ty) == 1 and ty.isupper()) and ty != "?":
                continue           # a FromStr of the repository's own (Unit, ...): decided by its dispatch table (R6)
            n_sites += 1
            why = _digits_only(prog, f, b, t)
            ctx.ob("R9", "digits-only:%s" % prim.short(p), why is not None,
                   "str::parse::<%s> in %s converts %s; integer FromStr accepts a leading '+' (and, for some types, '-'), so the text must have been established to consist of ASCII digits "
                   "(an all-digits test that dominates the call, a regular-expression group that is \\d+, or a counted run of digits): %s" % (ty, p, prim.origin_of_operand(f, t.args[0]).fmt()[:120], why or "no such evidence found"),
                   fn=f, where=prim.site(f, b), how="dominating guard (normal form) / provenance of the receiver / constant pattern")
    ctx.floor("R9", "integer conversions of operand text", n_sites, 5)
    # ---- R10 a token is classified once, at the scan position ---------------------------------------------------------
    bmt = prog.fns.get(C.BMT)
    if bmt is not None:
        il = C.scan_index(bmt)
        LOOKBACK_OK = {"{}": "-exec ... {} +: the plus sign ends the command only directly after {}"}
        n_tests = 0
        for st in prim.str_tests(bmt):
            if st.get("subject") is None:
                continue
            e = prim.expand_single_def_vars(bmt, st["subject"])
            idx = [x for x in e.walk() if x.k == "index" and any(y.k == "arg" and y.a["name"] == "args" for y in x.walk())]
            if not idx:
                continue
            n_tests += 1
            ie = idx[0].kids[1].strip()
            core = ie.kids[0].strip() if ie.k == "field" and ie.kids else ie
            if core.k == "bin" and core.a in ("Sub", "SubWithOverflow"):
                ctx.ob("R10", "lookback:%s" % st["lit"], st["lit"] in LOOKBACK_OK,
                       "build_matcher_tree compares the token at %s with %r: a token before the scan position has already been consumed in some role (possibly as the operand of a primary, e.g. `-name (`), "
                       "so its text says nothing about that role; only these look-backs are reviewed: %s" % (ie.fmt(), st["lit"], LOOKBACK_OK), fn=bmt, where=prim.site(bmt, st["bb"]), how="string-test table + index provenance")
        ctx.floor("R10", "token tests in build_matcher_tree", n_tests, 80)
        # the 'empty parentheses' diagnostic is tied to "nothing parsed since the opening parenthesis"
        for b in bmt.reachable():
            for s in bmt.blocks[b].stmts:
                pass
        for b, t in bmt.calls():
            if any(a.kind == "const" and isinstance(a.const.get("v"), str) and "empty parentheses" in a.const["v"] for a in t.args) or \
               any(isinstance(cst.get("v"), str) and "empty parentheses" in cst["v"] for a in t.args for cst in prim.origin_of_operand(bmt, a).consts()):
                atoms = prim.norm_guards(prim.dominating_guards(bmt, b))
                is_i = lambda x: x.strip().k == "var" and x.strip().a.get("local") in il
                is_start = lambda x: x.strip().k == "arg" and x.strip().a.get("name") == "arg_index"
                ok = prim.atom_holds(atoms, "eq", is_i, is_start) is not None
                ctx.ob("R10", "empty-parentheses-iff-nothing-parsed", ok,
                       "the 'empty parentheses' rejection must be decided by the scan position being where this (sub)expression started; guards here: %s" % prim.guards_fmt(prim.dominating_guards(bmt, b))[:300],
                       fn=bmt, where=prim.site(bmt, b), how="dominating guard (normal form)")
                break
    # ---- R8 progress ------------------------------------------------------------------------------------------------------------
    for path, loops in ((C.PARSE_ARGS, 2), (C.BMT, 1)):
        f = ctx.fn("R8", path)
        if f is None:
            continue
        il = C.scan_index(f)
        if not il:
            ctx.missing("R8", "scan index of %s" % path)
            continue
        i = il[0]
        incs = []
        for bb, kind, obj in prim.local_defs(f).get(i, []):
            if kind == "assign" and bb in f.reachable():
                o = prim._origin_of_def(f, (bb, kind, obj), 6, set()).strip()
                core = o.kids[0].strip() if o.k == "field" and o.kids else o
                if core.k == "bin" and core.a in ("Add", "AddWithOverflow") and any(isinstance(c.get("v"), int) and c["v"] >= 1 for c in core.consts()) and any(x.k == "var" and x.a.get("local") == i for x in core.walk()):
                    incs.append(bb)
        heads = _loop_heads_testing(f, i)
        # a scan written as an iterator pipeline (`args[k..].iter().take_while(..).collect()`) ends with the slice
        pipes = [b_ for b_, t_ in f.calls() if t_.j.get("callee_name") == "collect" and any(cn.a["name"] in ("iter", "into_iter") and any(x.k == "arg" for x in cn.walk()) for cn in prim.origin_of_operand(f, t_.args[0]).call_nodes())]
        ctx.ob("R8", "loops-found:%s" % prim.short(path), len(heads) + len(pipes) >= loops, "%s: %d loops guarded by the scan index found (expected >= %d)" % (path, len(heads), loops), fn=f, nontrivial=False)
        for h in heads:
            back = [p_ for p_ in f.preds()[h] if h in f.reach_from([p_]) and f.dominates(h, p_)]
            ok = bool(back) and all(prim.must_pass(f, s, [h], incs) for s in f.succs(h) if any(bk in f.reach_from([s]) for bk in back))
            ctx.ob("R8", "index-advances:%s" % prim.short(path), ok, "every path around the scanning loop at %s must pass an increment of the scan index (otherwise a token sequence can make find hang)" % prim.site(f, h), fn=f, where=prim.site(f, h), how="must-pass on the CFG")


def _local_used(f, l, after):
    for b in f.reach_from([after]):
        for s in f.blocks[b].stmts:
            if s.rv is None:
                continue
            pls = [o.place for o in s.rv.ops if o.place is not None]
            if s.rv.place is not None:
                pls.append(s.rv.place)
            if any(p.local == l for p in pls):
                return True
        t = f.blocks[b].term
        if t.k == "call" and any(a.place is not None and a.place.local == l for a in t.args):
            return True
        if t.k == "switch" and t.discr.place is not None and t.discr.place.local == l:
            return True
    return False


def _leads_to_err_only(fn, start, arm, join=None):
    """every path from `start` ends in `return Err(..)`: the region reachable from it contains an Err assignment to the
    return place, no Ok assignment, and does not flow back into the parser loop (the match join / loop head)"""
    reg = fn.reach_from([start])
    has_err = False
    for b in reg:
        for s in fn.blocks[b].stmts:
            if s.rv is not None and s.rv.k == "agg" and s.rv.j.get("adt") == "std::result::Result" and s.lhs is not None and s.lhs.is_local() and s.lhs.local == 0:
                if s.rv.j.get("variant") == "Err":
                    has_err = True
                else:
                    return False
        t = fn.blocks[b].term
        if t.k == "call" and t.dest is not None and t.dest.is_local() and t.dest.local == 0 and "from_residual" not in (t.callee or ""):
            return False
        if t.k == "call" and t.dest is not None and t.dest.is_local() and t.dest.local == 0 and t.j.get("callee_name") == "from_residual":
            has_err = True          # `helper()?` hands the helper's Err on: the failure variant is what is returned
    if join is not None and join in reg:
        return False
    # the region must not contain the dispatch head again (no way back into the loop)
    return has_err and not any(fn.blocks[b].term.k == "switch" and b == getattr(arm, "head", -1) for b in reg)


def _operand_required_flag(fn, arms):
    """role-based: the bool local assigned `true` in every operator arm and `false` elsewhere"""
    cands = None
    for tok in list(BINARY) + list(UNARY):
        a = dispatch.arm_of(arms, tok)
        if a is None:
            return None
        here = set()
        for b in a.blocks:
            for s in fn.blocks[b].stmts:
                if s.lhs is not None and s.lhs.is_local() and fn.local_ty(s.lhs.local) == "bool" and fn.local_name(s.lhs.local) is not None and s.rv is not None and s.rv.k == "use" and s.rv.ops[0].const_value() is True:
                    here.add(s.lhs.local)
        cands = here if cands is None else (cands & here)
    if not cands:
        return None
    for l in sorted(cands):
        if any(v is False for _, v in prim.const_assigns_to(fn, l)):
            return l
    return None


def _loop_heads_testing(f, i):
    """loop heads whose exit test compares local i with a length"""
    heads = []
    for b in sorted(f.reachable()):
        preds = f.preds()[b]
        if not any(f.dominates(b, p_) and b in f.reach_from([p_]) for p_ in preds):
            continue
        # the loop condition is evaluated in the head or the blocks right after it
        cur = b
        for _ in range(6):
            t = f.blocks[cur].term
            if t.k == "switch":
                pr = prim.switch_pred(f, cur).strip()
                if pr.k == "bin" and pr.a in ("Lt", "Le", "Gt", "Ge", "Ne") and any(x.k == "var" and x.a.get("local") == i for x in pr.walk()):
                    heads.append(b)
                elif pr.k == "discr" and any(cn.a["name"] == "get" and any(x.k == "var" and x.a.get("local") == i for x in cn.walk()) for cn in pr.call_nodes()):
                    heads.append(b)          # `while let Some(&arg) = args.get(i)`
                break
            nx = f.succs(cur)
            if len(nx) != 1:
                break
            cur = nx[0]
    return heads


def _digit_closure(prog, o):
    """does the origin mention a closure whose result is char/u8::is_ascii_digit (or is_digit(10)) of its argument, unnegated"""
    for x in o.walk():
        if x.k == "closure" or (x.k == "const" and isinstance(x.a, dict) and str(x.a.get("v", "")).startswith("closure:")):
            pass
    import re as _re
    for m in _re.finditer(r"closure:([A-Za-z0-9_:<>' ,{}#]+?\{closure#\d+\})", o.fmt()):
        cf = prog.fns.get(m.group(1))
        if cf is None:
            continue
        rets = prim.origin_of_local(cf, 0).strip()
        if rets.k == "call" and rets.a["name"] in ("is_ascii_digit",):
            return True
        # the same test spelled as a range: `matches!(b, b'0'..=b'9')`, `(b'0'..=b'9').contains(&b)`, `b >= b'0' && b <= b'9'`
        bounds = set()
        other = False
        for b_ in cf.reachable():
            for s_ in cf.blocks[b_].stmts:
                if s_.rv is not None and s_.rv.k == "bin" and s_.rv.j["op"] in ("Le", "Ge", "Lt", "Gt", "Eq", "Ne"):
                    for o_ in s_.rv.ops:
                        if o_.kind == "const":
                            v_ = o_.const_value()
                            v_ = ord(v_) if isinstance(v_, str) and len(v_) == 1 else v_
                            if v_ in (48, 57):
                                bounds.add(v_)
                            else:
                                other = True
            t_ = cf.blocks[b_].term
            if t_.k == "call" and t_.j.get("callee_name") == "contains":
                for cst in prim.origin_of_operand(cf, t_.args[0]).consts():
                    v_ = cst.get("v")
                    v_ = ord(v_) if isinstance(v_, str) and len(v_) == 1 else v_
                    if v_ in (48, 57):
                        bounds.add(v_)
                    elif isinstance(v_, int) and not isinstance(v_, bool):
                        other = True
            elif t_.k == "call" and not (t_.j.get("callee_name") in ("deref", "clone", "into", "from")):
                other = True
        if bounds == {48, 57} and not other:
            return True
    return False


def _group_text(pat, n):
    """text of capture group n (1-based) of a regular expression literal; non-capturing (?:...) groups are not counted"""
    idx = 0
    stack = []
    i = 0
    while i < len(pat):
        ch = pat[i]
        if ch == "\\":
            i += 2
            continue
        if ch == "[":
            j = pat.find("]", i + 2)
            i = (j if j > 0 else len(pat)) + 1
            continue
        if ch == "(":
            cap = True
            start = i + 1
            if pat.startswith("(?", i):
                if pat.startswith("(?P<", i) or (pat.startswith("(?<", i) and not pat.startswith("(?<=", i) and not pat.startswith("(?<!", i)):
                    start = pat.index(">", i) + 1
                else:
                    cap = False
            if cap:
                idx += 1
            stack.append((idx if cap else None, start))
        elif ch == ")" and stack:
            gi, start = stack.pop()
            if gi == n:
                return pat[start:i]
        i += 1
    return None


def _group_index_by_name(pat, name):
    """1-based number of the capture group called `name` (`(?P<name>..)` / `(?<name>..)`), or None"""
    idx = 0
    i = 0
    while i < len(pat):
        ch = pat[i]
        if ch == "\\":
            i += 2
            continue
        if ch == "[":
            j = pat.find("]", i + 2)
            i = (j if j > 0 else len(pat)) + 1
            continue
        if ch == "(":
            if pat.startswith("(?", i):
                for pre in ("(?P<", "(?<"):
                    if pat.startswith(pre, i) and not pat.startswith("(?<=", i) and not pat.startswith("(?<!", i):
                        idx += 1
                        if pat[i + len(pre):pat.index(">", i)] == name:
                            return idx
                        break
            else:
                idx += 1
        i += 1
    return None


def _digits_only(prog, f, b, t):
    import re as _re
    recv = prim.origin_of_operand(f, t.args[0])
    # A. an all-digits test dominates the call
    atoms = prim.norm_guards(prim.dominating_guards(f, b))
    for at in atoms:
        a = at["a"].strip()
        if at["rel"] == "eq" and at["b"].strip().k == "const" and at["b"].strip().a.get("v") is True and a.k == "call" and a.a["name"] == "all" and _digit_closure(prog, a):
            subj = [x for x in a.walk() if x.k == "arg"]
            rsub = [x for x in recv.walk() if x.k == "arg"]
            if subj and rsub and subj[0].a.get("name") == rsub[0].a.get("name"):
                return "all(is_ascii_digit) holds for %s" % subj[0].a.get("name")
    # B. a capture group of a constant pattern
    src = recv
    if f.closure_of:
        # the closure's argument is what the parent hands to map/map_or/and_then: a Match of Captures::get(n)
        parent = prog.fns.get(f.closure_of)
        if parent is not None and any(x.k == "arg" for x in recv.walk()):
            for pb, pt in parent.calls():
                if any(a.kind != "const" and ("closure:%s" % f.path) in prim.origin_of_operand(parent, a).fmt() for a in pt.args) and pt.j.get("callee_name") in ("map", "map_or", "map_or_else", "and_then"):
                    src = prim.expand_single_def_vars(parent, prim.origin_of_operand(parent, pt.args[0]))
    src_fn = prog.fns.get(f.closure_of) if (f.closure_of and src is not recv) else f
    src = prim.resolve_promoted(src_fn or f, prim.renorm(prim.expand_single_def_vars(src_fn or f, src, depth=6)))
    s = src.fmt()
    m = _re.search(r"(?:Index::index|get)\(&?\(?(?:.*?)Regex::captures\(.*?Regex::new\(&\*'((?:[^'\\\\]|\\\\.)*)'\).*?, (\d+)\)", s)
    pat = None
    if m:
        pat, n = m.group(1), int(m.group(2))
    else:
        lits = [c.get("v") for c in src.consts() if isinstance(c.get("v"), str) and c.get("v").startswith("^")]
        nums = [c.get("v") for c in src.consts() if isinstance(c.get("v"), int) and not isinstance(c.get("v"), bool)]
        calls = [c.a["name"] for c in src.call_nodes()]
        names_ = [cn_ for cn_ in src.call_nodes() if cn_.a["name"] == "name" and "Captures" in str(cn_.a.get("callee")) + str(cn_.a.get("inst"))]
        if len(lits) == 1 and "captures" in calls and len(names_) == 1 and len(names_[0].kids) == 2:
            # a named group: `caps.name("year")`
            gname = [c_.get("v") for c_ in names_[0].kids[1].consts() if isinstance(c_.get("v"), str)]
            gi = _group_index_by_name(lits[0].replace("\\\\", "\\"), gname[0]) if len(gname) == 1 else None
            if gi is not None:
                pat, n = lits[0], gi
        elif len(lits) == 1 and "captures" in calls and ("index" in calls or "get" in calls) and nums:
            pat, n = lits[0], nums[-1]
        elif len(lits) == 1 and "captures" in calls and src is not recv:
            # the group is picked inside the closure (`captures(s).and_then(|groups| groups[2].parse())`): the closure's
            # parameter is the Captures the parent built
            r_ = recv.strip()
            inner_n = [c_.get("v") for c_ in recv.consts() if isinstance(c_.get("v"), int) and not isinstance(c_.get("v"), bool)]
            picks = [x for x in recv.walk() if (x.k == "index" or (x.k == "call" and x.a["name"] in ("index", "get"))) and any(y.k == "arg" and y.a.get("idx", 0) >= 2 for y in x.walk())]
            if len(picks) == 1 and len(inner_n) == 1:
                pat, n = lits[0], inner_n[0]
    if pat is not None:
        g = _group_text(pat.replace("\\\\", "\\"), n)
        if g is not None and _re.fullmatch(r"(\\d|\[0-9\])(\+|\{\d+(,\d*)?\})", g):
            return "capture group %d of %r is %r" % (n, pat, g)
        return None
    # D. the prefix handed back by a splitting helper at an offset that is a count of leading ASCII digits:
    #    `self.advance_by(self.string.chars().take_while(char::is_ascii_digit).count())`
    r0 = prim.renorm(prim.expand_single_def_vars(f, recv)).strip()
    while r0.k == "call" and r0.a["name"] in ("unwrap", "expect", "unwrap_or_default") and r0.kids:
        r0 = r0.kids[0].strip()
    for _ in range(3):
        # the success payload of the helper's result, taken with `?` or a match
        if r0.k == "field" and str(r0.a) == "0" and r0.kids and r0.kids[0].strip().k == "variant":
            r0 = r0.kids[0].strip()
        if r0.k == "variant" and str(r0.a) in ("Ok", "Some", "Continue") and r0.kids:
            r0 = r0.kids[0].strip()
            continue
        break
    if r0.k == "variant" and r0.kids:
        r0 = r0.kids[0].strip()
    if r0.k == "call" and r0.a["callee"].startswith("findutils::") and len(r0.kids) == 2:
        from .. import audit as _audit
        counted = _audit._ascii_prefix_count(prog, f, r0.kids[1])
        digit_pred = _audit._ascii_prefix_pred(prog, f, r0.kids[1]) == "is_ascii_digit"
        hf = prog.fns.get(r0.a["callee"]) or prog.fns.get(r0.a["callee"].split("::<")[0])
        if counted is not None and digit_pred and hf is not None:
            oks = [a.strip() for a in prim.flatten_phi(prim.origin_of_local(hf, 0)) if a.strip().k == "agg" and str(a.strip().a).endswith(("Result::Ok", "Option::Some"))]
            prefix = bool(oks) and all(any(cn.a["name"] in ("split_at_checked", "split_at", "get", "index") for cn in a.call_nodes()) and any(y.k == "arg" and y.a.get("idx") == 2 for y in a.walk()) and
                                       (any(y.k == "field" and str(y.a) == "0" for y in a.walk()) or any(y.k == "agg" and "RangeTo" in str(y.a) for y in a.walk())) for a in oks)
            if prefix and any(y.k == "field" for y in counted.walk()):
                return "the text is the prefix %s returns for an offset that is the count of leading is_ascii_digit characters of the same string" % prim.short(hf.path)
    # C. a counted run of digits: text[0..k] where k only ever grows by one under an is_ascii_digit test of the text's front
    rng = [x for x in recv.walk() if x.k == "agg" and "Range" in str(x.a)]
    ks = [x for x in recv.walk() if x.k == "var"]
    if "Range" in s and ks:
        k = ks[-1].a.get("local")
        good = True
        n_inc = 0
        for bb, kind, obj in prim.local_defs(f).get(k, []):
            if kind != "assign" or bb not in f.reachable():
                continue
            o = prim._origin_of_def(f, (bb, kind, obj), 6, set()).strip()
            core = o.kids[0].strip() if o.k == "field" and o.kids else o
            if core.k == "const" and core.a.get("v") == 0:
                continue
            if core.k == "bin" and core.a in ("Add", "AddWithOverflow") and [c.get("v") for c in core.consts()] == [1]:
                gs = prim.norm_guards(prim.dominating_guards(f, bb))
                if any(at["rel"] == "eq" and at["b"].strip().a.get("v") is True and _digit_closure(prog, at["a"]) for at in gs if at["b"].strip().k == "const"):
                    n_inc += 1
                    continue
            good = False
        if good and n_inc:
            return "the slice ends at a count that grows by one per is_ascii_digit character"
    return None
