"""C09 — find -exec ... ;: one run per file, {} substituted everywhere, argv intact, true iff exit status 0."""
from .. import prim
from . import common as C
from . import c08

M = C.M
SINGLE = M + "exec::SingleExecMatcher"
META = {
    "explanation": "R1 template: each argument is split on every `{}` (str::split, not splitn/split_once/replacen) at parse time and re-joined with the path (slice join) at match time; an argument without `{}` is passed as is; "
                   "exactly one Command::arg per template argument on every path of the loop, each receiving an OsStr built from the path by OsStr-preserving conversions only (no lossy String round trip); "
                   "R2 the program is Command::new(self.executable) with executable = the token after -exec, unchanged (no shell, no splitting); exactly one status() per evaluation; "
                   "R3 truth = ExitStatus::success() of that run, spawn error => false; the matcher never touches MatcherIO (find's exit status, -quit and pruning are unaffected); "
                   "R4 -execdir: path form ./<last component> and the working-directory decision table (no parent / empty parent / parent); current_dir only under the execdir flag; "
                   "R5 parser: the `;` form passes args[i+1] as executable and args[i+2..terminator] as the template, unchanged",
    "decides": "how the template is split and re-assembled, that every argument reaches argv exactly once and byte-exactly, what decides the action's truth value, that nothing else is affected, and -execdir's path/cwd rules",
    "does_not_decide": "std::process::Command's argv fidelity and wait-status decoding (trusted); the moment of evaluation relative to other primaries (C01)",
}

OS_IDENTITY = {"as_os_str", "as_ref", "deref", "borrow", "to_path_buf", "to_owned", "into", "from", "clone", "as_path", "to_os_string",
               "into_os_string", "path", "file_name", "join", "new", "as_os_string"}
LOSSY = {"to_string_lossy", "to_str", "to_string", "display", "into_string", "from_utf8_lossy", "to_ascii_lowercase", "trim", "replace", "escape_debug", "escape_default"}


def run(ctx):
    prog = ctx.prog
    # ---- R1 template split ---------------------------------------------------------------------------
    nf = ctx.fn("R1", SINGLE + "::new")
    cl = None
    if nf is not None:
        cls = prog.closures_of(nf)
        if not cls:
            # the mapper written as a conversion (`impl From<&str> for Arg`, `args.iter().copied().map(Arg::from)`): that
            # function is the template closure
            for b_, t_ in nf.calls():
                if t_.j.get("callee_name") == "map" and len(t_.args) == 2:
                    fo = prim.origin_of_operand(nf, t_.args[1]).strip()
                    txt = str(fo.a.get("inst") or fo.a.get("def") or fo.a.get("text") or fo.a.get("v") or "") if fo.k == "const" else ""
                    for cand in (txt, txt.split("::<")[0]):
                        f_ = prog.fns.get(cand) or getattr(prog, "absorbed", {}).get(cand)
                        if f_ is not None and "exec::Arg" in cand:
                            cls = [f_]
                            break
        ctx.ob("R1", "template-closure", len(cls) == 1, "SingleExecMatcher::new maps its arguments with %d closure(s); one expected" % len(cls), fn=nf, nontrivial=False)
        cl = cls[0] if len(cls) == 1 else None
        # the mapped sequence is all of `args`, in order
        for b in nf.reachable():
            for s in nf.blocks[b].stmts:
                if s.rv is not None and s.rv.k == "agg" and s.rv.j.get("adt") == SINGLE:
                    names = s.rv.j["fields"]
                    ao = prim.expand_single_def_vars(nf, prim.origin_of_operand(nf, s.rv.ops[names.index("args")]))
                    cn = [c.a["name"] for c in ao.call_nodes()]
                    ok = set(cn) <= {"collect", "map", "iter", "into_iter", "copied", "cloned"} and "map" in cn and any(x.k == "arg" and x.a["name"] == "args" for x in ao.walk())
                    ctx.ob("R1", "all-arguments-in-order", ok, "the stored template is %s; must be every argument mapped in order (no skip/rev/filter/dedup)" % ao.fmt(), fn=nf, where=prim.site(nf, b, s), how="provenance slice")
                    eo = prim.origin_of_operand(nf, s.rv.ops[names.index("executable")])
                    en = [c.a["name"] for c in eo.call_nodes()]
                    ctx.ob("R2", "executable-stored-verbatim", set(en) <= {"to_string", "to_owned", "into", "from", "clone"} and any(x.k == "arg" and x.a["name"] == "executable" for x in eo.walk()), "executable stored as %s" % eo.fmt(), fn=nf, where=prim.site(nf, b, s), how="provenance slice")
                    fo = prim.origin_of_operand(nf, s.rv.ops[names.index("exec_in_parent_dir")]).strip()
                    ctx.ob("R4", "execdir-flag-stored", fo.k == "arg", "exec_in_parent_dir stored as %s" % fo.fmt(), fn=nf, where=prim.site(nf, b, s), how="provenance slice", nontrivial=False)
    if cl is not None:
        ctx.analysed_fns.add(cl.path)
        splits = [(b, t) for b, t in cl.calls() if "core::str::<impl str>::" in (t.callee or "") and ("split" in t.j.get("callee_name", "") or t.j.get("callee_name") in ("replace", "replacen", "find", "matches", "match_indices"))]
        ok = len(splits) == 1 and splits[0][1].j.get("callee_name") == "split"
        pat = None
        if splits:
            po = prim.origin_of_operand(cl, splits[0][1].args[1]).strip()
            pat = po.a.get("v") if po.k == "const" else None
        ctx.ob("R1", "split-api", ok and pat == "{}", "the template is cut with str::%s(%r); must be str::split(\"{}\") — every occurrence, in every argument (splitn/split_once/rsplit lose occurrences or order)" % (splits[0][1].j.get("callee_name") if splits else None, pat), fn=cl, where=prim.site(cl, splits[0][0]) if splits else None, how="API choice at the split role")
        if splits:
            so = prim.origin_of_operand(cl, splits[0][1].args[0])
            ctx.ob("R1", "split-subject", not [c for c in so.call_nodes()] and any(x.k == "arg" for x in so.walk()), "split is applied to %s; must be the argument itself" % so.fmt(), fn=cl, where=prim.site(cl, splits[0][0]), how="provenance slice")
        for b in cl.reachable():
            for s in cl.blocks[b].stmts:
                if s.rv is not None and s.rv.k == "agg" and s.rv.j.get("adt") == M + "exec::Arg":
                    v = s.rv.j.get("variant")
                    o = prim.expand_single_def_vars(cl, prim.origin_of_operand(cl, s.rv.ops[0]))
                    cn = [c.a["name"] for c in o.call_nodes()]
                    gs = prim.dominating_guards(cl, b)
                    one = None
                    for gd in gs:
                        pr = gd["pred"].strip()
                        if pr.k == "bin" and pr.a in ("Eq", "Ne") and any(c.get("v") == 1 for c in pr.consts()) and any(c.a["name"] == "len" for c in pr.call_nodes()):
                            one = (pr.a == "Eq") == (gd["bool"] is True)
                        # `arg.contains("{}")`: the same question (a string without the separator splits into one piece)
                        if pr.k == "call" and pr.a["name"] == "contains" and gd["bool"] is not None and [c.get("v") for c in prim.resolve_promoted(cl, pr).consts() if c.get("k") == "str"] == ["{}"] \
                                and any(x.k == "arg" for x in pr.kids[0].walk()) and not pr.kids[0].call_nodes():
                            one = gd["bool"] is False
                    if v == "LiteralArg":
                        ok = set(cn) <= {"from", "into", "to_owned", "to_os_string", "new"} and any(x.k == "arg" for x in o.walk()) and one is True
                        ctx.ob("R1", "literal-argument", ok, "LiteralArg(%s) under `parts.len()==1` = %s; an argument without `{}` must be stored unchanged, and only then" % (o.fmt(), one), fn=cl, where=prim.site(cl, b, s), how="provenance slice + dominating guard")
                    elif v == "FileArg":
                        ok = set(cn) <= {"collect", "map", "iter", "into_iter", "deref", "split"} and "split" in cn and one is False
                        fnargs = [x.a.get("inst") or x.a.get("def") or "" for x in o.walk() if x.k == "const" and x.a.get("k") == "fn"]
                        okf = all("OsString" in a and "From" in a for a in fnargs) and bool(fnargs)
                        ctx.ob("R1", "file-argument-parts", ok and okf, "FileArg(%s) under `parts.len()!=1` = %s, element map %s; must be all pieces of the split, each converted by OsString::from, in order" % (o.fmt(), one is False, fnargs), fn=cl, where=prim.site(cl, b, s), how="provenance slice + dominating guard")
    # ---- matches ------------------------------------------------------------------------------------------
    mf = ctx.fn("R1", C.matcher_impl(SINGLE, "matches"))
    if mf is not None:
        def role(t):
            n = t.j.get("callee_name")
            inst = t.j.get("callee_inst") or ""
            c = t.callee or ""
            if "process::Command" in inst or c.startswith("std::process::Command::"):
                if n in ("arg", "args", "arg0", "env", "envs", "env_clear", "env_remove"):
                    return "cmd:" + n
                if n in ("status", "spawn", "output"):
                    return "run"
                if n == "new":
                    return "cmd:new"
                if n == "current_dir":
                    return "cmd:current_dir"
            if n == "next" and "Iterator" in inst:
                return "next"
            if n == "success" and "ExitStatus" in inst:
                return "success"
            if "MatcherIO" in c:
                return "io:" + n
            return None
        g0 = prim.event_graph(mf, role)
        g = C.G(g0)
        # one Command::arg per template element
        nx = g.nodes("next")
        args = g.nodes("cmd:arg")
        ok = len(nx) == 1 and len(args) >= 1 and sorted(g.succ(nx[0], "1")) == sorted(args) and all(g.succ(a) == nx for a in args)
        ctx.ob("R1", "one-argv-element-per-template-argument", ok, "the template loop must add exactly one argv element (Command::arg) per template argument and nothing else; events: %s" % g.fmt(), fn=mf, how="event graph")
        others = [n for n in g.out if C.base(n) in ("cmd:args", "cmd:arg0", "cmd:env", "cmd:envs", "cmd:env_clear", "cmd:env_remove")]
        ctx.ob("R1", "no-other-argv-or-env-edits", not others, "SingleExecMatcher::matches also calls %s" % others, fn=mf, how="event graph")
        for b, t in mf.calls():
            if role(t) == "cmd:arg":
                o = prim.expand_single_def_vars(mf, prim.origin_of_operand(mf, t.args[1]))
                cn = {c.a["name"] for c in o.call_nodes()}
                lossy = sorted(cn & LOSSY)
                is_join = "join" in cn and any(c.a["name"] == "join" and "slice" in c.a["callee"] for c in o.call_nodes())
                is_lit = not is_join
                if is_join:
                    jn = [c for c in o.call_nodes() if c.a["name"] == "join" and "slice" in c.a["callee"]][0]
                    sep = prim.expand_single_def_vars(mf, jn.kids[1]) if len(jn.kids) > 1 else None
                    sep_names = {c.a["name"] for c in sep.call_nodes()} if sep else set()
                    pl = C.find_local(mf, "path_to_file", ty="std::path::PathBuf")
                    from_path = sep is not None and (any(c.a["callee"].endswith("WalkEntry::path") for c in sep.call_nodes()) or (bool(pl) and any(x.k == "var" and x.a.get("local") == pl[0] for x in sep.walk())))
                    ok = not lossy and from_path and sep_names <= OS_IDENTITY
                    pieces = jn.kids[0]
                    okp = any(x.k == "variant" and str(x.a) == "FileArg" for x in pieces.walk())
                    ctx.ob("R1", "file-argument=parts.join(path)", ok and okp, "a `{}` argument is rebuilt as %s; must be the stored pieces joined with the entry's path through OsStr-preserving conversions only (lossy/transforming calls: %s)" % (o.fmt()[:400], lossy or sorted(sep_names - OS_IDENTITY)), fn=mf, where=prim.site(mf, b), how="provenance slice + allow-list")
                else:
                    ok = not lossy and cn <= OS_IDENTITY | {"next", "into_iter", "iter"} and any(x.k == "variant" and str(x.a) == "LiteralArg" for x in o.walk())
                    ctx.ob("R1", "literal-argument-passed-as-is", ok, "a literal argument is passed as %s" % o.fmt()[:300], fn=mf, where=prim.site(mf, b), how="provenance slice + allow-list")
        # ---- R2 program and single run
        news = [(b, t) for b, t in mf.calls() if role(t) == "cmd:new"]
        ok = len(news) == 1
        if ok:
            eo = prim.origin_of_operand(mf, news[0][1].args[0]).strip()
            ok = eo.k == "field" and eo.a == "executable"
        ctx.ob("R2", "program=executable", ok, "the program run is Command::new(self.executable) (no shell, no word splitting)", fn=mf, how="provenance slice")
        runs = g.nodes("run")
        reach_wo = {"ENTRY"} | g.reach(["ENTRY"], stop_roles=("run",))
        rets = [n for n in {b for _, _, b in g.edges} if n.startswith("RET(")]
        ok = len(runs) == 1 and not [r for r in rets if r in reach_wo] and not any(C.base(x) == "run" for x in g.reach(runs))
        ctx.ob("R2", "exactly-one-run", ok, "every evaluation must run the command exactly once (status() on every path, never twice); events: %s" % g.fmt(), fn=mf, how="must-pass on the event graph")
        # ---- R3 truth value and no MatcherIO effects
        if runs:
            okb = g.succ(runs[0], "0")
            erb = g.succ(runs[0], "1")
            ok = bool(okb) and all(C.base(x) == "success" for x in okb) and bool(erb) and all(x == "RET(const:False)" for x in erb)
            for s in g.nodes("success"):
                ok = ok and g.succ(s) == ["RET(ev:success)"]
            ctx.ob("R3", "truth=status.success()", ok, "the action must be true exactly when the child's ExitStatus::success(), and false when it cannot be started; events: %s" % g.fmt(), fn=mf, how="event graph")
        ios = [n for n in g.out if C.base(n).startswith("io:")]
        flushes = [n for n in ios if C.base(n) == "io:flush_output"]
        others = [n for n in ios if C.base(n) != "io:flush_output"]
        io_uses = _uses_of_arg(mf, 3)
        ctx.ob("R3", "matcher-io-untouched", not others and len(io_uses) <= len(flushes), "SingleExecMatcher::matches uses its MatcherIO for %s (%d uses of the parameter): a failing or missing command must not change find's exit status, quit or prune — flushing find's own output before the command starts is the only use" % ([C.base(n) for n in ios], len(io_uses)), fn=mf, how="uses of the parameter")
        # the command finds (and extends) find's earlier output in order: flush before every run
        before = {"ENTRY"} | g.reach(["ENTRY"], stop_roles=("io:flush_output",))
        ctx.ob("R2", "output-flushed-before-run", bool(flushes) and not any(C.base(x) == "run" for x in before), "every path to the start of the command passes MatcherIO::flush_output (with stdout on a pipe or file the output of earlier actions would otherwise appear after the command's); events: %s" % g.fmt()[:300], fn=mf, how="must-pass on the event graph")
        # ---- R4 execdir
        pl = C.find_local(mf, "path_to_file", ty="std::path::PathBuf")
        if pl:
            c08._path_form(ctx, "R4", mf, pl[0], "SingleExecMatcher")
        else:
            ctx.missing("R4", "path_to_file in SingleExecMatcher::matches")
        c08._cwd_table(ctx, "R4", mf, "SingleExecMatcher")
        for b, t in mf.calls():
            if role(t) == "cmd:current_dir":
                gs = prim.dominating_guards(mf, b)
                ok = any(gd["pred"].strip().k == "field" and gd["pred"].strip().a == "exec_in_parent_dir" and gd["bool"] is True for gd in gs)
                ctx.ob("R4", "cwd-only-for-execdir", ok, "current_dir must only be set for -execdir; guards: %s" % prim.guards_fmt(gs), fn=mf, where=prim.site(mf, b), how="dominating guard")
    # ---- R5 parser ---------------------------------------------------------------------------------------------
    fn, d, arms, info = C.parser_arms(ctx, "R5")
    if arms:
        from ..dispatch import arm_of
        a = arm_of(arms, "-exec")
        if a is None:
            ctx.missing("R5", "parser arm -exec")
        else:
            single = a.calls_matching("exec::SingleExecMatcher::new")
            ctx.ob("R5", "constructor", len(single) == 1, "SingleExecMatcher::new sites in the -exec arm: %d" % len(single), fn=fn, where=prim.site(fn, a.entry), nontrivial=False)
            for b, t in single:
                gs = prim.dominating_guards(fn, b)
                semi = any(gd["pred"].strip().k == "call" and gd["pred"].strip().a["name"] == "eq" and gd["bool"] is True and any(c.get("v") == ";" for c in gd["pred"].consts()) for gd in gs)
                ctx.ob("R5", "single-under-semicolon", semi, "SingleExecMatcher is built on the `;` terminator only; guards: %s" % prim.guards_fmt(gs)[:300], fn=fn, where=prim.site(fn, b), how="dominating guard")
                eo = prim.origin_of_operand(fn, t.args[0]).strip()
                ok = eo.k == "index" or (eo.k == "call" and eo.a["name"] == "index")
                idx = None
                if eo.k == "index":
                    idx = eo.kids[1].strip()
                    base = eo.kids[0]
                    core = idx.kids[0].strip() if idx.k == "field" and idx.kids else idx
                    ok = core.k == "bin" and core.a in ("Add", "AddWithOverflow") and any(c.get("v") == 1 for c in core.consts()) and any(x.k == "var" and x.a.get("local") in C.scan_index(fn) for x in core.walk()) and any(x.k == "arg" and x.a["name"] == "args" for x in base.walk())
                ctx.ob("R5", "executable=args[i+1]", ok, "the executable is %s; must be the token right after -exec, unchanged" % eo.fmt(), fn=fn, where=prim.site(fn, b), how="provenance slice")
                ao = prim.origin_of_operand(fn, t.args[1]).strip()
                ok = ao.k == "call" and ao.a["name"] == "index" and len(ao.kids) == 2 and ao.kids[1].strip().k == "agg" and "Range" in str(ao.kids[1].strip().a)
                if ok:
                    lo, hi = [k.strip() for k in ao.kids[1].strip().kids[:2]]
                    loc = lo.kids[0].strip() if lo.k == "field" and lo.kids else lo
                    ok = loc.k == "bin" and loc.a in ("Add", "AddWithOverflow") and any(c.get("v") == 2 for c in loc.consts()) and hi.k == "var" and hi.a.get("name") is not None and any(x.k == "arg" and x.a["name"] == "args" for x in ao.kids[0].walk())
                ctx.ob("R5", "template=args[i+2..terminator]", ok, "the template is %s; must be every token between the executable and the terminator" % ao.fmt()[:300], fn=fn, where=prim.site(fn, b), how="provenance slice")


def _uses_of_arg(f, idx):
    """statements/terminators reading argument local `idx` (a parameter that must stay unused)"""
    out = []
    for b in f.reachable():
        blk = f.blocks[b]
        for s in blk.stmts:
            if s.rv is None:
                continue
            pls = [o.place for o in s.rv.ops if o.place is not None]
            if s.rv.place is not None:
                pls.append(s.rv.place)
            if any(p.local == idx for p in pls):
                out.append((b, s))
        t = blk.term
        if t.k == "call" and any(a.place is not None and a.place.local == idx for a in t.args):
            out.append((b, t))
    return out
