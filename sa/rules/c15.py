"""C15 — time tests: whole elapsed periods, strict -newer, -newerXY uses X (entry) and Y (reference)."""
from .. import dispatch, prim
from . import common as C

M = C.M
T = M + "time::"
E = M + "entry::"
META = {
    "explanation": "R1 tables: token -> timestamp kind (-atime/-amin access, -ctime/-cmin status change, -mtime/-mmin modification), token -> matcher (days vs minutes), kind -> Metadata accessor (accessed/changed/modified; changed = st_ctime with nanoseconds), -newer/-anewer/-cnewer -> (m,m)/(a,m)/(c,m), -newerXY -> regex groups (1,2); "
                   "R2 periods: the age is one duration_since between the injected start time and the file's timestamp taken at full resolution, truncated to whole seconds, then divided (truncating) by the constant 86400 resp. 60; "
                   "R2 also: what is compared with N is the truncated quotient plus a correction that is -1 only for a timestamp in the future, else 0; R3 single clock: SystemTime::now is read only when the dependencies object is created, Dependencies::now returns that stored value, matchers obtain 'now' only through MatcherIO::now; no other clock API in any matches(); "
                   "R4 strictness of -newer: the verdict is duration_since(reference, entry).is_err() (entry strictly later) or a strict comparison in the same orientation, on the entry's modification time vs the reference's, reference stat'ed follow-mode-aware at parse time; "
                   "R5 -newerXY provenance: selector X is applied to the entry's record at match time, selector Y to the reference file's record at construction, and the verdict compares exactly those two timestamps, strictly",
    "decides": "which timestamp each token reads, the period constants and that truncation happens after the full-resolution difference, that 'now' is fixed once, the orientation/strictness of -newer, and that -newerXY uses X on the entry and Y on the reference",
    "does_not_decide": "sub-second arithmetic inside std::time; the interplay of the future-timestamp correction with -daystart; -newerXt date parsing",
}

KIND = {"-atime": "Accessed", "-amin": "Accessed", "-ctime": "Changed", "-cmin": "Changed", "-mtime": "Modified", "-mmin": "Modified"}
MATCHER = {"-atime": "FileTimeMatcher", "-ctime": "FileTimeMatcher", "-mtime": "FileTimeMatcher", "-amin": "FileAgeRangeMatcher", "-cmin": "FileAgeRangeMatcher", "-mmin": "FileAgeRangeMatcher"}
ACCESSOR = {"Accessed": "accessed", "Changed": "changed", "Modified": "modified", "Birthed": "created"}
PERIOD = {"FileTimeMatcher": 86400, "FileAgeRangeMatcher": 60}
CLOCKS = ("std::time::SystemTime::now", "std::time::Instant::now", "chrono::Utc::now", "chrono::Local::now", "chrono::offset::Utc::now", "chrono::offset::Local::now", "libc::time", "libc::clock_gettime", "libc::gettimeofday")


def enum_dispatch_table(prog, f, adt_path):
    """variant name -> set of (callee last name) called in the arm, for the single switch on `adt_path` in f"""
    adt = prog.adts.get(adt_path)
    names = {v["idx"]: v["name"] for v in adt["variants"]} if adt else {}
    sw = [b for b in f.reachable() if f.blocks[b].term.k == "switch" and (prim.discr_type_of_switch(f, b) or "") == adt_path]
    if len(sw) != 1:
        return None
    out = {}
    for lab, tgt in prim.switch_edges(f, sw[0]):
        if lab == "else":
            continue
        reg = [x for x in f.reach_from([tgt]) if f.dominates(tgt, x)]
        cs = sorted({f.blocks[x].term.j.get("callee_name") for x in reg if f.blocks[x].term.k == "call"})
        out[names.get(lab, lab)] = cs
    return out


def _future_side(f, bb):
    """block bb runs only when the file's timestamp lies after the start time: it is dominated by the Err edge of
    `start_time.duration_since(file_time)` or by the true edge of a flag that is only ever set there"""
    for gd in prim.dominating_guards(f, bb):
        pr = gd["pred"].strip()
        if pr.k == "discr" and any(c.a["name"] == "duration_since" for c in pr.call_nodes()) and gd["labels"] == [1]:
            return True
        if gd["bool"] is True and _implies_future(f, gd["pred"], 3):
            return True
    return False


def _implies_future(f, o, depth):
    """the bool `o` can be true only for a timestamp in the future"""
    if depth < 0:
        return False
    s = prim.expand_single_def_vars(f, o).strip()
    if s.k == "const":
        return s.a.get("v") is False
    if s.k == "var" and s.a.get("local") is not None:
        l = s.a["local"]
        ds = [d_ for d_ in prim.local_defs(f).get(l, []) if d_[1] != "partial"]
        if not ds or any(d_[1] != "assign" for d_ in ds):
            return False
        for bb_, kind_, obj_ in ds:
            od = prim._origin_of_def(f, (bb_, kind_, obj_), 8, {l}).strip()
            if od.k == "const" and od.a.get("v") is False:
                continue
            if od.k == "const" and od.a.get("v") is True:
                if not _future_side_plain(f, bb_):
                    return False
                continue
            if not (_future_side_plain(f, bb_) or _implies_future(f, od, depth - 1)):
                return False
        return True
    if s.k == "field" and s.kids and str(s.a).isdigit():
        # a component of a pair built on both sides of the comparison (a helper returning `(seconds, is_future)`)
        inner = s.kids[0].strip()
        alts = inner.kids if inner.k == "phi" else [inner]
        if not alts:
            return False
        for a_ in alts:
            a2 = a_.strip()
            if not (a2.k == "agg" and a2.a == "tuple" and int(s.a) < len(a2.kids)):
                return False
            comp = a2.kids[int(s.a)].strip()
            if comp.k == "const" and comp.a.get("v") is False:
                continue
            if a_.bb is not None and _future_side_plain(f, a_.bb):
                continue
            if not _implies_future(f, comp, depth - 1):
                return False
        return True
    if s.k == "phi":
        for a_ in s.kids:
            a2 = a_.strip()
            if a2.k == "const" and a2.a.get("v") is False:
                continue
            if a_.bb is not None and _future_side(f, a_.bb):
                continue
            if not _implies_future(f, a_, depth - 1):
                return False
        return True
    if s.k == "bin" and str(s.a) == "BitAnd" and len(s.kids) == 2:
        return _implies_future(f, s.kids[0], depth - 1) or _implies_future(f, s.kids[1], depth - 1)
    return False


def _future_side_plain(f, bb):
    return any(gd["pred"].strip().k == "discr" and any(c.a["name"] == "duration_since" for c in gd["pred"].call_nodes()) and gd["labels"] == [1] for gd in prim.dominating_guards(f, bb))


def _pair_converted_in_place(ps):
    """the function returns Some((conv(p.0), conv(p.1))) for one pair p: first component from the first, second from the second"""
    for bb, o in prim.defs_origins(ps, 0):
        for alt in prim.flatten_phi(o):
            a = alt.strip()
            if a.k == "agg" and str(a.a).endswith("Option::Some") and a.kids:
                tup = a.kids[0].strip()
                if tup.k == "agg" and tup.a == "tuple" and len(tup.kids) == 2:
                    ok = True
                    for i_, comp in enumerate(tup.kids):
                        c_ = comp.strip()
                        if not (c_.k == "call" and c_.a["name"] in ("to_string", "to_owned", "into", "from")):
                            ok = False
                            break
                        flds = [str(x.a) for x in c_.walk() if x.k == "field"]
                        if flds[:1] != [str(i_)]:
                            ok = False
                    if ok:
                        return True
    return False


def run(ctx):
    prog = ctx.prog
    fn, d, arms, info = C.parser_arms(ctx, "R1")
    # ---- R1 tables -----------------------------------------------------------------------------------------
    if arms:
        seen = set()
        for tok, kind in KIND.items():
            a = dispatch.arm_of(arms, tok)
            if a is None:
                ctx.ob("R1", "token:%s" % tok, False, "%s not recognised" % tok, fn=fn)
                continue
            tys = a.boxed_matcher_types()
            ctx.ob("R1", "token-matcher:%s" % tok, tys == [T + MATCHER[tok]], "%s builds %s; oracle %s (days vs minutes)" % (tok, [prim.short(x) for x in tys], MATCHER[tok]), fn=fn, where=prim.site(fn, a.entry), how="dispatch table")
            if id(a) in seen:
                continue
            seen.add(id(a))
            # inner dispatch: literal -> FileTimeType variant
            inner = {}
            for tst in prim.str_tests(fn):
                if tst["bb"] in a.blocks and tst["lit"] in KIND and tst["bb"] != d.lit_arm.get(tst["lit"]):
                    reg = [x for x in fn.reach_from([tst["true_bb"]]) if fn.dominates(tst["true_bb"], x) and x in a.blocks]
                    vs = set()
                    for x in reg[:]:
                        for s in fn.blocks[x].stmts:
                            if s.rv is not None and s.rv.k == "agg" and s.rv.j.get("adt") == T + "FileTimeType":
                                vs.add(s.rv.j.get("variant"))
                        break
                    inner[tst["lit"]] = sorted(vs)
            # tests belonging to the outer chain are excluded by construction (they are not inside the arm region)
            for lit in a.lits:
                ctx.ob("R1", "token-kind:%s" % lit, inner.get(lit) == [KIND[lit]], "%s selects timestamp kind %s; oracle %s" % (lit, inner.get(lit), KIND[lit]), fn=fn, where=prim.site(fn, a.entry), how="inner string dispatch table")
            # the kind reaches the constructor
            for b, t in a.calls_matching(T + "FileTimeMatcher::new", T + "FileAgeRangeMatcher::new"):
                o = prim.origin_of_operand(fn, t.args[0]).strip()
                ok = (o.k == "var" and o.a.get("name") == "file_time_type") or o.k in ("phi", "agg")
                ctx.ob("R1", "kind-reaches-matcher:%s" % "|".join(a.lits), ok, "the matcher is built with kind %s" % o.fmt(), fn=fn, where=prim.site(fn, b), how="provenance slice", nontrivial=False)
    ft = ctx.fn("R1", T + "FileTimeType::get_file_time")
    if ft is not None:
        tab = enum_dispatch_table(prog, ft, T + "FileTimeType")
        want = {k: [ACCESSOR[k]] for k in ("Accessed", "Changed", "Modified")}
        ctx.ob("R1", "kind-accessor:FileTimeType", tab == want, "FileTimeType::get_file_time reads %s; oracle %s" % (tab, want), fn=ft, how="variant dispatch table")
    nt = ctx.fn("R1", T + "NewerOptionType::get_file_time")
    if nt is not None:
        tab = enum_dispatch_table(prog, nt, T + "NewerOptionType")
        want = {k: [ACCESSOR[k]] for k in ("Accessed", "Birthed", "Changed", "Modified")}
        ctx.ob("R1", "kind-accessor:NewerOptionType", tab == want, "NewerOptionType::get_file_time reads %s; oracle %s" % (tab, want), fn=nt, how="variant dispatch table")
    nf = ctx.fn("R1", T + "NewerOptionType::from_str")
    if nf is not None:
        ds = dispatch.find_dispatches(nf)
        rows = {}
        if ds:
            dd = ds[0]
            for lit, bb in list(dd.lit_arm.items()) + [("other", dd.tests[-1]["false_bb"])]:
                vs = set()
                for s in nf.blocks[bb].stmts:
                    if s.rv is not None and s.rv.k == "agg" and s.rv.j.get("adt") == T + "NewerOptionType":
                        vs.add(s.rv.j.get("variant"))
                rows[lit] = sorted(vs)
        ctx.ob("R1", "selector-letters", rows == {"a": ["Accessed"], "B": ["Birthed"], "c": ["Changed"], "other": ["Modified"]}, "selector letter -> kind: %s; oracle a access, B birth, c status change, m (remaining letter) modification" % rows, fn=nf, how="string dispatch table")
    ch = ctx.fn("R1", "<std::fs::Metadata as %sChangeTime>::changed" % T)
    if ch is not None:
        names = sorted({t.j.get("callee_name") for b, t in ch.calls()})
        ctx.ob("R1", "changed=st_ctime", "ctime" in names and "ctime_nsec" in names and not ({"mtime", "atime", "mtime_nsec", "atime_nsec", "modified", "accessed"} & set(names)), "Metadata::changed is built from %s; oracle ctime()+ctime_nsec()" % names, fn=ch, how="call sites")
    # full resolution: no function of the time matchers or of the timestamp constructors goes through floating point
    # (an f64 has 53 bits: a timestamp of today with nanoseconds needs 61, so two distinct timestamps compare equal)
    nfl = 0
    for f in sorted(ctx.prog.fns.values(), key=lambda f: f.path):
        if not (f.path.startswith(T) or f.path.startswith("<std::fs::Metadata as " + T) or ("as " + T) in f.path or f.path.startswith("findutils::find::time::")):
            continue
        if "::tests::" in f.path:
            continue
        nfl += 1
        fl = sorted({l["ty"] for l in f.locals if l["ty"] in ("f64", "f32")})
        fc = sorted({(t.callee or "") for b, t in f.calls() if "f64" in (t.callee or "") or "f32" in (t.callee or "")})
        ctx.ob("R2", "no-float@%s" % prim.short(f.path), not fl and not fc, "timestamps and ages are integers (seconds, nanoseconds) end to end; floating-point locals %s, calls %s" % (fl, fc), fn=f, how="local types + call sites", nontrivial=False)
    ctx.floor("R2", "no-float functions", nfl, 17)
    ps = ctx.fn("R1", M + "parse_str_to_newer_args")
    if ps is not None:
        tests = prim.str_tests(ps)
        rows = {}
        for tst in tests:
            if tst["lit"] in ("-newer", "-anewer", "-cnewer"):
                reg = [x for x in ps.reach_from([tst["true_bb"]]) if ps.dominates(tst["true_bb"], x)]
                lits = []
                for x in sorted(reg):
                    t = ps.blocks[x].term
                    if t.k == "call" and t.j.get("callee_name") in ("to_string", "to_owned", "from", "into"):
                        o = prim.origin_of_operand(ps, t.args[0]).strip()
                        if o.k == "const" and o.a.get("k") == "str":
                            lits.append(o.a["v"])
                if not lits:
                    # the pair built by a local helper closure: `pair("a", "m")` with `pair = |x, y| Some((x.to_string(), y.to_string()))`
                    for x in sorted(reg):
                        t = ps.blocks[x].term
                        if t.k == "call" and t.j.get("callee_name") in ("call", "call_mut", "call_once") and len(t.args) == 2:
                            clo = [y for y in prim.origin_of_operand(ps, t.args[0]).walk() if y.k == "agg" and str(y.a).startswith("closure:")]
                            cf_ = ctx.prog.fns.get(str(clo[0].a).split(":", 1)[1]) if len(clo) == 1 else None
                            tup = prim.origin_of_operand(ps, t.args[1]).strip()
                            if cf_ is not None and tup.k == "agg" and tup.a == "tuple":
                                r_ = prim.origin_of_local(cf_, 0).strip()
                                comps = r_.kids[0].strip().kids if (r_.k == "agg" and str(r_.a).endswith("Option::Some") and r_.kids and r_.kids[0].strip().k == "agg" and r_.kids[0].strip().a == "tuple") else []
                                order = []
                                for cp in comps:
                                    cps = cp.strip()
                                    args_ = [y.a.get("idx") for y in cps.walk() if y.k == "arg"]
                                    if cps.k == "call" and cps.a["name"] in ("to_string", "to_owned", "into", "from") and len(args_) == 1:
                                        order.append(args_[0] - 2)
                                if len(order) == 2 and all(0 <= i_ < len(tup.kids) for i_ in order):
                                    vals = [tup.kids[i_].strip() for i_ in order]
                                    if all(v_.k == "const" and v_.a.get("k") == "str" for v_ in vals):
                                        lits = [v_.a["v"] for v_ in vals]
                if not lits:
                    # the pair chosen as two literals, converted after the match: `"-anewer" => ("a", "m")` .. `Some((x.to_string(),
                    # y.to_string()))` — the components keep their places (checked once below)
                    for x in sorted(reg):
                        for s_ in ps.blocks[x].stmts:
                            if s_.rv is not None and s_.rv.k == "agg" and s_.rv.j.get("ak") == "tuple" and len(s_.rv.ops) == 2:
                                vs_ = [prim.resolve_promoted(ps, prim.origin_of_operand(ps, o_)).strip() for o_ in s_.rv.ops]
                                if all(v_.k == "const" and v_.a.get("k") == "str" for v_ in vs_) and _pair_converted_in_place(ps):
                                    lits = [v_.a["v"] for v_ in vs_]
                rows[tst["lit"]] = lits
        ctx.ob("R1", "newer-aliases", rows == {"-newer": ["m", "m"], "-anewer": ["a", "m"], "-cnewer": ["c", "m"]}, "alias table %s; oracle -newer=(m,m), -anewer=(a,m), -cnewer=(c,m)" % rows, fn=ps, how="string dispatch table")
        # -newerXY: x = group 1, y = group 2
        gets = []
        for b in ps.reachable():
            for s in ps.blocks[b].stmts:
                if s.rv is not None and s.rv.k == "agg" and s.rv.j.get("ak") == "tuple" and len(s.rv.ops) == 2:
                    idx = []
                    for o in s.rv.ops:
                        oo = prim.expand_single_def_vars(ps, prim.origin_of_operand(ps, o))
                        g = [c for c in oo.call_nodes() if c.a["name"] == "get"]
                        idx.append(g[0].kids[1].strip().a.get("v") if g and g[0].kids[1].strip().k == "const" else None)
                    if any(i is not None for i in idx):
                        gets.append(idx)
        if len(gets) == 2 and gets[0] == [1, 2] and _pair_converted_in_place(ps):
            # the pair of groups is picked once and converted component by component afterwards (the second tuple is the
            # converted one; its components were traced to the same `get` calls through the first)
            gets = [g_ for g_ in gets if g_ != gets[1] or g_ == [1, 2]][:1]
        ctx.ob("R1", "newerXY-groups", gets == [[1, 2]], "-newerXY returns capture groups %s as (X, Y); oracle (1, 2)" % gets, fn=ps, how="provenance slice")
    # ---- R2 periods ------------------------------------------------------------------------------------------
    for ty, period in PERIOD.items():
        f = ctx.fn("R2", T + ty + "::matches_impl")
        if f is None:
            continue
        divs = []
        for b in f.reachable():
            for s in f.blocks[b].stmts:
                if s.rv is not None and s.rv.k == "bin" and s.rv.j["op"] in ("Div", "Rem", "Shr"):
                    divs.append((b, s))
        ok = len(divs) == 1 and divs[0][1].rv.j["op"] == "Div"
        desc = "?"
        if ok:
            b, s = divs[0]
            dv = prim.origin_of_operand(f, s.rv.ops[1]).strip()
            nu = prim.expand_single_def_vars(f, prim.origin_of_operand(f, s.rv.ops[0]))
            desc = "%s / %s" % (nu.fmt()[:200], dv.fmt())
            ok = dv.k == "const" and dv.a.get("v") == period
            ctx.ob("R2", "period:%s" % ty, ok, "%s divides by %s; oracle %d seconds" % (ty, dv.fmt(), period), fn=f, where=prim.site(f, b, s), how="constant operand")
            # dividend: as_secs of the age variable
            names = [c.a["name"] for c in nu.call_nodes()]
            ok2 = "as_secs" in names and not ({"as_millis", "as_secs_f64", "as_secs_f32", "subsec_nanos", "as_nanos", "as_micros"} & set(names))
            ctx.ob("R2", "whole-seconds:%s" % ty, ok2, "the dividend is %s; oracle: the age truncated to whole seconds (Duration::as_secs)" % nu.fmt()[:300], fn=f, where=prim.site(f, b, s), how="provenance slice")
        else:
            ctx.ob("R2", "period:%s" % ty, False, "%s must perform exactly one truncating division by its period; found %d division-like operations" % (ty, len(divs)), fn=f)
        # what is compared with N: the quotient, corrected by -1 only for a timestamp in the future (truncation towards
        # zero would otherwise count 1 second ahead as period 0) — never by anything else, and by 0 for every age >= 0
        for b, t in f.calls():
            if t.j.get("callee_name") != "imatches" or len(t.args) < 2:
                continue
            vo = prim.origin_of_operand(f, t.args[1]).strip()
            core = vo.kids[0].strip() if vo.k == "field" and vo.kids else vo
            ok_off, desc_off = False, vo.fmt()[:200]
            if core.k == "bin" and str(core.a) in ("Add", "AddWithOverflow") and len(core.kids) == 2:
                quo = [k_ for k_ in core.kids if any(x.k == "bin" and str(x.a) == "Div" for x in k_.walk())]
                off = [k_ for k_ in core.kids if not any(x.k == "bin" and str(x.a) == "Div" for x in k_.walk())]
                if len(quo) == 1 and len(off) == 1:
                    os_ = off[0].strip()
                    if os_.k == "var" and os_.a.get("local") is not None:
                        alts = [(bb_, od_.strip()) for bb_, od_ in prim.alternatives(f, os_.a["local"])]
                    else:
                        alts = [(a_.bb, a_.strip()) for a_ in prim.flatten_phi(off[0])]
                    vals = [prim.const_eval(a_) for _, a_ in alts]
                    desc_off = "quotient + %s" % vals
                    ok_off = sorted(set(v_ for v_ in vals if v_ is not None)) == [-1, 0] and None not in vals
                    if ok_off:
                        # the -1 is chosen only on the side where the difference was negative (duration_since failed)
                        for (bb_, a_), v_ in zip(alts, vals):
                            if v_ == -1:
                                ok_off = ok_off and bb_ is not None and _future_side(f, bb_)
                    elif len(alts) == 1 and alts[0][1].k == "un" and str(alts[0][1].a) == "Neg" and alts[0][1].kids:
                        # `-i64::from(flag)`: 0 or -1, the latter exactly when the flag holds
                        inner = alts[0][1].kids[0].strip()
                        if inner.k == "call" and inner.a["name"] == "from" and "From<bool>" in str(inner.a.get("inst") or "") and inner.kids:
                            desc_off = "quotient - (%s as integer)" % inner.kids[0].fmt()[:80]
                            ok_off = _implies_future(f, inner.kids[0], 4)
            elif core.k == "bin" and str(core.a) == "Div":
                ok_off, desc_off = False, "the bare quotient (a timestamp less than one period in the future would count as period 0)"
            ctx.ob("R2", "rounding-offset:%s" % ty, ok_off, "%s compares N with %s; oracle: complete periods of the age, i.e. the truncated quotient, minus one only for a timestamp in the future" % (ty, desc_off), fn=f, where=prim.site(f, b), how="provenance slice + dominating guards")
        # the age: duration_since(start_time, this_time) — one full-resolution difference
        ds = [(b, t) for b, t in f.calls() if t.j.get("callee_name") == "duration_since" and "SystemTime" in (t.j.get("callee_inst") or t.callee or "")]
        ok = len(ds) == 1
        desc = [prim.site(f, b) for b, _ in ds]
        if ok:
            a0 = prim.origin_of_operand(f, ds[0][1].args[0]).strip()
            a1 = prim.expand_single_def_vars(f, prim.origin_of_operand(f, ds[0][1].args[1]))
            from_file = any(c.a["name"] == "get_file_time" for c in a1.call_nodes()) and any(c.a["callee"] == E + "WalkEntry::metadata" for c in a1.call_nodes())
            ok = a0.k == "arg" and a0.a["name"] == "start_time" and from_file
            desc = "duration_since(%s, %s)" % (a0.fmt(), a1.fmt()[:200])
        ctx.ob("R2", "full-resolution-difference:%s" % ty, ok, "%s computes its age from %s; oracle: exactly one SystemTime::duration_since(start_time, file timestamp) — the fraction is discarded from the *difference*; truncating each timestamp to seconds first is off by one period when frac(timestamp) > frac(now)" % (ty, desc), fn=f, how="call sites + provenance")
        # the file timestamp uses the matcher's own kind
        for b, t in f.calls():
            if t.j.get("callee_name") == "get_file_time":
                so = prim.origin_of_operand(f, t.args[0]).strip()
                mo = prim.origin_of_operand(f, t.args[1])
                ok = so.k == "field" and so.a == "file_time_type" and any(c.a["callee"] == E + "WalkEntry::metadata" for c in mo.call_nodes())
                ctx.ob("R2", "own-kind-on-entry-record:%s" % ty, ok, "get_file_time(%s, %s)" % (so.fmt(), mo.fmt()), fn=f, where=prim.site(f, b), how="provenance slice")
        mf = ctx.fn("R2", C.matcher_impl(T + ty, "matches"))
        if mf is not None:
            mi = [(b, t) for b, t in mf.calls() if t.callee == T + ty + "::matches_impl"]
            ok = len(mi) == 1
            if ok:
                so = prim.origin_of_operand(mf, mi[0][1].args[2]).strip()
                ok = so.k == "call" and so.a["callee"] == T + "get_time" and so.kids[0].strip().k == "arg"
            ctx.ob("R2", "start-time-from-matcher-io:%s" % ty, ok, "%s::matches must take its start time from get_time(matcher_io, ..)" % ty, fn=mf, how="provenance slice")
    # ---- R3 single clock ---------------------------------------------------------------------------------------
    n_clock = 0
    for f, b, t in prog.all_calls():
        if f.crate != "findutils" or f.path.startswith(C.X):
            continue
        c = (t.callee or "").split("::<")[0]
        r = (t.resolved or "").split("::<")[0]
        hit = next((k for k in CLOCKS if c == k or r == k or c.endswith("::" + k.split("::", 1)[-1])), None)
        if hit is None and t.j.get("callee_name") == "now" and ("chrono" in c or "SystemTime" in c or "Instant" in c):
            hit = c
        if hit is None:
            continue
        n_clock += 1
        ok = f.path == "findutils::find::StandardDependencies::new" or f.path == M + "parse_date_str_to_timestamps"
        ctx.ob("R3", "clock-read@%s" % prim.short(f.path), ok,
               "%s is called in %s: 'now' must be fixed once when find starts (StandardDependencies::new) and reach the tests through MatcherIO::now — a clock read per entry lets an entry cross a period boundary during a long run (the only other reviewed site is the parse-time default date of -newerXt)" % (hit, f.path), fn=f, where=prim.site(f, b), how="who-may-call")
    ctx.floor("R3", "clock reads in find", n_clock, 2)
    sn = ctx.fn("R3", "<findutils::find::StandardDependencies as findutils::find::Dependencies>::now")
    if sn is not None:
        o = prim.origin_of_local(sn, 0).strip()
        ctx.ob("R3", "now-is-stored-value", o.k == "field" and o.a == "now" and not sn.calls(), "Dependencies::now returns %s; must be the value stored at start-up (no call)" % o.fmt(), fn=sn, how="provenance slice")
    ws = prim.field_writes(prog, "find::StandardDependencies", "now")
    for f, b, obj, val, kind in ws:
        ok = kind == "construct" and f.path == "findutils::find::StandardDependencies::new"
        ctx.ob("R3", "now-writer@%s" % prim.short(f.path), ok, "StandardDependencies.now written in %s (%s)" % (f.path, kind), fn=f, where=prim.site(f, b, obj), how="field writers")
    mn = ctx.fn("R3", M + "MatcherIO::<'_>::now")
    if mn is not None:
        o = prim.origin_of_local(mn, 0).strip()
        ok = o.k == "call" and o.a["name"] == "now" and any(x.k == "field" and x.a == "deps" for x in o.walk())
        ctx.ob("R3", "matcher-io-now", ok, "MatcherIO::now = %s; oracle self.deps.now()" % o.fmt(), fn=mn, how="provenance slice")
    gt = ctx.fn("R3", T + "get_time")
    if gt is not None:
        srcs = []
        for bb, o in prim.defs_origins(gt, 0):
            if bb in gt.reachable():
                srcs.append(o)
        plain = [o for o in srcs if o.strip().k == "call" and o.strip().a["callee"].endswith("MatcherIO::<'_>::now")]
        gs_ok = False
        for bb, o in prim.defs_origins(gt, 0):
            if o.strip().k == "call" and o.strip().a["callee"].endswith("MatcherIO::<'_>::now"):
                gs = prim.dominating_guards(gt, bb)
                gs_ok = any(gd["pred"].strip().k == "arg" and gd["pred"].strip().a["name"] == "today_start" and gd["bool"] is False for gd in gs)
        ctx.ob("R3", "start-time=now-unless-daystart", len(plain) == 1 and gs_ok, "without -daystart the start time must be exactly MatcherIO::now(); sources: %s" % [o.fmt()[:120] for o in srcs], fn=gt, how="provenance slice + dominating guard")
    # ---- R4 strict -newer -----------------------------------------------------------------------------------------
    nm = ctx.fn("R4", T + "NewerMatcher::matches_impl")
    if nm is not None:
        _strict(ctx, "R4", nm, "NewerMatcher", ref_field="given_modification_time", entry_accessor="modified")
    nn = ctx.fn("R4", T + "NewerMatcher::new")
    if nn is not None:
        for b in nn.reachable():
            for s in nn.blocks[b].stmts:
                if s.rv is not None and s.rv.k == "agg" and s.rv.j.get("adt") == T + "NewerMatcher":
                    o = prim.expand_single_def_vars(nn, prim.origin_of_operand(nn, s.rv.ops[0]))
                    names = [c.a["name"] for c in o.call_nodes()]
                    ok = "modified" in names and "root_metadata" in names and any(x.k == "arg" and x.a["name"] == "follow" for x in o.walk()) and any(x.k == "arg" and x.a["name"] == "path_to_file" for x in o.walk())
                    ctx.ob("R4", "reference=mtime-of-F", ok, "the reference time is %s; oracle: modified() of follow.root_metadata(F)" % o.fmt()[:300], fn=nn, where=prim.site(nn, b, s), how="provenance slice")
    if arms:
        a = dispatch.arm_of(arms, "-newer")
        if a is not None:
            cs = a.calls_matching(T + "NewerMatcher::new")
            ok = len(cs) == 1
            if ok:
                fo = prim.origin_of_operand(fn, cs[0][1].args[1]).strip()
                ok = fo.k == "field" and fo.a == "follow"
            ctx.ob("R4", "reference-follow-mode", ok, "-newer must stat its reference with the command line's follow mode (config.follow)", fn=fn, where=prim.site(fn, a.entry), how="provenance slice")
    # ---- R5 -newerXY ------------------------------------------------------------------------------------------------
    om = ctx.fn("R5", T + "NewerOptionMatcher::matches_impl")
    on = ctx.fn("R5", T + "NewerOptionMatcher::with_follow")
    ref_field = None
    if on is not None:
        # the reference file is examined like a starting point: through the follow mode handed in, never a fixed stat()
        rm = [c for b, t in on.calls() for c in [t] if (t.callee or "").endswith("Follow::root_metadata")]
        raw = [t.callee for b, t in on.calls() if (t.callee or "") in ("std::fs::metadata", "std::fs::symlink_metadata", "std::path::Path::metadata", "std::path::Path::symlink_metadata")]
        okf = len(rm) == 1 and not raw
        if okf:
            fo = prim.origin_of_operand(on, rm[0].args[0]).strip()
            po = prim.origin_of_operand(on, rm[0].args[1])
            okf = fo.k == "arg" and fo.a["name"] == "follow" and any(x.k == "arg" and x.a["name"] == "path_to_file" for x in po.walk())
        ctx.ob("R5", "reference-follow-mode:newerXY", okf, "the reference file of -newerXY/-anewer/-cnewer is examined through %s (raw stat calls: %s); oracle: Follow::root_metadata(follow, path_to_file) with the follow mode handed in by the parser" % ([prim.short(t.callee) for t in rm], raw), fn=on, how="call sites + provenance")
    plain_new = ctx.prog.fns.get(T + "NewerOptionMatcher::new")
    if plain_new is not None:
        o = prim.origin_of_local(plain_new, 0).strip()
        ctx.ob("R5", "new-delegates", o.k == "call" and o.a["callee"] == T + "NewerOptionMatcher::with_follow" and [k.strip().k for k in o.kids[:3]] == ["arg", "arg", "arg"], "NewerOptionMatcher::new = %s; oracle: with_follow(x, y, path, ..)" % o.fmt()[:160], fn=plain_new, how="provenance slice", nontrivial=False)
    if on is not None:
        for b in on.reachable():
            for s in on.blocks[b].stmts:
                if s.rv is not None and s.rv.k == "agg" and s.rv.j.get("adt") == T + "NewerOptionMatcher":
                    names = s.rv.j["fields"]
                    tf = [n for n in names if n not in ("x_option", "y_option")]
                    ok_shape = len(tf) == 1
                    if ok_shape:
                        ref_field = tf[0]
                        o = prim.expand_single_def_vars(on, prim.origin_of_operand(on, s.rv.ops[names.index(ref_field)]))
                        gft = [c for c in o.call_nodes() if c.a["callee"] == T + "NewerOptionType::get_file_time"]
                        ok = len(gft) == 1
                        sel = "?"
                        if ok:
                            so = prim.expand_single_def_vars(on, gft[0].kids[0])
                            sel = so.fmt()
                            ok = any(x.k == "arg" and x.a["name"] == "y_option" for x in so.walk()) and not any(x.k == "arg" and x.a["name"] == "x_option" for x in so.walk())
                            mo = gft[0].kids[1]
                            ok = ok and any(x.k == "arg" and x.a["name"] == "path_to_file" for x in prim.expand_single_def_vars(on, mo).walk())
                        ctx.ob("R5", "reference-time=Y-of-reference", ok,
                               "the stored reference time is %s (selector %s); oracle: selector Y applied to the reference file's record (a fixed accessor such as modified() ignores Y)" % (o.fmt()[:300], sel), fn=on, where=prim.site(on, b, s), how="provenance slice")
                    for nm_, argn in (("x_option", "x_option"), ("y_option", "y_option")):
                        if nm_ in names:
                            so = prim.expand_single_def_vars(on, prim.origin_of_operand(on, s.rv.ops[names.index(nm_)]))
                            ok = any(x.k == "arg" and x.a["name"] == argn for x in so.walk()) and any(c.a["name"] == "from_str" for c in so.call_nodes())
                            ctx.ob("R5", "selector-stored:%s" % nm_, ok, "%s = %s" % (nm_, so.fmt()), fn=on, where=prim.site(on, b, s), how="provenance slice", nontrivial=False)
    if om is not None:
        gft = [(b, t) for b, t in om.calls() if t.callee == T + "NewerOptionType::get_file_time"]
        sels = []
        for b, t in gft:
            so = prim.origin_of_operand(om, t.args[0]).strip()
            mo = prim.origin_of_operand(om, t.args[1])
            sels.append((so.a if so.k == "field" else so.fmt(), any(c.a["callee"] == E + "WalkEntry::metadata" for c in mo.call_nodes())))
        ctx.ob("R5", "entry-time=X-of-entry", sels == [("x_option", True)],
               "at match time the selectors applied to the entry's record are %s; oracle: exactly X (Y belongs to the reference file)" % sels, fn=om, how="call sites + provenance")
        if ref_field:
            _strict(ctx, "R5", om, "NewerOptionMatcher", ref_field=ref_field, entry_accessor="get_file_time")
    if arms:
        a = arms.get(("_",))
        if a is not None:
            cs = a.calls_matching(T + "NewerOptionMatcher::with_follow")
            ok = len(cs) == 1 and not a.calls_matching(T + "NewerOptionMatcher::new")
            if ok:
                t = cs[0][1]
                fo = prim.origin_of_operand(fn, t.args[3]).strip()
                ctx.ob("R5", "reference-follow-mode:parser", fo.k == "field" and fo.a == "follow" and any(x.k == "arg" and x.a["name"] == "config" for x in fo.walk()), "-newerXY hands %s to the matcher as the follow mode for its reference; oracle config.follow (the command line's -P/-H/-L)" % fo.fmt(), fn=fn, where=prim.site(fn, cs[0][0]), how="provenance slice")
                xo = prim.origin_of_operand(fn, t.args[0])
                yo = prim.origin_of_operand(fn, t.args[1])
                ok = any(x.k == "var" and x.a.get("name") == "x_option" for x in xo.walk()) and any(x.k == "var" and x.a.get("name") == "y_option" for x in yo.walk())
                if not ok:
                    # through the tuple returned by parse_str_to_newer_args
                    ok = ".0" in xo.fmt() and ".1" in yo.fmt()
            ctx.ob("R5", "parser-passes-(X,Y)-in-order", ok, "NewerOptionMatcher::new must receive (X, Y) in that order", fn=fn, where=prim.site(fn, a.entry), how="provenance slice")


def _strict(ctx, rule, f, who, ref_field, entry_accessor):
    """verdict = ref.duration_since(entry_time).is_err()  |  entry_time > ref  |  ref < entry_time"""
    o = None
    for bb, oo in prim.defs_origins(f, 0):
        if bb in f.reachable():
            s = oo.strip()
            if s.k == "agg" and str(s.a).endswith("Result::Ok") and s.kids:
                o = prim.expand_single_def_vars(f, s.kids[0])
    ok = False
    desc = o.fmt()[:300] if o is not None else "?"
    if o is not None:
        s = o.strip()
        def is_ref(x):
            return any(y.k == "field" and y.a == ref_field for y in x.walk())
        def is_entry(x):
            return any(c.a["name"] == entry_accessor for c in x.call_nodes()) and any(c.a["callee"] == E + "WalkEntry::metadata" for c in x.call_nodes())
        if s.k == "call" and s.a["name"] == "is_err" and s.kids and s.kids[0].strip().k == "call" and s.kids[0].strip().a["name"] == "duration_since":
            d = s.kids[0].strip()
            ok = is_ref(d.kids[0]) and is_entry(d.kids[1]) and not is_entry(d.kids[0])
        elif s.k == "call" and s.a["name"] in ("gt", "lt"):
            a, b = s.kids[0], s.kids[1]
            ok = (s.a["name"] == "gt" and is_entry(a) and is_ref(b)) or (s.a["name"] == "lt" and is_ref(a) and is_entry(b))
        elif s.k == "bin" and s.a in ("Gt", "Lt"):
            a, b = s.kids[0], s.kids[1]
            ok = (s.a == "Gt" and is_entry(a) and is_ref(b)) or (s.a == "Lt" and is_ref(a) and is_entry(b))
    ctx.ob(rule, "strictly-later:%s" % who, ok,
           "%s's verdict is %s; oracle: true iff the entry's timestamp is strictly later than the reference's — accepted idioms: reference.duration_since(entry).is_err(), entry > reference, reference < entry (one comparison of exactly those two values)" % (who, desc),
           fn=f, how="provenance slice of the returned value")
