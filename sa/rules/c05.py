"""C05 — xargs input splitting: quoting, -0/-d, independence of read() chunking."""
from .. import prim
from . import common as C

X = C.X
META = {
    "explanation": "R1 byte mode: ByteDelimitedArgumentReader::next compares input bytes only with self.delimiter, calls no classification/trimming function, passes bytes through the allow-listed conversions only; "
                   "R2 reader selection (delimiter => byte reader, none => whitespace reader) and the delimiter decision table of normalize_options simulated on all assignments; "
                   "R3 state carried across refills: no write to the tokenizer state (escape, result, terminator/argument flags) in the refill region; unconsumed bytes saved with split_off(i+1); EOF inside a quote is an error; "
                   "R4 emission guard: every path to Ok(Some(Argument)) passes a token-start event or the true edge of a flag only set at such events; where quotes can open, the delivery decision does not rest on the collected bytes being non-empty (an empty quoted argument is an argument); "
                   "R5 terminator kind: hard iff the terminating byte was newline (writers of the flag), kind selected from it; R6 special-byte table of the default mode {\" ' \\\\} + is_ascii_whitespace",
    "decides": "R1 also: in -0/-d mode an empty field is an argument (the retry path of the byte reader is switched by a flag that do_xargs sets from -0/-d); R4 also the converse — every token-start event raises the in-argument flag before the next byte is examined; which bytes can influence tokenisation in each mode, that tokenizer state survives every refill of the buffer, and that no argument is emitted without having been started",
    "does_not_decide": "that the quote/escape language equals GNU's on every byte string; UTF-8 validity handling (lossy conversion is allow-listed)",
}

WS = "<findutils::xargs::WhitespaceDelimitedArgumentReader<R> as findutils::xargs::ArgumentReader>::next"
BD = "<findutils::xargs::ByteDelimitedArgumentReader<R> as findutils::xargs::ArgumentReader>::next"
BYTE_INTERP = ("is_ascii", "trim", "strip_", "split", "replace", "to_ascii", "to_lower", "to_upper", "is_whitespace", "eq_ignore", "escape", "make_ascii", "retain", "dedup", "starts_with", "ends_with", "contains", "find", "rfind", "position", "filter")
VERBATIM_OK = ("from_utf8_lossy", "into_owned", "into", "from", "index", "deref", "as_ref", "borrow", "to_owned", "to_vec", "as_slice", "clone")


def u8_local(f, l):
    return f.local_ty(l) in ("u8", "&u8", "&&u8")


SEPARATORS = [9, 10, 32]


def run(ctx):
    prog = ctx.prog
    _PROG["prog"] = prog
    # ---- R1 ------------------------------------------------------------------------------------
    bd = ctx.fn("R1", BD)
    if bd is not None:
        ncmp = 0
        for b in bd.reachable():
            blk = bd.blocks[b]
            for s in blk.stmts:
                if s.rv is not None and s.rv.k == "bin" and s.rv.j["op"] in ("Eq", "Ne", "Lt", "Le", "Gt", "Ge"):
                    ops = s.rv.ops
                    tys = []
                    for o in ops:
                        if o.place is not None:
                            tys.append(bd.local_ty(o.place.local) if o.place.is_local() else "?")
                        else:
                            tys.append(o.const.get("ty"))
                    if "u8" in tys:
                        ncmp += 1
                        origs = [prim.origin_of_operand(bd, o).strip() for o in ops]
                        has_delim = any(x.k == "field" and x.a == "delimiter" for x in origs)
                        ctx.ob("R1", "byte-compare", has_delim and s.rv.j["op"] in ("Eq", "Ne"),
                               "in -0/-d mode an input byte is compared: %s; the only byte an input byte may be compared with is self.delimiter" % s.fmt(bd), fn=bd, where=prim.site(bd, b, s), how="operand provenance")
            t = blk.term
            if t.k == "switch" and t.j.get("discr_ty") == "u8":
                ctx.ob("R1", "byte-switch", False, "in -0/-d mode an input byte is dispatched on constants %s (quote/escape/blank processing is forbidden)" % [v for v, _ in t.j["arms"]], fn=bd, where=prim.site(bd, b))
            if t.k == "call":
                n = t.j.get("callee_name") or ""
                if any(n.startswith(p) for p in BYTE_INTERP) and n not in ("split_last",):     # split_last: decided by trim-only-delimiter below
                    ctx.ob("R1", "byte-interpretation-call:%s" % n, False, "ByteDelimitedArgumentReader::next calls %s: bytes other than the delimiter must reach the command unchanged" % (t.j.get("callee_inst") or n), fn=bd, where=prim.site(bd, b))
        ctx.floor("R1", "byte comparisons in the byte reader", ncmp, 1)
        ru = [(b, t) for b, t in bd.calls() if t.j.get("callee_name") == "read_until"]
        ok = len(ru) == 1
        if ok:
            o = prim.origin_of_operand(bd, ru[0][1].args[1]).strip()
            ok = o.k == "field" and o.a == "delimiter"
        ctx.ob("R1", "split-at-delimiter", ok, "the byte reader must split with read_until(self.delimiter)", fn=bd, how="provenance slice")
        # emitted bytes = the buffer filled by read_until (minus the trailing delimiter) through identity conversions
        bufs = set()
        for b0, t0 in ru:
            if len(t0.args) >= 3:
                ul = prim.user_local_behind(bd, t0.args[2])
                if ul is not None:
                    bufs.add(ul)
        is_delim = lambda x: x.strip().k == "field" and x.strip().a == "delimiter"

        def of_buf(x):
            vs = [y.a.get("local") for y in x.walk() if y.k == "var"]
            return bool(vs) and set(vs) <= bufs

        def classify(fn_, alt, def_bb):
            """whole | trimmed (only under last byte == delimiter, exactly one byte) | None"""
            a_ = alt.strip()
            names_ = [cn.a["name"] for cn in a_.call_nodes()]
            atoms_ = prim.norm_guards(prim.dominating_guards(fn_, def_bb))
            if not of_buf(a_):
                return None, "not derived from the read_until buffer alone (%s)" % a_.fmt()[:80]
            if set(names_) <= {"index", "deref", "as_slice", "as_ref", "borrow"} and not any(y.k == "agg" and "RangeTo" in str(y.a) or (y.k == "agg" and "RangeFrom" in str(y.a)) or (y.k == "agg" and str(y.a).endswith("Range")) for y in a_.walk()):
                return "whole", ""
            if "split_last" in names_ and set(names_) <= {"split_last", "deref", "as_slice", "as_ref", "borrow"}:
                # (buf.split_last() as Some).0.1 — the part before the last byte
                rest = any(y.k == "field" and str(y.a) == "1" for y in a_.walk()) and any(y.k == "variant" and str(y.a) == "Some" for y in a_.walk())
                g_ = prim.atom_holds(atoms_, "eq", lambda x: any(cn.a["name"] == "split_last" for cn in x.call_nodes()) and any(y.k == "field" and str(y.a) == "0" for y in x.walk()) and of_buf(x), is_delim)
                return ("trimmed", "") if rest and g_ is not None else (None, "split_last rest used without `last == self.delimiter` (%s)" % prim.guards_fmt(prim.dominating_guards(fn_, def_bb))[:120])
            if names_.count("index") == 1 and any(y.k == "agg" and "RangeTo" in str(y.a) for y in a_.walk()) and set(names_) <= {"index", "len", "deref", "as_slice", "as_ref", "borrow"}:
                one = any(cst.get("v") == 1 for cst in a_.consts()) and "len" in names_ and any(y.k == "bin" and y.a in ("Sub", "SubWithOverflow") for y in a_.walk())
                g_ = prim.atom_holds(atoms_, "eq", lambda x: of_buf(x) and any(y.k == "index" or (y.k == "call" and y.a["name"] == "index") for y in x.walk()), is_delim) or \
                    next((at for at in atoms_ if at["rel"] == "eq" and at["b"].strip().k == "const" and at["b"].strip().a.get("v") is True and any(is_delim(y) for y in prim.expand_single_def_vars(fn_, at["a"]).walk())), None)
                return ("trimmed", "") if one and g_ is not None else (None, "range ..len-1 without `last == self.delimiter` or not exactly one byte")
            return None, "the bytes are %s" % a_.fmt()[:100]
        for b in bd.reachable():
            for s in bd.blocks[b].stmts:
                if s.rv is not None and s.rv.k == "agg" and s.rv.j.get("adt") == X + "Argument":
                    names = s.rv.j["fields"]
                    o = prim.origin_of_operand(bd, s.rv.ops[names.index("arg")])
                    bad = [c for c in o.callees() if c.split("::")[-1].split("<")[0] not in VERBATIM_OK]
                    leaves = [x for x in o.walk() if x.k == "var"]
                    kinds_, why_ = [], []
                    if len(leaves) == 1 and leaves[0].a.get("local") in bufs:
                        kinds_.append("whole")
                    elif len(leaves) == 1:
                        for d_ in [d_ for d_ in prim.local_defs(bd).get(leaves[0].a["local"], []) if d_[1] != "partial"]:
                            k_, w_ = classify(bd, prim._origin_of_def(bd, d_, 10, set()), d_[0])
                            kinds_.append(k_)
                            if w_:
                                why_.append(w_)
                    else:
                        k_, w_ = classify(bd, o, b)
                        kinds_.append(k_)
                        if w_:
                            why_.append(w_)
                    okv = not bad and bool(kinds_) and None not in kinds_
                    ctx.ob("R1", "bytes-verbatim", okv, "the argument is built from %s; only identity conversions of the read_until buffer are allowed (offending calls: %s; %s)" % (o.fmt()[:200], bad, "; ".join(why_)), fn=bd, where=prim.site(bd, b, s), how="provenance slice, per alternative")
                    ctx.ob("R1", "trim-only-delimiter", okv and "whole" in kinds_, "the argument is the buffer %s; oracle: whole when the input ended without a delimiter, and without its last byte only when that byte equals the delimiter (exactly one byte)" % kinds_, fn=bd, where=prim.site(bd, b, s), how="per-alternative dominating guards (normal form)")
                    ko = prim.origin_of_operand(bd, s.rv.ops[names.index("kind")]).strip()
                    ctx.ob("R1", "byte-mode-kind", ko.k == "agg" and str(ko.a).endswith("HardTerminated"), "every -0/-d argument ends an input line (kind %s)" % ko.fmt(), fn=bd, where=prim.site(bd, b, s), how="constant field")

    # ---- R1 (cont.) every field of -0/-d input is an argument, the empty one included -----------------------------
    if bd is not None:
        heads = [h for h in bd.reachable() if any(bd.dominates(h, s) for s in bd.preds()[h])]
        backs = [(h, s) for h in heads for s in bd.preds()[h] if bd.dominates(h, s)]
        flags = set()
        okr = True
        desc = []
        for h, s in backs:
            atoms = prim.norm_guards(prim.dominating_guards(bd, s))
            fl = [(at["rel"], at["a"].strip().a) for at in atoms if at["a"].strip().k == "field" and at["a"].strip().a not in ("delimiter", "rd") and any(x.k == "arg" and x.a.get("name") == "self" for x in at["a"].walk())
                  and at["b"].strip().k == "const" and at["b"].strip().a.get("v") is True]
            desc.append(fl)
            if not fl:
                okr = False
            flags |= {(r_, n_) for r_, n_ in fl}
        ctx.ob("R1", "retry-only-by-configuration", okr and len(flags) == 1,
               "ByteDelimitedArgumentReader::next reads again without delivering an argument on %d path(s), under reader flags %s; an empty field between two delimiters is an argument of -0/-d input "
               "(`printf 'a\\0\\0b\\0' | xargs -0` has three), so dropping it may only happen under a flag of the reader that do_xargs clears for -0/-d" % (len(backs), desc),
               fn=bd, where=prim.site(bd, backs[0][1]) if backs else None, how="loop back edges + dominating guards (normal form)")
        dx_ = prog.fns.get(X + "do_xargs")
        if okr and len(flags) == 1 and dx_ is not None:
            rel, fname = list(flags)[0]
            keep_when_true = rel == "ne"          # retry (drop) only while the flag is false
            # who writes the flag: the constructor default and one builder taking the value
            writers = []
            for f2 in prog.fns.values():
                if "ByteDelimitedArgumentReader" not in f2.path or "::tests::" in f2.path:
                    continue
                for b2 in f2.reachable():
                    for s2 in f2.blocks[b2].stmts:
                        if s2.rv is not None and s2.rv.k == "agg" and fname in (s2.rv.j.get("fields") or []) and "ByteDelimitedArgumentReader" in str(s2.rv.j.get("adt")):
                            writers.append((f2, "init", prim.origin_of_operand(f2, s2.rv.ops[s2.rv.j["fields"].index(fname)]).strip()))
                        elif s2.lhs is not None and s2.lhs.proj and isinstance(s2.lhs.proj[-1], dict) and s2.lhs.proj[-1].get("n") == fname and s2.rv is not None:
                            writers.append((f2, "set", prim.origin_of_operand(f2, s2.rv.ops[0]).strip() if s2.rv.ops else None))
            setters = [w for w in writers if w[1] == "set" and w[2] is not None and w[2].k == "arg"]
            inits = [w for w in writers if w[1] == "init"]
            okw = len(setters) == 1 and all(w[2].k == "const" for w in inits) and len(writers) == len(setters) + len(inits)
            ctx.ob("R1", "flag-writers", okw, "the reader flag `%s` is written by %s; oracle: constant defaults and one builder storing its argument" % (fname, [(prim.short(w[0].path), w[1], w[2].fmt() if w[2] else "?") for w in writers]), fn=bd, how="field writers")
            if okw:
                setter = setters[0][0]
                calls = [(b3, t3) for b3, t3 in dx_.calls() if t3.callee == setter.path]
                okv = len(calls) == 1
                why = "%d call(s) of %s in do_xargs" % (len(calls), prim.short(setter.path))
                if okv:
                    b3, t3 = calls[0]
                    ai = setters[0][2].a.get("idx", 2) - 1
                    vo = prim.origin_of_operand(dx_, t3.args[ai]).strip()
                    alts = []
                    if vo.k == "var":
                        for d in [d for d in prim.local_defs(dx_).get(vo.a["local"], []) if d[1] != "partial"]:
                            alts.append((prim._origin_of_def(dx_, d, 8, set()).strip(), prim.norm_guards(prim.dominating_guards(dx_, d[0]))))
                    else:
                        alts.append((vo, []))
                    is_null = lambda x: x.strip().k == "field" and x.strip().a == "null"
                    is_dsome = lambda x: x.strip().k == "call" and x.strip().a["name"] == "is_some" and any(y.k == "field" and y.a == "delimiter" for y in x.walk())
                    terms = set()
                    good = True
                    for o3, ats in alts:
                        if o3.k == "const" and o3.a.get("v") is True:
                            hit = [n for n, pr in (("null", is_null), ("delimiter", is_dsome)) if prim.atom_holds(ats, "eq", pr, lambda x: x.strip().k == "const" and x.strip().a.get("v") is True)]
                            good = good and len(hit) >= 1
                            terms |= set(hit[:1])
                        elif is_null(o3):
                            terms.add("null")
                        elif is_dsome(o3):
                            terms.add("delimiter")
                        elif o3.k == "bin" and o3.a == "BitOr" and any(is_null(k_) for k_ in o3.kids) and any(is_dsome(k_) for k_ in o3.kids):
                            terms |= {"null", "delimiter"}
                        else:
                            good = False
                    okv = good and terms == {"null", "delimiter"} and keep_when_true
                    why = "the flag receives %s (keeps empty fields when %s)" % (" | ".join(o3.fmt()[-60:] for o3, _ in alts), "true" if keep_when_true else "false")
                ctx.ob("R1", "empty-fields-kept-for-0-and-d", okv, "%s; oracle: true exactly when -0 or -d was given (options.null || options.delimiter.is_some()); the newline-delimited lines of -I/-L are the only place where an empty item is skipped" % why,
                       fn=dx_, where=prim.site(dx_, calls[0][0]) if calls else None, how="definitions of the flag value + dominating guards (normal form)")
    # ---- whitespace reader -----------------------------------------------------------------------
    ws = ctx.fn("R3", WS)
    if ws is None:
        return
    state_names = ["escape", "result", "terminated_by_newline"]
    locs = {n: (ws.locals_named(n) or [None])[0] for n in state_names + ["i", "pending"]}
    # role-based fallbacks (a renamed local must not raise an alarm)
    def _user(l):
        return ws.local_name(l) is not None
    if locs["result"] is None:
        for b, t in ws.calls():
            if t.j.get("callee_name") == "from_utf8_lossy":
                l = _root_user_local(ws, t.args[0])
                if l is not None:
                    locs["result"] = l
    if locs["pending"] is None:
        for b, t in ws.calls():
            if t.j.get("callee_name") == "swap" and "mem" in (t.callee or ""):
                for a in t.args:
                    l = _root_user_local(ws, a)
                    if l is not None and ws.local_ty(l) == "std::vec::Vec<u8>":
                        locs["pending"] = l
    if locs["escape"] is None:
        c = [l for l in range(len(ws.locals)) if _user(l) and ws.local_ty(l).startswith("std::option::Option<") and "Escape" in ws.local_ty(l)]
        locs["escape"] = c[0] if len(c) == 1 else None
    if locs["terminated_by_newline"] is None:
        c = []
        for l in range(len(ws.locals)):
            if _user(l) and ws.local_ty(l) == "bool":
                for d_ in prim.local_defs(ws).get(l, []):
                    if d_[1] == "assign":
                        o_ = prim._origin_of_def(ws, d_, 6, {l}).strip()
                        if o_.k == "bin" and o_.a == "Eq" and any(cc.get("v") == 10 for cc in o_.consts()):
                            c.append(l)
        locs["terminated_by_newline"] = c[0] if len(set(c)) == 1 else None
    direct_kind = False
    if locs["terminated_by_newline"] is None:
        # no flag: the terminator kind itself is the state (a local of the ArgumentKind type set at the separator)
        c = [l for l in range(len(ws.locals)) if _user(l) and ws.local_ty(l).endswith("ArgumentKind")]
        if len(c) == 1:
            locs["terminated_by_newline"] = c[0]
            direct_kind = True
    if locs["pending"] is None:
        for b, t in ws.calls():
            if t.j.get("callee_name") in ("take", "replace") and "mem" in (t.callee or "") and t.dest is not None:
                for l2 in range(len(ws.locals)):
                    if _user(l2) and ws.local_ty(l2) == "std::vec::Vec<u8>" and any(d_[0] == b or (d_[1] == "assign" and d_[2].rv is not None and d_[2].rv.k == "use" and d_[2].rv.ops[0].place is not None and d_[2].rv.ops[0].place.local == t.dest.local) for d_ in prim.local_defs(ws).get(l2, [])):
                        locs["pending"] = l2
    if locs["i"] is None:
        c = C.scan_index(ws)
        if not c:
            for l in range(len(ws.locals)):
                if _user(l) and ws.local_ty(l) == "usize" and any(d_[1] == "assign" and d_[2].rv is not None and d_[2].rv.k == "use" and d_[2].rv.ops[0].const_value() == 0 for d_ in prim.local_defs(ws).get(l, [])):
                    c.append(l)
        locs["i"] = c[0] if len(c) == 1 else None
    for n, l in locs.items():
        if l is None:
            ctx.missing("R3", "local `%s` of the whitespace reader" % n)
            return
    # token-start events
    start_blocks = set()
    push_blocks = set()
    for b, t in ws.calls():
        if t.j.get("callee_name") == "push" and t.args and _refs_local(ws, t.args[0], locs["result"]):
            push_blocks.add(b)
    esc_some_blocks = set()
    for bb, kind, obj in prim.local_defs(ws).get(locs["escape"], []):
        if kind == "assign":
            o = prim._origin_of_def(ws, (bb, kind, obj), 6, set()).strip()
            if o.k == "agg" and str(o.a).endswith("Option::Some"):
                esc_some_blocks.add(bb)
    start_blocks = push_blocks | esc_some_blocks
    # flags only set (to true) at token-start events: bool locals whose every `true` write is in a block from which
    # a token-start event is unavoidable or which follows one in the same arm
    flags = {}
    for l, defs in prim.local_defs(ws).items():
        if ws.local_ty(l) != "bool" or ws.local_name(l) is None or l == locs["terminated_by_newline"]:
            continue
        trues = [bb for bb, v in prim.const_assigns_to(ws, l) if v is True]
        nonconst = [d for d in defs if d[1] != "partial" and not (d[1] == "assign" and d[2].rv.k == "use" and d[2].rv.ops[0].kind == "const")]
        if trues and not nonconst:
            ok = all(_adjacent_to_start(ws, bb, start_blocks) for bb in trues)
            flags[l] = ok
    state_locals = [locs[n] for n in state_names] + [l for l in flags]

    # ---- R3 refill region ---------------------------------------------------------------------------
    refill_guard = None
    for b in ws.reachable():
        t = ws.blocks[b].term
        if t.k == "switch":
            o = prim.switch_pred(ws, b).strip()
            if o.k == "bin" and o.a == "Eq" and any(x.k == "var" and x.a.get("local") == locs["i"] for x in o.walk()) and any(c.endswith("::len") for c in o.callees()):
                refill_guard = b
    if refill_guard is None:
        ctx.missing("R3", "refill guard `i == pending.len()`")
        return
    T = ws.blocks[refill_guard].term.j["otherwise"]
    region = {b for b in ws.reachable() if ws.dominates(T, b)}
    reads = [b for b, t in ws.calls() if t.j.get("callee_name") == "read" and b in region]
    ctx.ob("R3", "refill-region", bool(reads), "the refill region (dominated by `i == pending.len()`) must contain the read() call; region size %d blocks" % len(region), fn=ws, nontrivial=False)
    bad = []
    for b in sorted(region):
        for s in ws.blocks[b].stmts:
            if s.lhs is not None and s.lhs.local in state_locals:
                bad.append((b, s.fmt(ws), prim.site(ws, b, s)))
        t = ws.blocks[b].term
        if t.k == "call":
            for a in t.args[:1]:
                if t.j.get("callee_name") in ("push", "clear", "truncate", "pop", "take", "replace", "insert", "extend", "extend_from_slice", "drain", "remove") and any(_refs_local(ws, a, l) for l in state_locals):
                    bad.append((b, t.fmt(ws), prim.site(ws, b)))
            if t.dest is not None and t.dest.local in state_locals:
                bad.append((b, t.fmt(ws), prim.site(ws, b)))
    ctx.ob("R3", "no-state-reset-on-refill", not bad,
           "tokenizer state is modified while refilling the buffer (the token sequence would depend on where read() cuts the stream): %s" % bad, fn=ws,
           where=bad[0][2] if bad else None, how="writers within the dominance region of the refill guard (%d blocks, %d state locals)" % (len(region), len(state_locals)))
    # no byte of the fresh chunk is examined inside the refill region (skipping/peeking there would bypass the state machine)
    peeks = []
    for b in sorted(region):
        t = ws.blocks[b].term
        if t.k == "call" and t.j.get("callee_name") in ("index", "get", "first", "iter", "position", "starts_with", "is_ascii_whitespace", "take_while", "skip_while") and "RangeFull" not in (t.j.get("callee_inst") or ""):
            peeks.append((b, t.j.get("callee_name"), prim.site(ws, b)))
        for s in ws.blocks[b].stmts:
            if s.lhs is not None and s.lhs.is_local() and s.lhs.local == locs["i"]:
                v = s.rv.ops[0].const_value() if s.rv is not None and s.rv.k == "use" and s.rv.ops[0].kind == "const" else "?"
                if v != 0:
                    peeks.append((b, "i = %s" % s.rv.fmt(ws), prim.site(ws, b, s)))
    ctx.ob("R3", "refill-does-not-consume", not peeks, "the refill region inspects or skips input bytes itself (%s); every byte must go through the state machine with the carried-over state" % peeks, fn=ws, where=peeks[0][2] if peeks else None, how="calls/writers within the refill region")
    # EOF inside a quote => Err
    def brole(f, bb, o):
        o = o.strip()
        if o.k == "bin" and o.a == "Eq" and any(c.get("v") == 0 for c in o.consts()) and (any(c.endswith("Read::read") for c in o.callees()) or any(x.k == "var" and (ws.local_ty(x.a["local"]) == "usize" or ws.local_ty(x.a["local"]).startswith("std::result::Result<usize")) and any((d_[1] == "assign" and any(cc.endswith("Read::read") for cc in prim._origin_of_def(ws, d_, 8, {x.a["local"]}).callees())) or (d_[1] == "call" and (d_[2].callee or "").endswith("Read::read")) for d_ in prim.local_defs(ws).get(x.a["local"], [])) for x in o.walk())):
            return "eof"
        if o.k == "discr":
            inner = o.kids[0]
            on_escape = any(x.k == "var" and x.a.get("local") == locs["escape"] for x in inner.walk())
            if on_escape and any(x.k == "variant" and str(x.a) == "Some" for x in inner.walk()):
                return "escape_kind"
            if on_escape:
                return "escape_is_some"
        return None
    try:
        g = C.G(prim.event_graph(ws, lambda t: None, branch_role=brole))
    except RuntimeError as e:
        # too many path states (a long chain of bool temporaries): this one clause stays undecided, the others go on
        g = None
        ctx.ob("R3", "eof-in-quote=>error", False, "cannot decide: %s" % e, fn=ws, how="event graph")
    eofs = g.nodes("eof") if g is not None else []
    ok = False
    if len(eofs) >= 1:
        for e in eofs:
            tr = g.succ(e, "else")
            # Some(Quote) => Err
            r = set(tr) | g.reach(tr)
            ok = any(C.base(x) == "escape_kind" for x in r) and all("RET(agg:Result::Err)" in g.succ(k, "1") for k in r if C.base(k) == "escape_kind")
    if g is not None:
        ctx.ob("R3", "eof-in-quote=>error", ok, "at end of input an open quote must be reported as an error (Escape::Quote => Err); events: %s" % g.fmt(), fn=ws, how="event graph")
    # unconsumed bytes saved
    pw = []
    for b in ws.reachable():
        for s in ws.blocks[b].stmts:
            if s.lhs is not None and s.lhs.local == 1 and s.lhs.field_names() == ["pending"]:
                pw.append((b, s))
    ok = len(pw) == 1
    desc = ""
    if ok:
        b, s = pw[0]
        o = prim._origin_of_def(ws, (b, "assign", s), 8, set()).strip()
        desc = o.fmt()
        ok = o.k == "call" and o.a["name"] == "split_off" and any(c.get("v") == 1 for c in o.consts()) and any(x.k == "var" and x.a.get("local") == locs["i"] for x in o.walk())
        gs = prim.dominating_guards(ws, b)
        ok = ok and any(gd["pred"].strip().k == "bin" and gd["pred"].strip().a == "Lt" and gd["bool"] is True for gd in gs)
    ctx.ob("R3", "unconsumed-bytes-kept", ok, "after a token ends inside the buffer the remaining bytes must be kept for the next call: self.pending = pending.split_off(i + 1) under i < pending.len(); found %s" % desc, fn=ws, how="field writers + provenance")

    # ---- R4 emission guard -----------------------------------------------------------------------------
    emits = []
    for b in ws.reachable():
        for s in ws.blocks[b].stmts:
            if s.rv is not None and s.rv.k == "agg" and s.rv.j.get("adt") == X + "Argument":
                emits.append((b, s))
    ctx.ob("R4", "emission-site", len(emits) == 1, "Argument construction sites in the whitespace reader: %d" % len(emits), fn=ws, nontrivial=False)
    through = set(start_blocks)
    by_emptiness = set()
    for b in ws.reachable():
        t = ws.blocks[b].term
        if t.k != "switch":
            continue
        o = prim.switch_pred(ws, b).strip()
        if o.k == "var" and o.a.get("local") in flags and flags[o.a.get("local")]:
            through.add(t.j["otherwise"])               # flag == true edge
        if o.k == "un" and o.a == "Not" and o.kids[0].strip().k == "var" and o.kids[0].strip().a.get("local") in flags and flags[o.kids[0].strip().a.get("local")]:
            for lab, tg in prim.switch_edges(ws, b):
                if lab == 0:
                    through.add(tg)
        if o.k == "call" and o.a["name"] == "is_empty" and any(x.k == "var" and x.a.get("local") == locs["result"] for x in o.walk()):
            for lab, tg in prim.switch_edges(ws, b):
                if lab == 0:
                    through.add(tg)                      # !result.is_empty()
                    by_emptiness.add(tg)
    for b, s in emits:
        ok = prim.must_pass(ws, 0, [b], through)
        wit = None if ok else prim.path_avoiding(ws, 0, [b], through)
        ctx.ob("R4", "no-argument-without-start", ok,
               "a path reaches Ok(Some(Argument)) without any token-start event (push to result / opening quote / backslash) and without the true edge of a flag set only at such events: blocks %s — "
               "an argument that is not in the input (e.g. for trailing blanks before end of input)" % (wit,), fn=ws, where=prim.site(ws, b, s), how="must-pass (%d token-start blocks, %d guard edges)" % (len(start_blocks), len(through) - len(start_blocks)))
    # ... and the decision must not rest on `result` being non-empty alone: an opening quote starts an argument without
    # putting a byte into it, so `''` and `""` are arguments (empty ones) only if something other than the collected bytes
    # remembers that an argument was begun
    if by_emptiness and esc_some_blocks:
        for b, s in emits:
            ok2 = prim.must_pass(ws, 0, [b], through - by_emptiness)
            ctx.ob("R4", "quoted-empty-argument-is-an-argument", ok2,
                   "whether a separator or the end of input delivers an argument is decided (on some path) only by `!result.is_empty()`; an opening quote begins an argument without adding a byte, so `''` / `\"\"` would be dropped "
                   "(xargs passes them on as empty arguments)", fn=ws, where=prim.site(ws, b, s), how="must-pass without the emptiness test")
    ctx.floor("R4", "token-start event blocks", len(start_blocks), 5)
    # the converse: whatever puts a byte into the argument (or opens a quote) raises every flag the emission relies on
    # before the next byte is looked at — otherwise the separator test, or the end of input, sees "no argument yet"
    # although `result` already holds one, and the outcome depends on where a read() happened to end
    # (the state enum is local to the function: its variant numbers are read off the places that build it)
    esc_idx = {}
    for b_ in ws.reachable():
        for s_ in ws.blocks[b_].stmts:
            if s_.rv is not None and s_.rv.k == "agg" and str(s_.rv.j.get("adt", "")).endswith("Escape") and s_.rv.j.get("variant") is not None:
                esc_idx[s_.rv.j["variant"]] = s_.rv.j.get("vidx")
    for l_, fl_ok in flags.items():
        if not fl_ok:
            continue
        trues = {bb for bb, v in prim.const_assigns_to(ws, l_) if v is True}
        unflagged = []
        for pb in sorted(push_blocks | {bb for bb in esc_some_blocks}):
            vf = prim.variant_facts(ws, pb, prog)
            in_quote = any(adt_.endswith("Escape") and var in ("Quote", esc_idx.get("Quote")) and holds for adt_, var, holds, subj, gd in vf)
            opens_slash = pb in esc_some_blocks and pb not in push_blocks and any(
                str(x.a).endswith("Escape::Slash") for bb, kind, obj in prim.local_defs(ws).get(locs["escape"], []) if bb == pb and kind == "assign" for x in prim._origin_of_def(ws, (bb, kind, obj), 6, set()).walk() if x.k == "agg")
            if in_quote or opens_slash:
                continue          # inside a quote the flag was raised when it opened; a backslash alone is not yet an argument
            if pb in trues:
                continue
            tgt = ws.blocks[pb].term.target if ws.blocks[pb].term.k == "call" else None
            starts = [tgt] if tgt is not None else ws.succs(pb)
            if not all(prim.must_pass(ws, s_, [refill_guard], trues) for s_ in starts):
                unflagged.append(pb)
        ctx.ob("R4", "every-token-start-is-flagged:%s" % (ws.local_name(l_) or l_), not unflagged,
               "blocks %s put a byte into the argument (or open a quote) and can return to the top of the loop without setting `%s`, the flag that decides whether a separator or the end of input delivers an argument: "
               "the argument is then glued to the next one or lost, depending on where a read() ended" % ([prim.site(ws, b_) for b_ in unflagged], ws.local_name(l_)),
               fn=ws, where=prim.site(ws, unflagged[0]) if unflagged else None, how="must-pass from each token-start block to the loop head")

    # ---- R5 terminator kind -------------------------------------------------------------------------------
    tl = locs["terminated_by_newline"]
    if direct_kind:
        _r5_direct(ctx, ws, tl, emits, locs, refill_guard)
        tl = None
    defs = [d for d in prim.local_defs(ws).get(tl, []) if d[0] in ws.reachable() and d[1] != "partial"] if tl is not None else []
    kinds = []
    for d in defs:
        o = prim._origin_of_def(ws, d, 6, set()).strip()
        if o.k == "const" and o.a.get("v") is False:
            kinds.append("init-false")
        elif o.k == "bin" and o.a == "Eq" and any(c.get("v") == 10 for c in o.consts()):
            # the compared byte is the current input byte and we are in the separator arm
            gs = prim.dominating_guards(ws, d[0])
            sep = any(ws.blocks[gd["bb"]].term.j.get("discr_ty") == "u8" and sorted(l for l in gd["labels"] if isinstance(l, int)) == SEPARATORS and len(gd["labels"]) == len(SEPARATORS) for gd in gs)
            kinds.append("newline-test" if sep else "newline-test-outside-separator-arm")
        else:
            kinds.append("other:" + o.fmt())
    if tl is not None:
      ctx.ob("R5", "terminator-flag-writers", sorted(kinds) == ["init-false", "newline-test"],
           "terminated_by_newline writers: %s; oracle: initial false, and `c == b'\\n'` for the blank that ends the argument — nothing else (a line ending in a blank continues on the next line)" % kinds, fn=ws, how="local writers + dominating guard")
    for b, s in emits:
        names = s.rv.j["fields"]
        ko = prim.origin_of_operand(ws, s.rv.ops[names.index("kind")])
        # kind local is a phi of Hard/Soft assigned under the flag
        kl = s.rv.ops[names.index("kind")].place.local if s.rv.ops[names.index("kind")].place is not None else None
        table = {}
        if kl is not None:
            for bb, kind, obj in prim.local_defs(ws).get(kl, []):
                o = prim._origin_of_def(ws, (bb, kind, obj), 4, set()).strip()
                gs = prim.dominating_guards(ws, bb)
                for gd in gs:
                    pr = gd["pred"].strip()
                    if pr.k == "var" and pr.a.get("local") == tl and gd["bool"] is not None and o.k == "agg":
                        table[gd["bool"]] = str(o.a).split("::")[-1]
        if tl is None:
            # direct form: the kind field is the state local itself (decided by _r5_direct)
            ctx.ob("R5", "kind-from-flag", kl == locs["terminated_by_newline"] or any(x.k == "var" and x.a.get("local") == locs["terminated_by_newline"] for x in ko.walk()), "argument kind is %s; oracle: the terminator state local, unchanged" % ko.fmt(), fn=ws, where=prim.site(ws, b, s), how="provenance slice")
        else:
          ctx.ob("R5", "kind-from-flag", table == {True: "HardTerminated", False: "SoftTerminated"}, "argument kind selected as %s; oracle {newline: HardTerminated, other blank: SoftTerminated}" % table, fn=ws, where=prim.site(ws, b, s), how="dominating guard table")
        ao = prim.origin_of_operand(ws, s.rv.ops[names.index("arg")])
        bad = [c for c in ao.callees() if c.split("::")[-1].split("<")[0] not in VERBATIM_OK]
        ctx.ob("R5", "argument-bytes-from-result", not bad and any(x.k == "var" and x.a.get("local") == locs["result"] for x in ao.walk()), "argument bytes come from %s (offending calls %s)" % (ao.fmt()[:160], bad), fn=ws, where=prim.site(ws, b, s), how="provenance slice")

    # ---- R6 special bytes of the default mode --------------------------------------------------------------
    consts = set()
    for b in ws.reachable():
        t = ws.blocks[b].term
        if t.k == "switch" and t.j.get("discr_ty") == "u8":
            consts |= {v for v, _ in t.j["arms"]}
    sep = [(b, t) for b, t in ws.calls() if t.j.get("callee_name") in ("is_ascii_whitespace", "is_whitespace", "is_ascii_control", "is_ascii_punctuation", "is_ascii_graphic")]
    ctx.ob("R6", "special-bytes", consts == {34, 39, 92} | set(SEPARATORS), "bytes dispatched on in default mode: %s; oracle: the quoting bytes 34 '\"', 39 \"'\", 92 backslash and the separators 32 blank, 9 tab, 10 newline — carriage return, form feed and vertical tab are ordinary characters" % sorted(consts), fn=ws, how="switch table")
    ctx.ob("R6", "separator-predicate", not sep, "the unquoted separator test is a comparison of the raw byte with blank, tab and newline (a multi-byte character is never cut, no character class wider than that applies); character-class predicates called: %s" % [t.j.get("callee_inst") for _, t in sep], fn=ws, how="call sites")
    # a quote cannot span lines: inside a quote a newline is the unterminated-quote error, at end of input as well
    qerr = 0
    for b in ws.reachable():
        for st in ws.blocks[b].stmts:
            if st.rv is not None and st.rv.k == "agg" and st.rv.j.get("adt") == "std::result::Result" and st.rv.j.get("variant") == "Err" and st.lhs.is_local() and st.lhs.local == 0:
                gs = prim.dominating_guards(ws, b)
                in_quote = any(any(y.k == "variant" and str(y.a) == "Quote" for y in gd["pred"].walk()) or (prim.discr_type_of_switch(ws, gd["bb"]) or "").endswith("Escape") for gd in gs)
                nl = any(ws.blocks[gd["bb"]].term.j.get("discr_ty") == "u8" and gd["labels"] == [10] for gd in gs) or \
                    prim.atom_holds(prim.norm_guards(gs), "eq", lambda x: x.strip().k != "const", lambda x: x.strip().k == "const" and x.strip().a.get("v") == 10) is not None
                if in_quote and nl:
                    qerr += 1
    ctx.ob("R6", "quote-ends-at-newline", qerr >= 1, "an Err return under (inside a quote, byte == newline): %d site(s); oracle: a quote left open at the end of a line is reported, it does not swallow the newline" % qerr, fn=ws, how="dominating guards")
    # the separator test applies only outside quotes/escapes: dominated by escape == None
    for b, t in sep:
        gs = prim.dominating_guards(ws, b)
        ok = any(gd["pred"].strip().k == "discr" and any(x.k == "var" and x.a.get("local") == locs["escape"] for x in gd["pred"].walk()) and gd["labels"] == [0] for gd in gs)
        ctx.ob("R6", "separator-only-unquoted", ok, "blanks separate arguments only outside quotes and escapes; guards: %s" % prim.guards_fmt(gs), fn=ws, where=prim.site(ws, b), how="dominating guard")

    # ---- R2 reader selection -----------------------------------------------------------------------------------
    dx = ctx.fn("R2", X + "do_xargs")
    if dx is not None:
        for b, t in dx.calls():
            c = t.callee or ""
            if "ArgumentReader" in c and c.endswith("::new"):
                gs = prim.dominating_guards(dx, b)
                lab = None
                for gd in gs:
                    pr = gd["pred"].strip()
                    if pr.k == "discr" and "delimiter" in pr.fmt():
                        lab = gd["labels"]
                want = [1] if "ByteDelimited" in c else [0]
                alt = ["else"] if "ByteDelimited" not in c else None
                ctx.ob("R2", "reader:%s" % ("byte" if "ByteDelimited" in c else "whitespace"), lab == want or (alt is not None and lab == alt),
                       "%s is selected under delimiter-discriminant %s; oracle: byte reader iff a delimiter was chosen" % (prim.short(c), lab), fn=dx, where=prim.site(dx, b), how="dominating guard")
                if "ByteDelimited" in c:
                    o = prim.origin_of_operand(dx, t.args[1])
                    # the fourth component of normalize_options' result (by position), its Some payload
                    from_no = any(cc.endswith("normalize_options") for cc in o.callees()) and any(x.k == "field" and str(x.a) == "3" and any(cn.a["name"] == "normalize_options" for cn in x.call_nodes()) for x in o.walk())
                    ctx.ob("R2", "byte-reader-delimiter", ("delimiter" in o.fmt() or from_no) and any(cc.endswith("normalize_options") for cc in o.callees()), "the byte reader is given %s" % o.fmt()[:160], fn=dx, where=prim.site(dx, b), how="provenance slice")
    no = ctx.fn("R2", X + "normalize_options")
    if no is not None:
        _delimiter_table(ctx, no)


def _refs_local(f, op, l):
    o = prim.origin_of_operand(f, op)
    if op.place is not None and op.place.local == l:
        return True
    return any(x.k == "var" and x.a.get("local") == l for x in o.walk())


def _adjacent_to_start(ws, bb, start_blocks):
    """a `flag = true` write belongs to a token-start arm: the block itself is a start block, or it is reached only
    from one / leads only into one before the loop continues"""
    if bb in start_blocks:
        return True
    # every path from bb onward hits a start block before any switch, or some start block dominates bb
    if any(ws.dominates(s, bb) and _straight(ws, s, bb) for s in start_blocks):
        return True
    cur = bb
    for _ in range(6):
        t = ws.blocks[cur].term
        if cur in start_blocks:
            return True
        if t.k in ("goto", "call", "drop", "assert") and t.target is not None:
            cur = t.target
        else:
            break
    return cur in start_blocks


def _straight(f, a, b):
    """b reachable from a through single-successor blocks only"""
    cur = a
    for _ in range(8):
        if cur == b:
            return True
        su = f.succs(cur)
        if len(su) != 1:
            return False
        cur = su[0]
    return cur == b


def _delimiter_table(ctx, no):
    """normalize_options: (Some d, null) -> later of the two; (Some d, !null) -> d; (None, null) -> 0; (None, !null) -> '\\n' iff replace"""
    def role(t):
        n = t.j.get("callee_name")
        if n in ("gt", "lt", "ge", "le") and "Option<usize>" in (t.j.get("callee_inst") or ""):
            return "idx_" + n
        return None
    def brole(f, bb, o):
        o = o.strip()
        txt = o.fmt()
        if o.k == "discr" and "delimiter" in txt and "options" in txt:
            return "has_delim"
        if o.k == "field" and o.a == "null":
            return "null"
        if o.k == "field" and o.a == "1" and "null" in txt:
            return "null"
        if o.k == "discr" and ("replace" in txt) and "delimiter" not in txt and "max_" not in txt:
            return "has_replace"
        return None
    dl = [l for l in no.locals_named("delimiter") if no.local_ty(l).startswith("std::option::Option<u8>")]
    if len(dl) != 1:
        ctx.missing("R2", "local `delimiter: Option<u8>` of normalize_options")
        return
    def role2(t):
        r = role(t)
        if r:
            return r
        if t.dest is not None and t.dest.is_local() and t.dest.local in dl:
            o = prim._origin_of_def(no, (0, "call", t), 8, set()).strip()
            if o.k == "call" and o.a["name"] == "map" and "replace" in o.fmt():
                clo = [x for x in o.walk() if x.k == "agg" and str(x.a).startswith("closure:")]
                cf = ctx.prog.fns.get(clo[0].a.split(":", 1)[1]) if clo else None
                if cf is not None:
                    vals, nonconst = C.const_return(cf)
                    if vals == {10} and not nonconst:
                        return "set:newline-iff-replace"
            # `replace.is_some().then_some(b'\n')`: the same value
            if o.k == "call" and o.a["name"] == "then_some" and len(o.kids) == 2:
                c0 = prim.expand_single_def_vars(no, o.kids[0]).strip()
                v1 = o.kids[1].strip()
                if c0.k == "call" and c0.a["name"] == "is_some" and "replace" in c0.fmt() and not [c for c in c0.call_nodes() if c.a["name"] not in ("is_some", "as_ref", "as_deref")] and v1.k == "const" and v1.a.get("v") == 10:
                    return "set:newline-iff-replace"
            return "set:other"
        return None
    g = prim.event_graph(no, role2, branch_role=_delim_brole(no), stmt_role=_delim_srole(no, dl))
    gg = C.G(g)
    have = {C.base(n) for n in gg.out}
    need = {"has_delim", "null"}
    if not need <= have or len(gg.nodes("has_delim")) != 1:
        ctx.ob("R2", "delimiter-table-atoms", False, "cannot recover the delimiter decision atoms from normalize_options (found %s); fail closed" % sorted(have), fn=no)
        return
    start = gg.nodes("has_delim")[0]
    sub_edges = [("ENTRY", "", start)] + [e for e in gg.edges if e[0] != "ENTRY"]
    rows = 0
    bad = []
    for hd in (False, True):
        for nul in (False, True):
            for null_last in (False, True):
                asg = {"has_delim": (lambda l, v=hd: l == ("1" if v else "0")),
                       "null": nul, "idx_gt": null_last, "idx_lt": not null_last}
                tr = C.simulate(g, asg, edges=sub_edges)
                got = None
                if tr:
                    sets = [n for n in tr if C.base(n).startswith("set:")]
                    got = C.base(sets[-1])[4:] if sets else None
                if hd and nul:
                    want = "nul" if null_last else "given"
                elif hd:
                    want = "given"
                elif nul:
                    want = "nul"
                else:
                    want = "newline-iff-replace"
                rows += 1
                if got != want:
                    bad.append(((hd, nul, null_last), got, want))
    for k, got, want in bad[:4]:
        ctx.ob("R2", "delimiter-row:%s" % (k,), False, "normalize_options with (-d given, -0 given, -0 after -d) = %s chooses `%s`; oracle `%s` (the later of -0/-d wins; -I alone means newline; otherwise the whitespace reader)" % (k, got, want), fn=no, how="event-graph simulation")
    ctx.ob("R2", "delimiter-table", not bad, "%d of %d rows of the delimiter decision table deviate" % (len(bad), rows), fn=no, how="event-graph simulation")


def _delim_brole(no):
    def brole(f, bb, o):
        o = o.strip()
        txt = o.fmt()
        if o.k == "discr" and "delimiter" in txt:
            return "has_delim"
        if o.k in ("field",) and (o.a == "null" or (o.a == "1" and "null" in txt)):
            return "null"
        return None
    return brole


def _delim_srole(no, dl):
    # locals the chosen delimiter flows through on its way into `delimiter` (`Some(if c {0} else {d})` goes through a
    # temporary): an assignment of a constant or of the given delimiter to any of them is the choice being made
    feed = set(dl)
    changed = True
    while changed:
        changed = False
        for l in list(feed):
            for bb, kind, obj in prim.local_defs(no).get(l, []):
                if kind != "assign" or obj.rv is None:
                    continue
                rv = obj.rv
                ops = rv.ops if rv.k in ("use", "agg") else []
                if rv.k == "agg" and not str(rv.j.get("adt", "")).endswith("Option"):
                    ops = []
                for o_ in ops:
                    if o_.place is not None and o_.place.is_local() and no.local_name(o_.place.local) is None and o_.place.local not in feed and no.local_ty(o_.place.local) in ("u8", "std::option::Option<u8>"):
                        feed.add(o_.place.local)
                        changed = True

    def srole(f, bb, s):
        if s.lhs is not None and s.lhs.is_local() and s.lhs.local in feed and s.rv is not None:
            rv = s.rv
            if rv.k in ("use", "agg") and rv.ops and not (rv.k == "agg" and not str(rv.j.get("adt", "")).endswith("Option")):
                if rv.k == "agg" and rv.j.get("variant") == "None":
                    return "set:other"
                op = rv.ops[0] if rv.ops else None
                if op is not None and op.place is not None and op.place.is_local() and op.place.local in feed:
                    return None                     # the value moves on towards `delimiter`
                if op is not None and op.kind == "const":
                    v = op.const_value()
                    return "set:nul" if v == 0 else "set:const%s" % v
            o = prim._origin_of_def(f, (bb, "assign", s), 8, set()).strip()
            txt = o.fmt()
            if o.k == "agg" and str(o.a).endswith("Option::Some"):
                inner = o.kids[0].strip()
                if inner.k == "const" and inner.a.get("v") == 0:
                    return "set:nul"
                if inner.k == "const":
                    return "set:const%s" % inner.a.get("v")
                return "set:given"
            if o.k == "call" and o.a["name"] == "map" and "replace" in txt:
                clo = [x for x in o.walk() if x.k == "agg" and str(x.a).startswith("closure:")]
                cf = ctx_prog_fn(f, clo[0].a.split(":", 1)[1]) if clo else None
                if cf is not None:
                    vals, nonconst = C.const_return(cf)
                    if vals == {10} and not nonconst:
                        return "set:newline-iff-replace"
            if s.lhs.local not in dl and o.k != "const":
                return "set:given"
            return "set:other"
        return None
    return srole


_PROG = {}


def ctx_prog_fn(f, path):
    p = _PROG.get("prog")
    return p.fns.get(path) if p is not None else None


def _only_delim_edges(gg):
    return gg.edges


def _root_user_local(f, op, hops=8):
    """user local behind an operand through refs, derefs, index/slice calls and Deref::deref"""
    l = prim.user_local_behind(f, op)
    if l is not None:
        return l
    o = prim.origin_of_operand(f, op)
    for x in o.walk():
        if x.k == "var" and x.a.get("name") is not None:
            return x.a["local"]
    return None


def _r5_direct(ctx, ws, kl, emits, locs, refill_guard):
    """the terminator kind kept directly in a local: Soft initially, Hard exactly when the separator that ends the argument
    is a newline, and nothing else writes it"""
    defs = [d for d in prim.local_defs(ws).get(kl, []) if d[0] in ws.reachable() and d[1] != "partial"]
    kinds = []
    hard_blocks = []
    for d in defs:
        o = prim._origin_of_def(ws, d, 6, set()).strip()
        name = str(o.a).split("::")[-1] if o.k == "agg" else None
        if name == "SoftTerminated":
            # the initial value: before the scanning loop (dominates the loop head), never inside it
            kinds.append("init-soft" if refill_guard is not None and ws.dominates(d[0], refill_guard) and refill_guard not in ws.reach_from([d[0]]) - {refill_guard} or (refill_guard is not None and ws.dominates(d[0], refill_guard) and d[0] != refill_guard and not ws.dominates(refill_guard, d[0])) else "soft-inside-loop")
        elif name == "HardTerminated":
            atoms = prim.norm_guards(prim.dominating_guards(ws, d[0]))
            nl = prim.atom_holds(atoms, "eq", lambda x: x.strip().k != "const", lambda x: x.strip().k == "const" and x.strip().a.get("v") == 10)
            gs = prim.dominating_guards(ws, d[0])
            sep = any(ws.blocks[gd["bb"]].term.j.get("discr_ty") == "u8" and set(l for l in gd["labels"] if isinstance(l, int)) >= {10} and set(l for l in gd["labels"] if isinstance(l, int)) <= set(SEPARATORS) for gd in gs)
            leaves_loop = refill_guard is None or refill_guard not in ws.reach_from([d[0]])
            kinds.append("newline=>hard" if nl is not None and sep and leaves_loop else "hard:%s%s%s" % ("" if nl is not None else " not under byte==newline", "" if sep else " outside the separator arm", "" if leaves_loop else " and the scan goes on"))
            hard_blocks.append((d[0], nl))
        else:
            kinds.append("other:" + o.fmt()[:60])
    ctx.ob("R5", "terminator-flag-writers", sorted(kinds) == ["init-soft", "newline=>hard"],
           "terminator kind writers: %s; oracle: SoftTerminated before the loop, HardTerminated under `byte == newline` in the separator arm on the way out of the loop — nothing else" % kinds, fn=ws, how="local writers + dominating guards (normal form)")
    # a newline that ends the argument cannot leave the loop without the Hard write
    for hb, nl in hard_blocks:
        if nl is None:
            continue
        gb = nl["gd"]["bb"]
        ok = True
        for tgt, ats in prim.edge_atoms(ws, gb):
            is_nl = prim.atom_holds(ats, "eq", lambda x: x.strip().k != "const", lambda x: x.strip().k == "const" and x.strip().a.get("v") == 10) is not None
            if is_nl:
                for eb, es in emits:
                    if not prim.must_pass(ws, tgt, [eb], [hb]):
                        ok = False
        ctx.ob("R5", "newline-always-hard", ok, "from `byte == newline` (block %d) the argument is delivered only after the HardTerminated write" % gb, fn=ws, where=prim.site(ws, hb), how="must-pass")
