"""C13 — type/perm/owner/link tests are functions of the right stat record."""
import itertools

from .. import prim
from . import common as C

M = C.M
E = M + "entry::"
META = {
    "explanation": "R1 stat-source discipline: every raw status/link/directory API (fs::metadata, symlink_metadata, Path::{metadata,symlink_metadata,is_symlink,is_dir,is_file,exists,read_link,read_dir,canonicalize}, FileInformation::from_path, walkdir::DirEntry::{metadata,file_type,path_is_symlink}) is called only at the reviewed sites (entry.rs, Follow, and listed exceptions each with a checked side condition); every listed test reads its record through WalkEntry::{metadata,file_type} of the entry being evaluated; "
                   "R2 follow decision tables: follow_at_depth (Never->false, Roots->depth==0, Always->true), metadata_at_depth (follow => stat, fall back to lstat only when not found; else lstat), Follow::metadata cache-reuse table simulated on all assignments, -xtype inverts the entry's decision, depth-0 entries under -H/-L are not backed by walkdir's DirEntry (contract W3), walkdir's follow switches come from the same Follow value (shared with C02); -samefile stats with the entry's own decision; "
                   "R3 -lname guard: read_link is control-dependent on the entry itself being a link under its follow decision; "
                   "R4 field and prefix tables: -inum->ino, -links->nlink, -uid/-user->uid, -gid/-group->gid, -perm prefix '-'->all-of, '/'->any-of, none->exact with the remaining text as MODE, exact test masks the twelve permission bits (0o7777), symbolic modes are parsed from 0 with umask 0, the tested mode is the record's st_mode",
    "decides": "which status record each listed test can see, how the follow mode and depth select it, that -lname cannot see a resolved link, and the token/prefix/field wiring of the numeric and mode tests",
    "does_not_decide": "uucore's symbolic-mode parser; the three bit formulas of -perm as formulas (pinned by unit tests; a shape rule would reject equivalent rewrites); the kernel's stat results",
}

RAW = {
    "std::fs::metadata": "stat", "std::fs::symlink_metadata": "lstat", "std::path::Path::metadata": "stat", "std::path::Path::symlink_metadata": "lstat",
    "std::path::Path::is_symlink": "lstat", "std::path::Path::is_dir": "stat", "std::path::Path::is_file": "stat", "std::path::Path::exists": "stat",
    "std::path::Path::try_exists": "stat", "std::path::Path::read_link": "readlink", "std::fs::read_link": "readlink", "std::fs::read_dir": "readdir",
    "std::path::Path::read_dir": "readdir", "std::fs::canonicalize": "stat", "std::path::Path::canonicalize": "stat",
    "uucore::fs::FileInformation::from_path": "stat/lstat", "uucore::fs::FileInformation::from_file": "fstat",
    "walkdir::DirEntry::metadata": "walkdir", "walkdir::DirEntry::file_type": "walkdir", "walkdir::DirEntry::path_is_symlink": "walkdir",
    "walkdir::DirEntryExt::ino": "readdir d_ino (the covered directory's inode at a mount point)", "<walkdir::DirEntry as walkdir::DirEntryExt>::ino": "readdir d_ino",
    "std::fs::DirEntry::metadata": "lstat", "std::fs::DirEntry::file_type": "lstat", "nix::sys::stat::stat": "stat", "nix::sys::stat::lstat": "lstat",
}
# function (prefix) -> (allowed raw callees, reason, side condition id)
ALLOWED = [
    (E + "WalkEntry::from_walkdir", {"std::path::Path::symlink_metadata"}, "dangling link detection: lstat of the path walkdir failed to stat", None),
    (E + "WalkEntry::metadata", {"walkdir::DirEntry::metadata"}, "record of a walkdir-backed entry (walkdir applies the same follow switches, R2)", None),
    (E + "WalkEntry::file_type", {"walkdir::DirEntry::file_type"}, "type of a walkdir-backed entry", None),
    (E + "WalkEntry::path_is_symlink", {"walkdir::DirEntry::path_is_symlink", "std::path::Path::symlink_metadata"}, "is the path itself a link, regardless of following", None),
    (M + "Follow::metadata_at_depth", {"std::path::Path::metadata", "std::path::Path::symlink_metadata"}, "the one place that chooses stat vs lstat (R2)", None),
    (M + "samefile::get_file_info", {"uucore::fs::FileInformation::from_path"}, "-samefile identity; follow argument checked below", "samefile"),
    (M + "lname::read_link_target", {"std::path::Path::read_link"}, "-lname target text; guarded by R3", None),
    (C.matcher_impl(M + "empty::EmptyMatcher", "matches"), {"std::fs::read_dir"}, "-empty lists a directory only after the follow-aware type said directory", "empty"),
    (M + "printf::format_directive", {"std::fs::read_link", "std::path::Path::metadata"}, "%l and %Y: link target / followed type, only for entries that are links themselves (C16)", "printf"),
    (M + "fs::get_file_system_type", {"std::path::Path::symlink_metadata"}, "-fstype / %F device lookup (not one of the listed tests)", None),
    ("findutils::find::device_of", {"std::path::Path::metadata"}, "-xdev: the device walkdir itself compares (stat of the path), used only to decide whether skip_current_dir has something to pop (C03)", None),
    (M + "parse_files0_args", set(), "", None),
]
LISTED = {
    "type_matcher::TypeMatcher": ("file_type",), "perm::PermMatcher": ("metadata",), "stat::InodeMatcher": ("metadata",), "stat::LinksMatcher": ("metadata",),
    "user::UserMatcher": ("metadata",), "group::GroupMatcher": ("metadata",), "empty::EmptyMatcher": ("file_type", "metadata"),
}
FIELDS = {"stat::InodeMatcher": "ino", "stat::LinksMatcher": "nlink", "user::UserMatcher": "uid", "group::GroupMatcher": "gid"}
TOKENS = {"-inum": ("stat::InodeMatcher", "new"), "-links": ("stat::LinksMatcher", "new"), "-uid": ("user::UserMatcher", "from_comparable"), "-gid": ("group::GroupMatcher", "from_comparable"),
          "-user": ("user::UserMatcher", None), "-group": ("group::GroupMatcher", None), "-perm": ("perm::PermMatcher", "new"), "-type": ("type_matcher::TypeMatcher", "new"),
          "-xtype": ("type_matcher::XtypeMatcher", "new"), "-empty": ("empty::EmptyMatcher", "new"), "-samefile": ("samefile::SameFileMatcher", "new")}


def raw_name(t):
    c = (t.callee or "").split("::<")[0]
    if c in RAW:
        return c
    r = (t.resolved or "").split("::<")[0]
    if r in RAW:
        return r
    return None


def entry_is_arg(o):
    """receiver is the function's entry parameter (through refs)"""
    o = o.strip()
    return o.k == "arg"


def run(ctx):
    prog = ctx.prog
    # ---- R1 stat-source discipline -----------------------------------------------------------------------
    n_raw = 0
    for f, b, t in prog.all_calls():
        if f.crate != "findutils" or f.path.startswith(C.X):
            continue
        rn = raw_name(t)
        if rn is None:
            continue
        n_raw += 1
        owner = f.closure_of or f.path
        while owner in prog.fns and prog.fns[owner].closure_of:
            owner = prog.fns[owner].closure_of
        row = next((r for r in ALLOWED if owner == r[0] or owner.startswith(r[0] + "::")), None)
        if row is None or rn not in row[1]:
            # a private helper that only the reviewed function calls (the body of its cache-miss arm moved there) is part of
            # that function for this purpose
            callers = set()
            for f3, b3, t3 in prog.all_calls():
                if (t3.callee or "").split("::<")[0] == owner.split("::<")[0] or t3.callee == owner:
                    o3 = f3.closure_of or f3.path
                    while o3 in prog.fns and prog.fns[o3].closure_of:
                        o3 = prog.fns[o3].closure_of
                    callers.add(o3)
            if callers:
                rows_ = [r for r in ALLOWED if rn in r[1] and all(cl == r[0] or cl.startswith(r[0] + "::") for cl in callers) and owner.rsplit("::", 1)[0] == r[0].rsplit("::", 1)[0]]
                if len(rows_) == 1:
                    row = rows_[0]
        ok = row is not None and rn in row[1]
        ctx.ob("R1", "raw-stat:%s@%s" % (prim.short(rn), prim.short(owner)), ok,
               "%s (%s) is called in %s: status records must come from WalkEntry::metadata()/file_type(), which apply the follow mode and depth; a raw call sees a different record for links (reviewed sites: entry.rs, Follow::metadata_at_depth and the listed exceptions)%s" % (
                   rn, RAW[rn], f.path, "" if row is None else "; this site is reviewed only for %s" % sorted(row[1])),
               fn=f, where=prim.site(f, b), how="who-may-call (%s)" % (row[2] if ok else "not a reviewed site"))
    ctx.floor("R1", "raw status API call sites in find", n_raw, 12)
    # side conditions of the exceptions
    gfi = ctx.fn("R1", M + "samefile::get_file_info")
    if gfi is not None:
        for b, t in gfi.calls():
            if raw_name(t) == "uucore::fs::FileInformation::from_path":
                fo = prim.origin_of_operand(gfi, t.args[1]).strip()
                po = prim.origin_of_operand(gfi, t.args[0]).strip()
                gs = prim.dominating_guards(gfi, b)
                v = fo.a.get("v") if fo.k == "const" else None
                under_follow = any(gd["pred"].strip().k == "arg" and gd["pred"].strip().a["name"] == "follow" and gd["bool"] is True for gd in gs)
                ok = po.k == "arg" and ((v is True and under_follow) or (v is False))
                ctx.ob("R1", "samefile-deref=%s" % v, ok, "FileInformation::from_path(%s, dereference=%s) guards: %s; dereferencing is allowed only under the follow flag, the fallback must not dereference" % (po.fmt(), v, prim.guards_fmt(gs)), fn=gfi, where=prim.site(gfi, b), how="constant argument + dominating guard")
    sm = ctx.fn("R1", C.matcher_impl(M + "samefile::SameFileMatcher", "matches"))
    if sm is not None:
        for b, t in sm.calls():
            if t.callee == M + "samefile::get_file_info":
                po = prim.origin_of_operand(sm, t.args[0])
                fo = prim.origin_of_operand(sm, t.args[1]).strip()
                ok = [c.a["callee"] for c in po.call_nodes()] == [E + "WalkEntry::path"] and fo.k == "call" and fo.a["callee"] == E + "WalkEntry::follow" and entry_is_arg(fo.kids[0])
                ctx.ob("R1", "samefile-uses-entry-decision", ok, "-samefile examines (%s, follow=%s); must be the entry's path with the entry's own follow decision" % (po.fmt(), fo.fmt()), fn=sm, where=prim.site(sm, b), how="provenance slice")
    sn = ctx.fn("R1", M + "samefile::SameFileMatcher::new")
    if sn is not None:
        for b, t in sn.calls():
            if t.callee == M + "samefile::get_file_info":
                fo = prim.origin_of_operand(sn, t.args[1]).strip()
                ok = fo.k == "call" and fo.a["name"] in ("ne", "eq") and any(str(x.a).endswith("Follow::Never") for x in fo.walk() if x.k == "agg")
                ctx.ob("R1", "samefile-reference-follow", ok and fo.a["name"] == "ne", "the reference file is examined with follow=%s; a command-line file is followed under -H and -L (follow != Never)" % fo.fmt(), fn=sn, where=prim.site(sn, b), how="provenance slice")
    em = ctx.fn("R1", C.matcher_impl(M + "empty::EmptyMatcher", "matches"))
    if em is not None:
        for b, t in em.calls():
            if raw_name(t) == "std::fs::read_dir":
                gs = prim.dominating_guards(em, b)
                ok = False
                for gd in gs:
                    pr = gd["pred"].strip()
                    if pr.k == "call" and pr.a["callee"] == E + "FileType::is_dir" and gd["bool"] is True:
                        src = pr.kids[0].strip()
                        if src.k == "call" and src.a["callee"] == E + "WalkEntry::file_type" and entry_is_arg(src.kids[0]):
                            ok = True
                    # `match file_info.file_type() { FileType::Directory => .. }`: the same question as a pattern
                    if pr.k == "discr" and pr.kids:
                        src = pr.kids[0].strip()
                        adt = prog.adts.get(E + "FileType")
                        labs = [l for l in gd.get("labels", []) if isinstance(l, int)]
                        if adt is not None and src.k == "call" and src.a["callee"] == E + "WalkEntry::file_type" and entry_is_arg(src.kids[0]) and labs and len(labs) == len(gd.get("labels", [])):
                            names = [adt["variants"][l]["name"] for l in labs if l < len(adt["variants"])]
                            if names == ["Directory"]:
                                ok = True
                po = prim.origin_of_operand(em, t.args[0])
                ctx.ob("R1", "empty-lists-after-type-test", ok and [c.a["callee"] for c in po.call_nodes()] == [E + "WalkEntry::path"], "read_dir(%s) must be reached only when the entry's follow-aware file_type() is a directory; guards %s" % (po.fmt(), prim.guards_fmt(gs)), fn=em, where=prim.site(em, b), how="dominating guard")
    pfd = prog.fns.get(M + "printf::format_directive")
    if pfd is not None:
        ctx.analysed_fns.add(pfd.path)
        for f in [pfd] + prog.closures_of(pfd):
            for b, t in f.calls():
                if raw_name(t) in ("std::fs::read_link", "std::path::Path::metadata"):
                    gs = prim.dominating_guards(f, b)
                    if raw_name(t) == "std::fs::read_link":
                        # %l: like -lname, a target only where the entry is itself a link under the follow mode
                        def is_entry_link(pr):
                            pr = pr.strip()
                            return pr.k == "call" and pr.a["callee"] == E + "FileType::is_symlink" and pr.kids and pr.kids[0].strip().k == "call" and pr.kids[0].strip().a["callee"] == E + "WalkEntry::file_type"
                        ok = any(is_entry_link(gd["pred"]) and gd["bool"] is True for gd in gs)
                        why = "the entry's follow-aware file_type() is a link (what -lname tests; a link the follow mode resolves has no %l)"
                    else:
                        ok = any(gd["pred"].strip().k == "call" and gd["pred"].strip().a["callee"] == E + "WalkEntry::path_is_symlink" and gd["bool"] is True for gd in gs)
                        why = "the path is itself a link (path_is_symlink)"
                    ctx.ob("R1", "printf-link-only:%s" % prim.short(raw_name(t)), ok, "%s in -printf must be reached only where %s; guards %s" % (raw_name(t), why, prim.guards_fmt(gs)), fn=f, where=prim.site(f, b), how="dominating guard")
    # listed tests read through the entry
    for ty, accs in LISTED.items():
        f = ctx.fn("R1", C.matcher_impl(M + ty, "matches"))
        if f is None:
            continue
        got = []
        for b, t in f.calls():
            c = t.callee or ""
            if c in (E + "WalkEntry::metadata", E + "WalkEntry::file_type"):
                o = prim.origin_of_operand(f, t.args[0])
                got.append((c.split("::")[-1], entry_is_arg(o)))
        names = sorted({g[0] for g in got})
        ctx.ob("R1", "record-source:%s" % ty.split("::")[-1], bool(got) and all(g[1] for g in got) and set(names) <= set(accs) and bool(names),
               "%s reads %s; oracle: the evaluated entry's %s" % (ty, got, "/".join(accs)), fn=f, how="call sites + provenance")

    # ---- R2 decision tables ---------------------------------------------------------------------------------
    fad = ctx.fn("R2", M + "Follow::follow_at_depth")
    variants = {v["name"]: v["idx"] for v in prog.adts.get(M + "Follow", {"variants": []})["variants"]}
    ctx.ob("R2", "follow-enum", set(variants) == {"Never", "Roots", "Always"}, "Follow variants: %s" % variants, nontrivial=False)
    if fad is not None and variants:
        def brole(fn, bb, o):
            ty = prim.discr_type_of_switch(fn, bb)
            if ty and ty.endswith("matchers::Follow"):
                return "self"
            return None
        g = C.G(prim.event_graph(fad, lambda t: None, branch_role=brole))
        hs = g.nodes("self")
        ok = len(hs) == 1
        rows = {}
        if ok:
            for name, idx in variants.items():
                tg = g.succ(hs[0], str(idx)) or g.succ(hs[0], "else")
                rows[name] = tg
        ctx.ob("R2", "follow_at_depth:Never", rows.get("Never") == ["RET(const:False)"], "Never -> %s; oracle false" % rows.get("Never"), fn=fad, how="discriminant dispatch table")
        ctx.ob("R2", "follow_at_depth:Always", rows.get("Always") == ["RET(const:True)"], "Always -> %s; oracle true" % rows.get("Always"), fn=fad, how="discriminant dispatch table")
        # Roots: depth == 0
        ro = None
        for bb, o in prim.defs_origins(fad, 0):
            s = o.strip()
            if s.k == "bin":
                ro = s
        okr = ro is not None and ro.a == "Eq" and any(c.get("v") == 0 for c in ro.consts()) and any(x.k == "arg" and x.a["name"] == "depth" for x in ro.walk())
        ctx.ob("R2", "follow_at_depth:Roots", okr and rows.get("Roots") == ["RET(?)"], "Roots -> %s; oracle depth == 0 (only starting points)" % (ro.fmt() if ro else rows.get("Roots")), fn=fad, how="discriminant dispatch table + provenance")
    mad = ctx.fn("R2", M + "Follow::metadata_at_depth")
    if mad is not None:
        def role(t):
            c = (t.callee or "").split("::<")[0]
            n = t.j.get("callee_name")
            if c == M + "Follow::follow_at_depth":
                return "follow?"
            if c == "std::path::Path::metadata":
                return "stat"
            if c == "std::path::Path::symlink_metadata":
                return "lstat"
            if c == E + "WalkError::is_not_found":
                return "not_found?"
            return None
        g = C.G(prim.event_graph(mad, role))
        fq = g.nodes("follow?")
        ok = len(fq) == 1 and g.succ(fq[0], "0") == ["lstat"] and g.succ(fq[0], "else") == ["stat"] and g.succ("ENTRY") == fq
        ctx.ob("R2", "metadata_at_depth:choice", ok, "follow => stat first, no follow => lstat only; events: %s" % g.fmt(), fn=mad, how="event graph")
        nf = g.nodes("not_found?")
        ok = len(nf) == 1 and g.succ(nf[0], "else") == ["lstat"] and all(x.startswith("RET(agg:Result::Err") for x in g.succ(nf[0], "0")) and bool(g.succ(nf[0], "0"))
        st = g.nodes("stat")
        ok = ok and len(st) == 1 and set(C.base(x) if not x.startswith("RET") else x for x in g.succ(st[0])) <= {"RET(agg:Result::Ok)", "not_found?", "lstat"} and "RET(agg:Result::Ok)" in g.succ(st[0])
        ctx.ob("R2", "metadata_at_depth:fallback", ok, "a failed stat falls back to lstat only when the target does not exist (dangling link); any other error is returned; events: %s" % g.fmt(), fn=mad, how="event graph")
        for b, t in mad.calls():
            r = role(t)
            if r in ("stat", "lstat"):
                o = prim.origin_of_operand(mad, t.args[0])
                ok = any(x.k == "arg" and x.a["name"] == "path" for x in o.walk()) and set(c.a["name"] for c in o.call_nodes()) <= {"as_ref", "deref", "borrow"}
                ctx.ob("R2", "metadata_at_depth:%s-subject" % r, ok, "%s of %s; must be the given path" % (r, o.fmt()), fn=mad, where=prim.site(mad, b), how="provenance slice", nontrivial=False)
            if r == "follow?":
                a = [prim.origin_of_operand(mad, x).strip() for x in t.args]
                ctx.ob("R2", "metadata_at_depth:decision-args", [x.k for x in a] == ["arg", "arg"] and a[1].a["name"] == "depth", "follow_at_depth(%s)" % ", ".join(x.fmt() for x in a), fn=mad, where=prim.site(mad, b), how="provenance slice", nontrivial=False)
    wf = ctx.fn("R2", E + "WalkEntry::follow")
    if wf is not None:
        o = prim.origin_of_local(wf, 0).strip()
        ok = o.k == "call" and o.a["callee"] == M + "Follow::follow_at_depth" and o.kids[0].strip().k == "field" and o.kids[0].strip().a == "follow" and o.kids[1].strip().k == "call" and o.kids[1].strip().a["callee"] == E + "WalkEntry::depth"
        ctx.ob("R2", "entry-follow", ok, "WalkEntry::follow = %s; oracle self.follow.follow_at_depth(self.depth())" % o.fmt(), fn=wf, how="provenance slice")
    gm = prog.fns.get(E + "WalkEntry::get_metadata")
    gm_in_closure = False
    gm_dispatch = None
    if gm is None:
        # the cache-miss computation written in place: the closure `metadata` hands to the cell (`get_or_init(|| match &self.inner {..})`)
        wm_ = prog.fns.get(E + "WalkEntry::metadata")
        for cf_ in (prog.closures_of(wm_) if wm_ is not None else []):
            if any((t_.callee or "").split("::<")[0] == M + "Follow::metadata_at_depth" for _, t_ in cf_.calls()):
                gm, gm_in_closure = cf_, True
    if gm is None:
        ctx.missing("R2", E + "WalkEntry::get_metadata (or the cache-filling closure of WalkEntry::metadata)")
    else:
        ctx.analysed_fns.add(gm.path)
    if gm is not None:
        o = prim.origin_of_local(gm, 0).strip()
        ok = o.k == "call" and o.a["callee"].split("::<")[0] == M + "Follow::metadata_at_depth"
        if ok:
            k = [x.strip() for x in o.kids]
            ok = k[0].k == "field" and k[0].a == "follow" and k[1].k == "call" and k[1].a["callee"] == E + "WalkEntry::path" and k[2].k == "call" and k[2].a["callee"] == E + "WalkEntry::depth"
        if not ok:
            # the cache-miss dispatch may live here: Explicit(path, depth) => follow.metadata_at_depth(path, depth), WalkDir(ent) => ent.metadata()
            gm_dispatch = _entry_arms(prog, gm)
            exp = gm_dispatch.get("Explicit", {})
            mad_calls = [t_ for t_ in exp.get("terms", []) if (t_.callee or "").split("::<")[0] == M + "Follow::metadata_at_depth"]
            if len(mad_calls) == 1 and sorted(exp.get("callees", [])) == [M + "Follow::metadata_at_depth"]:
                a_ = [prim.resolve_upvars(prog, gm, prim.origin_of_operand(gm, x_)).strip() if gm_in_closure else prim.origin_of_operand(gm, x_).strip() for x_ in mad_calls[0].args]
                payload = lambda x_, i_: any(y.k == "variant" and str(y.a) == "Explicit" for y in x_.walk()) and any(y.k == "field" and str(y.a) == str(i_) for y in x_.walk())
                ok = len(a_) == 3 and a_[0].k == "field" and a_[0].a == "follow" and payload(a_[1], 0) and payload(a_[2], 1) and sorted(gm_dispatch.get("WalkDir", {}).get("callees", [])) == ["walkdir::DirEntry::metadata"]
        ctx.ob("R2", "entry-record", ok, "WalkEntry::get_metadata = %s; oracle self.follow.metadata_at_depth(self.path(), self.depth()) (or, per variant, the explicit entry's own path and depth / the walkdir entry's record)" % o.fmt()[:300], fn=gm, how="provenance slice")
    # WalkEntry::metadata: Explicit -> get_metadata, WalkDir -> DirEntry::metadata
    wm = prog.fns.get(E + "WalkEntry::metadata")
    if wm is None:
        ctx.missing("R2", "WalkEntry::metadata")
    else:
        ctx.analysed_fns.add(wm.path)
        got = {}
        for cf in prog.closures_of(wm):
            ctx.analysed_fns.add(cf.path)
            for b in cf.reachable():
                t = cf.blocks[b].term
                if t.k == "switch" and (prim.discr_type_of_switch(cf, b) or "").endswith("entry::Entry"):
                    adt = prog.adts.get(E + "Entry")
                    names = {v["idx"]: v["name"] for v in adt["variants"]} if adt else {}
                    for lab, tgt in prim.switch_edges(cf, b):
                        if lab == "else":
                            continue
                        reg = [bb for bb in cf.reach_from([tgt]) if cf.dominates(tgt, bb)]
                        cs = sorted({(tt.callee or "").split("::<")[0] for bb in reg for tt in [cf.blocks[bb].term] if tt.k == "call" and ((tt.callee or "").startswith(E + "WalkEntry::get_metadata") or raw_name(tt))})
                        got[names.get(lab, lab)] = cs
        if gm_in_closure and gm_dispatch is not None:
            # the dispatch sits in the cache-filling closure itself and was judged there (entry-record)
            if sorted(gm_dispatch.get("Explicit", {}).get("callees", [])) == [M + "Follow::metadata_at_depth"] and sorted(gm_dispatch.get("WalkDir", {}).get("callees", [])) == ["walkdir::DirEntry::metadata"]:
                got = {"Explicit": [E + "WalkEntry::get_metadata"], "WalkDir": ["walkdir::DirEntry::metadata"]}
        if not got:
            # no dispatch in metadata itself: the cache is filled by get_metadata alone, which dispatches (entry-record)
            fills = sorted({(tt.callee or "").split("::<")[0] for cf in prog.closures_of(wm) for _, tt in cf.calls() if (tt.callee or "").startswith(E + "WalkEntry::get_metadata") or raw_name(tt)})
            gmf = prog.fns.get(E + "WalkEntry::get_metadata")
            if fills == [E + "WalkEntry::get_metadata"] and gmf is not None:
                arms_ = _entry_arms(prog, gmf)
                if sorted(arms_.get("Explicit", {}).get("callees", [])) == [M + "Follow::metadata_at_depth"] and sorted(arms_.get("WalkDir", {}).get("callees", [])) == ["walkdir::DirEntry::metadata"]:
                    got = {"Explicit": [E + "WalkEntry::get_metadata"], "WalkDir": ["walkdir::DirEntry::metadata"]}
        ctx.ob("R2", "cached-record-source", got == {"Explicit": [E + "WalkEntry::get_metadata"], "WalkDir": ["walkdir::DirEntry::metadata"]},
               "WalkEntry::metadata fills its cache from %s; oracle: explicit entries through get_metadata (follow decision), walkdir entries from walkdir" % got, fn=wm, how="discriminant dispatch table")
    # Follow::metadata reuse table
    fm = ctx.fn("R2", M + "Follow::metadata")
    if fm is not None:
        def role(t):
            c = (t.callee or "").split("::<")[0]
            if c == E + "WalkEntry::metadata":
                return "cached"
            if c == M + "Follow::metadata_at_depth":
                return "fresh"
            if c == E + "WalkEntry::follow":
                return "entry.follow"
            if c == E + "FileType::is_symlink":
                return "is_link"
            return None
        def brole(fn, bb, o):
            o = o.strip()
            if o.k == "bin" and o.a in ("Eq", "Ne") and any(c == M + "Follow::follow_at_depth" for c in o.callees()) and any(c == E + "WalkEntry::follow" for c in o.callees()):
                return "same:" + o.a
            # `entry.follow() == entry.file_type().is_symlink()`: the two middle rows of the table as one comparison
            if o.k == "bin" and o.a in ("Eq", "Ne") and len(o.kids) == 2 and sorted((k.strip().a["callee"] if k.strip().k == "call" else "?") for k in o.kids) == sorted([E + "WalkEntry::follow", E + "FileType::is_symlink"]):
                return "agree:" + o.a
            return None
        g0 = prim.event_graph(fm, role, branch_role=brole)
        g = C.G(g0)
        same = [n for n in g.out if C.base(n).startswith("same:")]
        ctx.ob("R2", "reuse-atoms", len(same) == 1 and bool(g.nodes("cached")) and len(g.nodes("fresh")) == 1, "Follow::metadata decision atoms: %s" % sorted({C.base(n) for n in g.out}), fn=fm, how="event graph")
        if len(same) == 1:
            bad = []
            n = 0
            for s, ef, lk in itertools.product([False, True], repeat=3):
                eq = (C.base(same[0]) == "same:Eq")
                asg = {C.base(same[0]): (s if eq else not s), "entry.follow": ef, "is_link": lk, "agree:Eq": ef == lk, "agree:Ne": ef != lk}
                # the first entry.follow feeds the comparison (no outcome label): only labelled nodes are decided
                tr = C.simulate(g0, asg, edges=g.edges)
                want = "cached" if (s or (not ef and not lk) or (ef and lk)) else "fresh"
                src = [C.base(x) for x in (tr or []) if C.base(x) in ("cached", "fresh")]
                n += 1
                if src != [want]:
                    bad.append(((s, ef, lk), src, want))
            ctx.ob("R2", "reuse-table", not bad, "Follow::metadata (used by -xtype, %%Y): rows (same decision, entry follows, entry type is link) deviating from the oracle [reuse the entry's record iff same decision, or not following and not a link, or following and still a link (dangling); otherwise stat afresh with this mode]: %s" % bad, fn=fm, how="event-graph truth table (%d rows)" % n)
        for b, t in fm.calls():
            if role(t) == "fresh":
                a = [prim.origin_of_operand(fm, x) for x in t.args]
                ok = a[0].strip().k == "arg" and [c.a["callee"] for c in a[1].call_nodes()] == [E + "WalkEntry::path"] and [c.a["callee"] for c in a[2].call_nodes()] == [E + "WalkEntry::depth"]
                ctx.ob("R2", "fresh-stat-args", ok, "fresh record = metadata_at_depth(%s)" % ", ".join(x.fmt() for x in a), fn=fm, where=prim.site(fm, b), how="provenance slice")
    # -xtype inverts
    xm = ctx.fn("R2", C.matcher_impl(M + "type_matcher::XtypeMatcher", "matches"))
    if xm is not None:
        calls = [(b, t) for b, t in xm.calls() if (t.callee or "").split("::<")[0] == M + "Follow::metadata"]
        ok = len(calls) == 1
        rows = {}
        if ok:
            l = prim.user_local_behind(xm, calls[0][1].args[0])
            if l is None and calls[0][1].args[0].place is not None:
                l = calls[0][1].args[0].place.local
            for bb, o in prim.alternatives(xm, l):
                s = o.strip()
                gs = prim.dominating_guards(xm, bb)
                cond = None
                for gd in gs:
                    pr = gd["pred"].strip()
                    if pr.k == "call" and pr.a["callee"] == E + "WalkEntry::follow" and entry_is_arg(pr.kids[0]):
                        cond = gd["bool"]
                if s.k == "agg":
                    rows[cond] = str(s.a).split("::")[-1]
            eo = prim.origin_of_operand(xm, calls[0][1].args[1]).strip()
            ok = eo.k == "arg"
        ctx.ob("R2", "xtype-inverts-decision", ok and rows == {True: "Never", False: "Always"}, "-xtype examines the entry with %s (entry.follow() -> mode); oracle: the opposite choice from -type: following -> Never, not following -> Always" % rows, fn=xm, how="local writers + dominating guard")
        # the type compared is that record's file_type
        cmp_ok = False
        for b, t in xm.calls():
            if t.j.get("callee_name") == "eq" and "FileType" in (t.j.get("callee_inst") or ""):
                o = prim.expand_single_def_vars(xm, prim.origin_of_operand(xm, t.args[0]))
                o2 = prim.origin_of_operand(xm, t.args[1])
                if any(x.k == "field" and x.a == "file_type" for x in o2.walk()) or any(x.k == "field" and x.a == "file_type" for x in o.walk()):
                    cmp_ok = True
        ctx.ob("R2", "xtype-compares-with-operand", cmp_ok, "-xtype must compare the examined type with its operand (self.file_type)", fn=xm, how="provenance slice", nontrivial=False)
    tm = ctx.fn("R2", C.matcher_impl(M + "type_matcher::TypeMatcher", "matches"))
    if tm is not None:
        o = prim.origin_of_local(tm, 0).strip()
        ok = o.k == "call" and o.a["name"] == "eq" and any(c == E + "WalkEntry::file_type" for c in o.callees()) and any(x.k == "field" and x.a == "file_type" for x in o.walk())
        ctx.ob("R2", "type-compares-entry-type", ok, "-type = %s; oracle entry.file_type() == operand" % o.fmt(), fn=tm, how="provenance slice")
    # W3: depth-0 entries under -H/-L are explicit
    fw = ctx.fn("R2", E + "WalkEntry::from_walkdir")
    if fw is not None:
        ok_w3 = False
        desc = []
        for b in fw.reachable():
            for s in fw.blocks[b].stmts:
                if s.rv is not None and s.rv.k == "agg" and s.rv.j.get("adt") == E + "Entry" and s.rv.j.get("variant") == "WalkDir":
                    gs = prim.dominating_guards(fw, b)
                    # must sit on the false side of (depth == 0 && follow != Never)
                    d0 = None
                    nev = None
                    for gd in gs:
                        pr = gd["pred"].strip()
                        if pr.k == "bin" and pr.a == "Eq" and any(c.get("v") == 0 for c in pr.consts()) and any(c == "walkdir::DirEntry::depth" for c in pr.callees()):
                            d0 = gd["bool"]
                        if pr.k == "call" and pr.a["name"] in ("ne", "eq") and any(str(x.a).endswith("Follow::Never") for x in pr.walk() if x.k == "agg"):
                            nev = (pr.a["name"], gd["bool"])
                    desc.append((d0, nev))
                    # accepted: not dominated by both-true; i.e. the construction is reachable only when depth!=0 or follow==Never
                    ok_w3 = True
                    if d0 is True and nev in (("ne", True), ("eq", False)):
                        ok_w3 = False
        # stronger: the explicit construction (WalkEntry::new) must be under both conditions, and the WalkDir construction not reachable from there
        news = [(b, t) for b, t in fw.calls() if (t.callee or "").startswith(E + "WalkEntry::new")]
        cond_ok = False
        for b, t in news:
            gs = prim.dominating_guards(fw, b)
            d0 = any(gd["pred"].strip().k == "bin" and gd["pred"].strip().a == "Eq" and gd["bool"] is True and any(c.get("v") == 0 for c in gd["pred"].consts()) and any(c == "walkdir::DirEntry::depth" for c in gd["pred"].callees()) for gd in gs)
            nv = any(gd["pred"].strip().k == "call" and ((gd["pred"].strip().a["name"] == "ne") == (gd["bool"] is True)) and any(str(x.a).endswith("Follow::Never") for x in gd["pred"].walk() if x.k == "agg") for gd in gs)
            dep = prim.origin_of_operand(fw, t.args[1]).strip()
            fo = prim.origin_of_operand(fw, t.args[2]).strip()
            cond_ok = d0 and nv and dep.k == "const" and dep.a.get("v") == 0 and fo.k == "arg"
        # the two constructions are on opposite edges of the same test
        wd_blocks = [b for b in fw.reachable() for s in fw.blocks[b].stmts if s.rv is not None and s.rv.k == "agg" and s.rv.j.get("adt") == E + "Entry" and s.rv.j.get("variant") == "WalkDir"]
        excl = bool(news) and bool(wd_blocks) and not any(wb in fw.reach_from([nb]) for nb, _ in news for wb in wd_blocks)
        ctx.ob("R2", "root-entries-explicit(W3)", cond_ok and excl, "under -H/-L a depth-0 entry must be rebuilt from its path (walkdir's DirEntry reports the link's own type for followed roots); explicit construction guarded by depth==0 && follow!=Never: %s, exclusive with the walkdir-backed construction: %s" % (cond_ok, excl), fn=fw, how="dominating guards (contract W3)")
        # dangling-link entries never follow
        for b in fw.reachable():
            for s in fw.blocks[b].stmts:
                if s.rv is not None and s.rv.k == "agg" and s.rv.j.get("adt") == E + "WalkEntry":
                    names = s.rv.j["fields"]
                    io = prim.origin_of_operand(fw, s.rv.ops[names.index("inner")]).strip()
                    fo = prim.origin_of_operand(fw, s.rv.ops[names.index("follow")]).strip()
                    if io.k == "agg" and str(io.a).endswith("Entry::Explicit"):
                        ctx.ob("R2", "dangling-link-entry", fo.k == "agg" and str(fo.a).endswith("Follow::Never"), "an entry rebuilt for a dangling link uses follow=%s; it must be examined as the link itself (Never)" % fo.fmt(), fn=fw, where=prim.site(fw, b, s), how="constant field")
                    elif io.k == "agg" and str(io.a).endswith("Entry::WalkDir"):
                        ctx.ob("R2", "walkdir-entry-follow", fo.k == "arg", "walkdir-backed entries carry follow=%s; must be the walk's mode" % fo.fmt(), fn=fw, where=prim.site(fw, b, s), how="provenance slice", nontrivial=False)
    pf = ctx.fn("R2", C.PROCESS_DIR)
    if pf is not None:
        for b, t in pf.calls():
            if C.walk_role(t) == "from_walkdir":
                fo = prim.origin_of_operand(pf, t.args[1]).strip()
                ctx.ob("R2", "entries-carry-config-follow", fo.k == "field" and fo.a == "follow", "entries are created with follow=%s; must be config.follow" % fo.fmt(), fn=pf, where=prim.site(pf, b), how="provenance slice")
    C.import_rules(ctx, "C02", ["R1"], "R2", key_prefix="walkdir-plumbing")

    # ---- R3 -lname guard -------------------------------------------------------------------------------------
    lm = ctx.fn("R3", C.matcher_impl(M + "lname::LinkNameMatcher", "matches"))
    rl = ctx.fn("R3", M + "lname::read_link_target")
    if lm is not None and rl is not None:
        def link_guard(f, b):
            for gd in prim.dominating_guards(f, b):
                pr = gd["pred"].strip()
                if pr.k == "call" and pr.a["callee"] == E + "FileType::is_symlink" and gd["bool"] is True:
                    src = pr.kids[0].strip()
                    if src.k == "call" and src.a["callee"] == E + "WalkEntry::file_type" and entry_is_arg(src.kids[0]):
                        return True
                if pr.k == "call" and pr.a["callee"] == E + "WalkEntry::follow" and gd["bool"] is False and entry_is_arg(pr.kids[0]):
                    return True
            return False
        ok = False
        sites = []
        for b, t in rl.calls():
            if raw_name(t) == "std::path::Path::read_link":
                sites.append(prim.site(rl, b))
                if link_guard(rl, b):
                    ok = True
        callers = [(b, t) for b, t in lm.calls() if t.callee == rl.path]
        if callers and all(link_guard(lm, b) for b, t in callers):
            ok = True
        ctx.ob("R3", "lname-sees-only-unresolved-links", ok,
               "-lname reads the link text (%s) without first asking whether the entry itself is a link under its follow decision (entry.file_type().is_symlink(), or !entry.follow()): under -L, or -H for a starting point, a link that the follow mode resolves is still matched" % sites,
               fn=lm, how="dominating guard (interprocedural: matches -> read_link_target)")

    # ---- R4 field / prefix tables ------------------------------------------------------------------------------
    for ty, fld in FIELDS.items():
        f = prog.fns.get(C.matcher_impl(M + ty, "matches"))
        if f is None:
            ctx.missing("R4", ty + "::matches")
            continue
        ctx.analysed_fns.add(f.path)
        cm = [(b, t) for b, t in f.calls() if (t.callee or "").startswith(M + "ComparableValue::")]
        ok = len(cm) == 1 and cm[0][1].j.get("callee_name") == "matches"
        desc = "?"
        if ok:
            vo = prim.origin_of_operand(f, cm[0][1].args[1])
            names = [c.a["name"] for c in vo.call_nodes()]
            desc = vo.fmt()
            ok = fld in names and E.rstrip(":") and any(c.a["callee"] == E + "WalkEntry::metadata" for c in vo.call_nodes()) and set(names) <= {fld, "metadata", "into", "from"}
            so = prim.origin_of_operand(f, cm[0][1].args[0]).strip()
            ok = ok and so.k == "field"
        ctx.ob("R4", "field:%s" % ty.split("::")[-1], ok, "%s compares %s; oracle: the record's %s against its operand" % (ty, desc, fld), fn=f, how="provenance slice")
        g = C.G(prim.event_graph(f, lambda t: "metadata" if t.callee == E + "WalkEntry::metadata" else ("cmp" if (t.callee or "").startswith(M + "ComparableValue::") else None)))
        md = g.nodes("metadata")
        ok = len(md) == 1 and g.succ(md[0], "0") == ["cmp"] and all(x == "RET(const:False)" for x in g.succ(md[0], "1")) and all(g.succ(c) == ["RET(ev:cmp)"] for c in g.nodes("cmp"))
        ctx.ob("R4", "truth:%s" % ty.split("::")[-1], ok, "%s: record available => the comparison's verdict, unavailable => false; events %s" % (ty, g.fmt()), fn=f, how="event graph")
    fn, d, arms, info = C.parser_arms(ctx, "R4")
    if arms:
        from ..dispatch import arm_of
        for tok, (ty, ctor) in TOKENS.items():
            a = arm_of(arms, tok)
            if a is None:
                ctx.ob("R4", "token:%s" % tok, False, "token %s not recognised" % tok, fn=fn)
                continue
            tys = a.boxed_matcher_types()
            ctx.ob("R4", "token:%s" % tok, tys == [M + ty], "%s builds %s; oracle %s" % (tok, [prim.short(x) for x in tys], ty), fn=fn, where=prim.site(fn, a.entry), how="dispatch table")
            if ctor in ("new", "from_comparable") and tok in ("-inum", "-links", "-uid", "-gid"):
                cs = a.calls_matching(M + ty + "::" + ctor)
                ok = len(cs) == 1
                if ok:
                    o = prim.origin_of_operand(fn, cs[0][1].args[0])
                    ok = any(c.a["callee"] == M + "convert_arg_to_comparable_value" for c in o.call_nodes())
                ctx.ob("R4", "operand:%s" % tok, ok, "%s's operand must be the token after it parsed by the common N/+N/-N converter" % tok, fn=fn, where=prim.site(fn, a.entry), how="provenance slice")
    # -user / -group by name or number -> EqualTo(id)
    for ty in ("user::UserMatcher", "group::GroupMatcher"):
        for ctor, want_src in (("from_uid" if "user" in ty else "from_gid", "arg"),):
            f = prog.fns.get(M + ty + "::" + ctor)
            if f is None:
                ctx.missing("R4", ty + "::" + ctor)
                continue
            ctx.analysed_fns.add(f.path)
            o = prim.origin_of_local(f, 0)
            eq = [x for x in o.walk() if x.k == "agg" and str(x.a).endswith("ComparableValue::EqualTo")]
            ok = len(eq) == 1 and any(x.k == "arg" for x in eq[0].walk())
            ctx.ob("R4", "id-equality:%s" % ctor, ok, "%s::%s builds %s; oracle: EqualTo(the id)" % (ty, ctor, o.fmt()), fn=f, how="provenance slice")
    # -perm
    sp = ctx.fn("R4", M + "perm::parsing::split_comparison_type")
    if sp is not None:
        rows = {}
        rest = {}
        chv = lambda cst: cst.get("v") if isinstance(cst.get("v"), str) else (cst.get("ch") if isinstance(cst.get("ch"), str) else (chr(cst["v"]) if isinstance(cst.get("v"), int) and not isinstance(cst.get("v"), bool) and cst.get("k") == "char" else None))
        for b in sp.reachable():
            for s in sp.blocks[b].stmts:
                if s.lhs is not None and s.lhs.is_local() and s.lhs.local == 0 and s.rv is not None and s.rv.k == "agg" and s.rv.j.get("ak") == "tuple":
                    co = prim.origin_of_operand(sp, s.rv.ops[0]).strip()
                    ro = prim.origin_of_operand(sp, s.rv.ops[1])
                    gs = prim.dominating_guards(sp, b)
                    ch = None
                    for gd in gs:
                        if isinstance(gd["labels"], list) and gd["pred"].strip().k in ("field", "variant", "var", "call") and all(isinstance(x, int) for x in gd["labels"]) and sp.blocks[gd["bb"]].term.j.get("discr_ty") == "char":
                            ch = "".join(chr(x) for x in gd["labels"])
                    if ch is None:
                        # the same decision spelled `pattern.strip_prefix('-')` / `starts_with('-')`
                        for at in prim.norm_guards(gs):
                            a_ = at["a"].strip()
                            cs_ = [cn for cn in a_.call_nodes() if cn.a["name"] in ("strip_prefix", "starts_with") and any(y.k == "arg" for y in cn.walk())]
                            chv = lambda cst: cst.get("v") if isinstance(cst.get("v"), str) else (cst.get("ch") if isinstance(cst.get("ch"), str) else (chr(cst["v"]) if isinstance(cst.get("v"), int) and not isinstance(cst.get("v"), bool) and cst.get("k") == "char" else None))
                            lit_ = [chv(cst) for cn in cs_ for cst in cn.consts() if chv(cst) is not None and len(chv(cst)) == 1]
                            if len(cs_) == 1 and len(lit_) == 1:
                                holds = (a_.k == "discr" and at["rel"] == "eq" and at["b"].strip().a.get("v") == 1) or (a_.k == "call" and at["rel"] == "eq" and at["b"].strip().a.get("v") is True)
                                if holds:
                                    ch = lit_[0]
                    key = ch if ch is not None else "other"
                    rows[key] = str(co.a).split("::")[-1] if co.k == "agg" else co.fmt()
                    is_rest = any(c.a["name"] == "as_str" for c in ro.call_nodes()) or \
                        (any(c.a["name"] == "strip_prefix" and ch is not None and ch in [chv(cst) for cst in c.consts()] for c in ro.call_nodes()) and any(y.k == "variant" and str(y.a) == "Some" for y in ro.walk()))
                    rest[key] = "rest" if is_rest else ("whole" if ro.strip().k == "arg" else ro.fmt())
        ctx.ob("R4", "perm-prefix-table", rows == {"-": "AtLeast", "/": "AnyOf", "other": "Exact"}, "-perm prefix -> comparison: %s; oracle '-' all-of, '/' any-of, otherwise exact" % rows, fn=sp, how="char dispatch table")
        ctx.ob("R4", "perm-prefix-rest", rest == {"-": "rest", "/": "rest", "other": "whole"}, "MODE text after the prefix: %s; oracle: the remainder after '-' or '/', the whole operand otherwise" % rest, fn=sp, how="provenance slice")
    mb = ctx.fn("R4", M + "perm::ComparisonType::mode_bits_match")
    if mb is not None:
        masks = []
        for b in mb.reachable():
            for s in mb.blocks[b].stmts:
                if s.rv is not None and s.rv.k == "bin" and s.rv.j["op"] in ("BitAnd", "Rem"):
                    for o in s.rv.ops:
                        v = o.const_value()
                        if isinstance(v, int):
                            masks.append((s.rv.j["op"], v))
        ok = ("BitAnd", 0o7777) in masks or ("Rem", 0o10000) in masks
        bad = [m for m in masks if m not in (("BitAnd", 0o7777), ("Rem", 0o10000))]
        ctx.ob("R4", "perm-exact-mask", ok and not bad, "constant masks in mode_bits_match: %s; the exact test must compare all twelve permission bits (mask 0o7777: rwx for u/g/o plus setuid, setgid, sticky) and nothing narrower" % [(op, oct(v)) for op, v in masks], fn=mb, how="constant operands")
    pm = ctx.fn("R4", C.matcher_impl(M + "perm::PermMatcher", "matches"))
    if pm is not None:
        cs = [(b, t) for b, t in pm.calls() if t.callee == M + "perm::ComparisonType::mode_bits_match"]
        ok = len(cs) == 1
        if ok:
            vo = prim.origin_of_operand(pm, cs[0][1].args[2])
            names = [c.a["name"] for c in vo.call_nodes()]
            ok = set(names) <= {"mode", "permissions", "metadata"} and "mode" in names and any(c.a["callee"] == E + "WalkEntry::metadata" for c in vo.call_nodes())
            co = prim.origin_of_operand(pm, cs[0][1].args[0]).strip()
            ok = ok and co.k == "field" and co.a == "comparison_type"
        ctx.ob("R4", "perm-tests-record-mode", ok, "-perm must test the st_mode of the entry's record with its own comparison type", fn=pm, how="provenance slice")
    pnew = ctx.fn("R4", M + "perm::PermMatcher::new")
    if pnew is not None:
        # X means x only for directories: the two stored patterns are the same operand parsed for a file and for a directory
        got = {}
        for b in pnew.reachable():
            for st in pnew.blocks[b].stmts:
                if st.rv is not None and st.rv.k == "agg" and st.rv.j.get("adt") == M + "perm::PermMatcher":
                    for n_, op in zip(st.rv.j["fields"], st.rv.ops):
                        if n_ in ("file_pattern", "dir_pattern"):
                            o = prim.origin_of_operand(pnew, op)
                            pcs = [c for c in o.call_nodes() if c.a["callee"] == M + "perm::parsing::parse_mode"]
                            if len(pcs) == 1 and len(pcs[0].kids) == 2:
                                fl = pcs[0].kids[1].strip()
                                got[n_] = fl.a.get("v") if fl.k == "const" else "?"
        ctx.ob("R4", "perm-dir-pattern-for-directories", got == {"file_pattern": False, "dir_pattern": True}, "PermMatcher::new parses its operand with for_dir = %s; oracle file_pattern: false, dir_pattern: true (symbolic `X` is `x` for directories: -perm -a+X must not match every directory)" % got, fn=pnew, how="provenance slice + constant argument")
        # a numeric MODE is octal digits only (parse_numeric tolerates an operator and blanks)
    pmode = ctx.fn("R4", M + "perm::parsing::parse_mode")
    if pmode is not None:
        for b, t in pmode.calls():
            if (t.callee or "").split("::<")[0] == "uucore::mode::parse_numeric":
                atoms = prim.norm_guards(prim.dominating_guards(pmode, b))
                def _pol(cf_):
                    """+1: the closure returns is_digit(..), -1: its negation, 0: something else"""
                    r_ = prim.origin_of_local(cf_, 0).strip()
                    if r_.k == "call" and r_.a["name"] == "is_digit":
                        return 1
                    if r_.k == "un" and r_.a == "Not" and r_.kids and r_.kids[0].strip().k == "call" and r_.kids[0].strip().a["name"] == "is_digit":
                        return -1
                    return 0
                def _clo(o_):
                    m_ = [x for x in o_.walk() if x.k == "agg" and str(x.a).startswith("closure:")]
                    return prog.fns.get(str(m_[0].a).split(":", 1)[1]) if len(m_) == 1 else None
                strict = False
                for at in atoms:
                    a_ = at["a"].strip()
                    if at["b"].strip().k != "const" or a_.k != "call" or a_.a["name"] not in ("all", "any") or not any(cn.a["name"] in ("chars", "bytes") for cn in a_.call_nodes()):
                        continue
                    cf_ = _clo(a_)
                    if cf_ is None:
                        continue
                    holds = (at["rel"] == "eq" and at["b"].strip().a.get("v") is True) or (at["rel"] == "ne" and at["b"].strip().a.get("v") is False)
                    fails = (at["rel"] == "ne" and at["b"].strip().a.get("v") is True) or (at["rel"] == "eq" and at["b"].strip().a.get("v") is False)
                    # every character is a digit: all(is_digit) holds, or any(!is_digit) does not
                    if (a_.a["name"] == "all" and holds and _pol(cf_) == 1) or (a_.a["name"] == "any" and fails and _pol(cf_) == -1):
                        strict = True
                cl = [cf for cf in prog.closures_of(pmode) if any(tt.j.get("callee_name") == "is_digit" for _, tt in cf.calls())]
                radix_ok = False
                for cf in cl:
                    for _, tt in cf.calls():
                        if tt.j.get("callee_name") == "is_digit":
                            r = prim.origin_of_operand(cf, tt.args[1]).strip()
                            radix_ok = r.k == "const" and r.a.get("v") == 8
                ctx.ob("R4", "numeric-mode-is-octal-digits", strict and radix_ok, "parse_numeric is reached under %s; oracle: only when every character of the operand is an octal digit (`+600`, ' 600', '- 7' are not modes)" % prim.guards_fmt([a["gd"] for a in atoms])[:200], fn=pmode, where=prim.site(pmode, b), how="dominating guard + closure")
        fold_init = {}
        for b, t in pmode.calls():
            if t.j.get("callee_name") in ("fold", "try_fold") and len(t.args) == 3:
                clo_ = [x for x in prim.origin_of_operand(pmode, t.args[2]).walk() if x.k == "agg" and str(x.a).startswith("closure:")]
                if len(clo_) == 1:
                    fold_init[str(clo_[0].a).split(":", 1)[1]] = prim.origin_of_operand(pmode, t.args[1]).strip()
        in_closures = [(cf_, b_, t_) for cf_ in prog.closures_of(pmode) for b_, t_ in cf_.calls() if (t_.callee or "").split("::<")[0] == "uucore::mode::parse_symbolic"]
        for cf_, b_, t_ in in_closures:
            # `clauses.try_fold(0, |mode, clause| parse_symbolic(mode, clause, 0, for_dir))`: the loop written as a fold
            um = prim.origin_of_operand(cf_, t_.args[2]).strip()
            ctx.ob("R4", "symbolic-umask-zero", um.k == "const" and um.a.get("v") == 0, "parse_symbolic is given umask %s; find's MODE is not subject to the process umask (constant 0)" % um.fmt(), fn=cf_, where=prim.site(cf_, b_), how="constant argument")
            mo = prim.origin_of_operand(cf_, t_.args[0]).strip()
            init = fold_init.get(cf_.path)
            ok = mo.k == "arg" and mo.a.get("idx") == 2 and init is not None and init.k == "const" and init.a.get("v") == 0
            ctx.ob("R4", "symbolic-accumulates", ok, "parse_symbolic starts from %s (fold initial value %s); clauses separated by ',' accumulate from 0" % (mo.fmt(), init.fmt() if init is not None else None), fn=cf_, where=prim.site(cf_, b_), how="provenance slice", nontrivial=False)
        for b, t in pmode.calls():
            c = (t.callee or "").split("::<")[0]
            if c == "uucore::mode::parse_symbolic":
                um = prim.origin_of_operand(pmode, t.args[2]).strip()
                ctx.ob("R4", "symbolic-umask-zero", um.k == "const" and um.a.get("v") == 0, "parse_symbolic is given umask %s; find's MODE is not subject to the process umask (constant 0), otherwise `-perm -+w` depends on the caller's umask and differs from the octal spelling" % um.fmt(), fn=pmode, where=prim.site(pmode, b), how="constant argument")
                mo = prim.origin_of_operand(pmode, t.args[0]).strip()
                ok = (mo.k == "var" and mo.a.get("name") == "mode") or (mo.k == "const" and mo.a.get("v") == 0)
                ctx.ob("R4", "symbolic-accumulates", ok, "parse_symbolic starts from %s; clauses separated by ',' accumulate from 0" % mo.fmt(), fn=pmode, where=prim.site(pmode, b), how="provenance slice", nontrivial=False)
            if c == "uucore::mode::parse_numeric":
                mo = prim.origin_of_operand(pmode, t.args[0]).strip()
                ctx.ob("R4", "numeric-from-zero", mo.k == "const" and mo.a.get("v") == 0, "parse_numeric starts from %s; oracle 0" % mo.fmt(), fn=pmode, where=prim.site(pmode, b), how="constant argument")
        mode_l = [l_ for l_ in C.find_local(pmode, "mode", ty="u32", pred=lambda fn_, l_: len(prim.local_defs(fn_).get(l_, [])) >= 2) if pmode.local_ty(l_) == "u32"] or pmode.locals_named("mode")
        inits = []
        for l in mode_l:
            for bb, v in prim.const_assigns_to(pmode, l):
                inits.append(v)
        if not inits and in_closures:
            inits = [fold_init[cf_.path].a.get("v") if cf_.path in fold_init and fold_init[cf_.path].k == "const" else "?" for cf_, _, _ in in_closures]
        ctx.ob("R4", "symbolic-initial-zero", all(v == 0 for v in inits) and bool(inits), "symbolic accumulation starts at %s" % inits, fn=pmode, how="local writers", nontrivial=False)


def _entry_arms(prog, fn):
    """{variant of entry::Entry: {"callees": status-relevant callees in the arm, "terms": their call terminators}} for the
    dispatch on `self.inner` in fn (empty when fn has none)"""
    out = {}
    adt = prog.adts.get(E + "Entry")
    names = {v["idx"]: v["name"] for v in adt["variants"]} if adt else {}
    for b in fn.reachable():
        t = fn.blocks[b].term
        if t.k == "switch" and (prim.discr_type_of_switch(fn, b) or "").endswith("entry::Entry"):
            for lab, tgt in prim.switch_edges(fn, b):
                if lab == "else":
                    continue
                reg = [bb for bb in fn.reach_from([tgt]) if fn.dominates(tgt, bb)]
                terms = [fn.blocks[bb].term for bb in reg if fn.blocks[bb].term.k == "call" and ((fn.blocks[bb].term.callee or "").split("::<")[0] in (M + "Follow::metadata_at_depth", E + "WalkEntry::get_metadata") or raw_name(fn.blocks[bb].term))]
                out[names.get(lab, lab)] = {"callees": sorted({(raw_name(tt) or (tt.callee or "").split("::<")[0]) for tt in terms}), "terms": terms}
    return out
