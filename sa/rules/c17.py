"""C17 — -regex/-iregex: whole path, in the syntax selected by the nearest preceding -regextype."""
from .. import dispatch, fmtlit, prim
from . import common as C
from . import shared as SH
from . import c07

M = C.M
R = M + "regex::"
E = M + "entry::"
META = {
    "explanation": "R1 whole-string API (contracts O2, O3): RegexMatcher::matches returns match_with_param(path, at 0, no options) == Ok(Some(path.len())) on WalkEntry::path() through identity conversions; no panicking onig match entry point (is_match/find/search/captures/match_with_options) in regex.rs; a failed match is diagnosed and sets the exit status; "
                   "R2 end-of-text requirement inside the pattern (contract O1): onig's match-at-0 commits to the first alternative that succeeds and is_match only compares that result's length with the text — alternation order then decides the verdict — so the string compiled by Regex::with_options must carry a per-syntax end anchor around the whole user pattern; a raw user pattern is a violation; "
                   "R3 tables: -regextype names -> RegexType (emacs, grep, posix-basic = ed = sed, posix-extended, anything else rejected, default emacs) and RegexType -> onig Syntax constructor (one distinct syntax per type), -iregex <-> IGNORECASE; "
                   "R4 positional state: the regex type read by -regex/-iregex and written by -regextype lives in storage shared by all recursion levels of the expression parser (reached through a parameter), so a -regextype before or inside a parenthesis governs what follows",
    "decides": "R2 also: the operand is validated as written first, every construction site stores the derived compile, and under posix-extended an unmatched ) is escaped before wrapping (contract O4); the match API and subject, whether the whole-string requirement can survive alternation, the name/syntax/case tables, and that the selected syntax is positional across parentheses",
    "does_not_decide": "which strings each onig syntax accepts (the language itself)",
}

NAMES = {"emacs": "Emacs", "grep": "Grep", "posix-basic": "PosixBasic", "posix-extended": "PosixExtended", "ed": "PosixBasic", "sed": "PosixBasic"}
SYNTAX = {"Emacs": "emacs", "Grep": "grep", "PosixBasic": "posix_basic", "PosixExtended": "posix_extended"}


QMARK_GROUP_EFFECT = 2 << 32          # onig_sys::ONIG_SYN_OP2_QMARK_GROUP_EFFECT << 32 (SyntaxOperator bit layout of the onig crate)
ESC_GNU_BUF_ANCHOR = (1 << 15) << 32   # onig_sys::ONIG_SYN_OP2_ESC_GNU_BUF_ANCHOR << 32


def run(ctx):
    prog = ctx.prog
    # ---- R1 ---------------------------------------------------------------------------------------------
    n_match = 0
    for f, b, t in prog.all_calls():
        c = t.callee or ""
        if c.startswith("onig::Regex::") and R in f.path:
            n = t.j.get("callee_name")
            if n in ("new", "with_options", "with_options_and_encoding", "with_encoding"):
                continue
            n_match += 1
            ctx.ob("R1", "match-api:%s@%s" % (n, prim.short(f.path)), n == "match_with_param",
                   "-regex matching calls onig::Regex::%s in %s; oracle match_with_param, the entry point that returns a match failure (retry-limit-in-match over on a pathological pattern) as Err — is_match/match_with_options/find/captures/search panic on it (contract O3) — and whose Ok(Some(n)) is the byte length matched from the start (contract O2)" % (n, f.path), fn=f, where=prim.site(f, b), how="who-may-call")
    ctx.floor("R1", "onig match calls in regex.rs", n_match, 1)
    mf = ctx.fn("R1", C.matcher_impl(R + "RegexMatcher", "matches"))
    if mf is not None:
        o = prim.expand_single_def_vars(mf, prim.origin_of_local(mf, 0)).strip()
        alts = [a.strip() for a in prim.flatten_phi(o)]
        eqs = [a for a in alts if a.k == "call" and a.a["name"] == "eq"]
        rest = [a for a in alts if a not in eqs]
        ok = len(eqs) == 1 and all(a.k == "const" and a.a.get("v") in (False, 0) for a in rest)
        desc = o.fmt()[:500]
        if ok:
            mcalls = [c for c in eqs[0].call_nodes() if c.a["callee"] == "onig::Regex::match_with_param"]
            ok = len(mcalls) == 1
        if ok:
            mc = mcalls[0]
            recv, subj, at, opts, region = [k for k in mc.kids[:5]]
            recv = recv.strip()
            path_ok = lambda x: not c07.non_identity(x) and [c.a["callee"] for c in x.call_nodes() if c.a["callee"].startswith(M)] == [E + "WalkEntry::path"]
            ok = recv.k == "field" and recv.a == "regex" and path_ok(subj)
            ok = ok and at.strip().k == "const" and at.strip().a.get("v") == 0 and opts.strip().k == "const" and opts.strip().a.get("v") == 0
            ok = ok and region.strip().k == "agg" and str(region.strip().a).endswith("None")
            # the verdict on success: Ok payload == Some(byte length of the same text)
            l, r = [k.strip() for k in eqs[0].kids]
            def is_payload(x):
                return any(y.k == "variant" and str(y.a) == "Ok" for y in x.walk()) and any(c is mc for c in x.call_nodes()) and not any(c.a["name"] not in ("match_with_param", "as_ref", "to_string_lossy", "path", "default", "deref") for c in x.call_nodes())
            def is_len(x):
                names = [c.a["name"] for c in x.call_nodes()]
                return x.k == "agg" and str(x.a).endswith("Some") and names[:1] == ["len"] and path_ok(x.kids[0].strip().kids[0]) and not any(y.k == "bin" for y in x.walk())
            ok = ok and ((is_payload(l) and is_len(r)) or (is_payload(r) and is_len(l)))
        ctx.ob("R1", "verdict=whole-path-match", ok, "RegexMatcher::matches = %s; oracle: match_with_param(self.regex, entry.path() as text, at 0, no options, no region) == Ok(Some(text.len())), false otherwise — the path -print prints, matched from its first to its last byte" % desc, fn=mf, how="provenance slice + allow-list")
        # a failed match is diagnosed: stderr + exit status, entry not matched
        def role(t):
            if t.callee == "onig::Regex::match_with_param":
                return "match"
            if t.callee == "std::io::_eprint":
                return "diag"
            if (t.callee or "").endswith("MatcherIO::<'_>::set_exit_code") or t.j.get("callee_name") == "set_exit_code":
                return "status"
            return None
        g = C.G(prim.event_graph(mf, role))
        ms = g.nodes("match")
        ok = len(ms) == 1
        if ok:
            err = g.succ(ms[0], "1")
            ok = bool(err) and all(C.base(x) == "diag" for x in err) and all(C.base(y) == "status" for x in err for y in g.succ(x)) and all(str(z) == "RET(const:False)" for x in err for y in g.succ(x) for z in g.succ(y))
            okb = g.succ(ms[0], "0")
            ok = ok and bool(okb) and all(str(x).startswith("RET(") for x in okb)
        ctx.ob("R1", "match-failure-diagnosed", ok, "when the match fails (Err) the entry is reported on stderr, the exit status set, and the verdict false; a successful match has no side effect; events: %s" % g.fmt()[:400], fn=mf, how="event graph")
        for b, t in mf.calls():
            if t.j.get("callee_name") == "set_exit_code":
                v = prim.origin_of_operand(mf, t.args[1]).strip()
                ctx.ob("R1", "failure-status-nonzero", v.k == "const" and v.a.get("v") not in (0, None), "set_exit_code(%s)" % v.fmt(), fn=mf, where=prim.site(mf, b), how="constant operand", nontrivial=False)
    # ---- R2 / R3 compile --------------------------------------------------------------------------------------
    nf = ctx.fn("R2", R + "RegexMatcher::new")
    if nf is not None:
        wo = [(b, t) for b, t in nf.calls() if (t.callee or "").startswith("onig::Regex::with_options") or (t.callee or "").startswith("onig::Regex::new")]
        # two compilations: the user's pattern as it is in the selected syntax (validation; its failure is the function's
        # failure), then the whole-path form that becomes the matcher's regex
        stored = None
        stored_all = []
        for b0 in nf.reachable():
            for st in nf.blocks[b0].stmts:
                if st.rv is not None and st.rv.k == "agg" and st.rv.j.get("adt") == R + "RegexMatcher":
                    stored = prim.origin_of_operand(nf, st.rv.ops[st.rv.j["fields"].index("regex")])
                    stored_all.append((b0, stored))
        raw_sites, anch_sites = [], []
        for b0, t0 in wo:
            po0 = prim.expand_single_def_vars(nf, prim.origin_of_operand(nf, t0.args[0])).strip()
            (raw_sites if po0.k == "arg" and po0.a["name"] == "pattern" else anch_sites).append((b0, t0))
        ok_sites = all(t0.j.get("callee_name") == "with_options" for _, t0 in wo) and len(anch_sites) == 1 and len(raw_sites) <= 1
        if ok_sites and raw_sites:
            rb, rt = raw_sites[0]
            nxt = nf.blocks[rt.target].term if rt.target is not None else None
            ok_sites = nxt is not None and nxt.k == "call" and nxt.j.get("callee_name") == "branch" and nf.dominates(rb, anch_sites[0][0])
        if ok_sites:
            # every place that builds the matcher stores the derived compile (not, on some path, the operand as written)
            ok_sites = bool(stored_all) and all(any(c.a.get("bb") == anch_sites[0][0] and c.a["name"] == "with_options" for c in so_.call_nodes()) for _, so_ in stored_all)
        SH.regex_validated_as_written(ctx, "R2")
        ctx.ob("R2", "compile-site", ok_sites, "RegexMatcher::new compiles at %d site(s) (%s: %d on the raw pattern, %d on a derived one); oracle: with_options only (Regex::new would ignore the syntax): optionally the raw pattern first, `?`-propagated, then exactly one derived pattern whose result is stored as the matcher's regex" % (len(wo), [t.j.get("callee_name") for _, t in wo], len(raw_sites), len(anch_sites)), fn=nf, how="call sites + provenance")
        if len(anch_sites) == 1:
            b, t = anch_sites[0]
            # the derived pattern: per syntax, a non-capturing group around the user's pattern and the end-of-buffer anchor
            al = t.args[0].place.local if t.args[0].place is not None else None
            po = prim.expand_single_def_vars(nf, prim.origin_of_operand(nf, t.args[0]))
            adtv = prog.adts.get(R + "RegexType")
            vnames = {v["idx"]: v["name"] for v in adtv["variants"]} if adtv else {}
            got = {}
            subj_by_variant = {}
            subj_all = True
            for fc in fmtlit.all_format_calls(nf):
                if fc is None:
                    continue
                facts_ = [(var, holds) for adt_, var, holds, subj, gd in prim.variant_facts(nf, fc.bb, prog) if adt_.endswith("regex::RegexType")]
                pos = [v for v, h in facts_ if h]
                neg = [v for v, h in facts_ if not h]
                vs = pos if pos else [v for v in vnames.values() if v not in neg]
                ph = fc.placeholders()
                subj_ok = len(ph) == 1 and ph[0]["plain"] and fc.args[ph[0]["index"]][1] is not None and any(x.k == "arg" and x.a["name"] == "pattern" for x in fc.args[ph[0]["index"]][1].walk())
                subj_all = subj_all and subj_ok
                for v in vs:
                    got[v] = fc.shape() if v not in got else "<ambiguous>"
                    subj_by_variant[v] = fc.args[ph[0]["index"]][1] if subj_ok else None
            oracle = {"PosixExtended": "(?:{0})\\'", "Emacs": "\\(?:{0}\\)\\'", "Grep": "\\(?:{0}\\)\\'", "PosixBasic": "\\(?:{0}\\)\\'"}
            anchored = all(got.get(v) == oracle[v] for v in oracle) and subj_all and po.strip().k != "arg"
            ctx.ob("R2", "end-anchor-inside-pattern", anchored,
                   "the pattern handed to onig for matching is built as %s (operand %s); oracle %s: onig's match at position 0 returns the first alternative that succeeds and the verdict merely checks that this one result spans the text, so `-regextype posix-extended -regex 'r/(a|ab)'` would reject r/ab although it is in the language — the end-of-text requirement must be part of the compiled pattern: a non-capturing group in the syntax's own spelling (back-references keep their numbers) + the end-of-buffer anchor" % (got, po.fmt()[:120], oracle),
                   fn=nf, where=prim.site(nf, b), how="decoded format templates per RegexType arm (contract O1)")
            # contract O4: of the four syntaxes only posix-extended lets a ')' without an open group stand for itself
            # (ONIG_SYN_ALLOW_UNMATCHED_CLOSE_SUBEXP); there the user's text could close the wrapper's own group
            for v in ("PosixExtended",):
                so = subj_by_variant.get(v)
                okc, whyc = False, "no substituted operand found for this variant"
                if so is not None:
                    helpers = [cn for cn in so.call_nodes() if cn.a["callee"].startswith("findutils::") and any(x.k == "arg" and x.a["name"] == "pattern" for x in cn.walk())]
                    if not helpers:
                        whyc = "the raw pattern is substituted (%s)" % so.fmt()[:80]
                    else:
                        hf = prog.fns.get(helpers[0].a["callee"]) or prog.fns.get("findutils::" + helpers[0].a["callee"].split("findutils::", 1)[1])
                        okc, whyc = _escapes_unmatched_close(prog, hf) if hf is not None else (False, "helper %s not found" % helpers[0].a["callee"])
                ctx.ob("R2", "wrapper-group-not-closable:%s" % v, okc,
                       "under %s a ')' that closes nothing is an ordinary character (and passes the validation of the raw pattern), but inside the wrapper `(?:...)` it would close the wrapper's group — `-regex 'w/a)b'` would then match w/ab) instead of w/a)b; "
                       "the substituted text must have every such ')' escaped: %s" % (v, whyc), fn=nf, where=prim.site(nf, b), how="substituted operand per RegexType arm + structure of the escaping helper (contract O4)")
            # the syntax of the derived compile: a copy of the selected syntax with exactly the two operators the wrapper needs
            en = [(b2, t2) for b2, t2 in nf.calls() if (t2.callee or "").startswith("onig::Syntax::enable_operators") or (t2.callee or "").startswith("onig::Syntax::set_operators") or (t2.callee or "").startswith("onig::Syntax::disable_operators") or (t2.callee or "").startswith("onig::Syntax::set_options") or (t2.callee or "").startswith("onig::Syntax::enable_behavior") or (t2.callee or "").startswith("onig::Syntax::set_behavior") or (t2.callee or "").startswith("onig::Syntax::set_meta_char")]
            okops = len(en) == 1 and en[0][1].j.get("callee_name") == "enable_operators"
            bits = None
            if okops:
                vo = prim.origin_of_operand(nf, en[0][1].args[1])
                cs = [c.get("v") for c in vo.consts() if isinstance(c.get("v"), int)]
                bits = 0
                for c in cs:
                    bits |= c
                okops = bits == (QMARK_GROUP_EFFECT | ESC_GNU_BUF_ANCHOR) and all(c_.a["name"] == "bitor" for c_ in vo.call_nodes()) and nf.dominates(en[0][0], b)
            ctx.ob("R2", "wrapper-operators", okops, "the syntax used for the derived pattern is modified by %s (operator bits %s); oracle: exactly enable_operators(QMARK_GROUP_EFFECT | ESC_GNU_BUF_ANCHOR) before the compile — what `(?:` and `\\'` need and nothing else (every other operator/behaviour/option of the selected syntax unchanged)" % ([t2.j.get("callee_name") for _, t2 in en], hex(bits) if bits is not None else None), fn=nf, where=prim.site(nf, b), how="call sites + constant operand")
            # options: IGNORECASE iff ignore_case
            oo = prim.origin_of_operand(nf, t.args[1])
            opts = {}
            l = t.args[1].place.local if t.args[1].place is not None else None
            for bb, o in prim.alternatives(nf, l) if l is not None else []:
                txt = " ".join(str(c.get("text", "")) for c in o.consts())
                flag = None
                for gd in prim.dominating_guards(nf, bb):
                    pr = prim.expand_single_def_vars(nf, gd["pred"]).strip()
                    if pr.k == "arg" and pr.a["name"] == "ignore_case":
                        flag = gd["bool"]
                for nm in ("REGEX_OPTION_IGNORECASE", "REGEX_OPTION_NONE"):
                    if nm in txt:
                        opts[flag] = nm
            ctx.ob("R3", "case-flag", opts == {True: "REGEX_OPTION_IGNORECASE", False: "REGEX_OPTION_NONE"}, "compile options per ignore_case: %s; oracle true->IGNORECASE, false->NONE" % opts, fn=nf, where=prim.site(nf, b), how="local writers + dominating guard")
            # syntax table
            adt = prog.adts.get(R + "RegexType")
            vn = {v["idx"]: v["name"] for v in adt["variants"]} if adt else {}
            sw = [x for x in nf.reachable() if nf.blocks[x].term.k == "switch" and (prim.discr_type_of_switch(nf, x) or "").endswith("regex::RegexType")]
            got = {}
            sw = [x for x in sw if any(nf.blocks[tg].term.k == "call" and (nf.blocks[tg].term.callee or "").startswith("onig::Syntax::") for _, tg in prim.switch_edges(nf, x))]
            if len(sw) == 1:
                for lab, tgt in prim.switch_edges(nf, sw[0]):
                    if lab == "else":
                        continue
                    tt = nf.blocks[tgt].term
                    got[vn.get(lab, lab)] = tt.j.get("callee_name") if tt.k == "call" and (tt.callee or "").startswith("onig::Syntax::") else None
            ctx.ob("R3", "syntax-table", got == SYNTAX, "RegexType -> onig syntax: %s; oracle %s (each selectable type has its own dialect)" % (got, SYNTAX), fn=nf, how="variant dispatch table")
            so = prim.expand_single_def_vars(nf, prim.origin_of_operand(nf, t.args[2]))
            ctx.ob("R3", "syntax-reaches-compile", any(c.a["callee"].startswith("onig::Syntax::") for c in so.call_nodes()) or so.strip().k in ("var", "phi"), "with_options receives syntax %s" % so.fmt()[:120], fn=nf, where=prim.site(nf, b), how="provenance slice", nontrivial=False)
    fs = ctx.fn("R3", "<%sRegexType as std::str::FromStr>::from_str" % R)
    if fs is not None:
        ds = dispatch.find_dispatches(fs)
        rows = {}
        rej = False
        if ds:
            d = ds[0]
            for lit, bb in d.lit_arm.items():
                reg = [x for x in fs.reach_from([bb]) if fs.dominates(bb, x)]
                vs = set()
                for x in reg:
                    for s in fs.blocks[x].stmts:
                        if s.rv is not None and s.rv.k == "agg" and s.rv.j.get("adt") == R + "RegexType":
                            vs.add(s.rv.j.get("variant"))
                rows[lit] = sorted(vs)
            db = d.tests[-1]["false_bb"]
            reg = [x for x in fs.reach_from([db]) if fs.dominates(db, x)]
            rej = any(s.rv is not None and s.rv.k == "agg" and s.rv.j.get("adt") == "std::result::Result" and s.rv.j.get("variant") == "Err" for x in reg for s in fs.blocks[x].stmts) and not any(s.rv is not None and s.rv.k == "agg" and s.rv.j.get("adt") == R + "RegexType" for x in reg for s in fs.blocks[x].stmts)
        for name, want in NAMES.items():
            ctx.ob("R3", "regextype:%s" % name, rows.get(name) == [want], "-regextype %s selects %s; oracle %s" % (name, rows.get(name), want), fn=fs, how="string dispatch table")
        ctx.ob("R3", "regextype-unknown=>error", rej, "an unknown -regextype name must be rejected", fn=fs, how="string dispatch table")
        extra = sorted(set(rows) - set(NAMES))
        ctx.ob("R3", "regextype-no-extra-names", not extra, "additional -regextype names %s (not in the documented set)" % extra, fn=fs, how="string dispatch table", nontrivial=False)
    df = ctx.fn("R3", "<%sRegexType as std::default::Default>::default" % R)
    if df is not None:
        o = prim.origin_of_local(df, 0).strip()
        ctx.ob("R3", "default=emacs", o.k == "agg" and str(o.a).endswith("RegexType::Emacs"), "default regex type %s; oracle Emacs" % o.fmt(), fn=df, how="constant")
    # ---- R4 positional state --------------------------------------------------------------------------------------
    fn, d, arms, info = C.parser_arms(ctx, "R4")
    if arms:
        places = {}
        for tok, ic in (("-regex", False), ("-iregex", True)):
            a = dispatch.arm_of(arms, tok)
            if a is None:
                ctx.ob("R4", "token:%s" % tok, False, "%s not recognised" % tok, fn=fn)
                continue
            cs = a.calls_matching(R + "RegexMatcher::new")
            ok = len(cs) == 1
            if ok:
                b, t = cs[0]
                ico = C.token_predicate(fn, a, prim.origin_of_operand(fn, t.args[2]), b, tok)
                po = prim.origin_of_operand(fn, t.args[1]).strip()
                ctx.ob("R3", "token-case:%s" % tok, ico is ic and C.arm_token_abs(fn, a, po, b) == 1, "%s compiles %s with ignore_case=%s; oracle the operand token, ignore_case=%s" % (tok, po.fmt(), ico, ic), fn=fn, where=prim.site(fn, b), how="dispatch table")
                to = prim.origin_of_operand(fn, t.args[0])
                shared = _shared_place(to)
                places[tok] = (to.fmt(), shared)
                ctx.ob("R4", "type-read-from-shared-state:%s" % tok, shared is not None,
                       "%s reads the regex type from %s: a variable created afresh by every (recursive) call of the expression parser, so a -regextype given before a parenthesis does not reach a -regex inside it (and one given inside does not reach what follows) — the state must be reached through a parameter (a &mut argument or a field of the shared Config)" % (tok, to.fmt()),
                       fn=fn, where=prim.site(fn, b), how="provenance slice (storage class of the read)")
        a = dispatch.arm_of(arms, "-regextype")
        if a is None:
            ctx.ob("R4", "token:-regextype", False, "-regextype not recognised", fn=fn)
        else:
            cs = a.calls_matching("regex::RegexType as std::str::FromStr>::from_str", "RegexType::from_str")
            ctx.ob("R4", "regextype-parsed", len(cs) == 1, "-regextype must parse its operand with RegexType::from_str (%d sites)" % len(cs), fn=fn, where=prim.site(fn, a.entry), how="dispatch table")
            # where is the result stored?
            stores = []
            for b in sorted(a.blocks):
                for s in fn.blocks[b].stmts:
                    if s.lhs is not None and s.rv is not None:
                        ty = prim.place_type(fn, s.lhs) or ""
                        if ty.endswith("regex::RegexType"):
                            o = prim._origin_of_def(fn, (b, "assign", s), 8, set())
                            if any(c.a["name"] == "from_str" for c in o.call_nodes()):
                                stores.append((s.lhs, b, s))
            stores = [x for x in stores if x[0].proj] or [x for x in stores if fn.local_name(x[0].local) not in (None, "val", "residual")]
            ok = len(stores) == 1
            desc = [pl.fmt(fn) for pl, _, _ in stores]
            shared_w = None
            if ok:
                pl = stores[0][0]
                base_is_arg = 1 <= pl.local <= fn.arg_count and bool(pl.proj)
                shared_w = (pl.local, tuple(pl.field_names())) if base_is_arg else None
            ctx.ob("R4", "type-written-to-shared-state", ok and shared_w is not None,
                   "-regextype stores the selected type in %s; it must be storage reached through a parameter (shared by all recursion levels)" % desc, fn=fn, where=prim.site(fn, a.entry), how="field/deref writers (storage class of the write)")
            rd = {v[1] for v in places.values()}
            ctx.ob("R4", "same-storage-read-and-written", shared_w is not None and rd == {shared_w}, "written place %s, read places %s; must be the same storage" % (shared_w, sorted(map(str, rd))), fn=fn, how="place comparison")
        # the recursive call forwards that parameter unchanged
        a = dispatch.arm_of(arms, "(")
        if a is not None:
            rec = [(b, t) for b, t in a.calls if t.callee == fn.path]
            okf = len(rec) == 1
            if okf:
                t = rec[0][1]
                fw = []
                for i, x in enumerate(t.args):
                    o = prim.origin_of_operand(fn, x).strip()
                    if o.k == "arg" and o.a["idx"] == i + 1:
                        fw.append(i + 1)
                need = {p[1][0] for p in places.values() if p[1] is not None}
                okf = bool(need) and need <= set(fw)
            ctx.ob("R4", "state-forwarded-into-parentheses", okf, "the recursive call for '(' must hand down the parameter that carries the regex type", fn=fn, where=prim.site(fn, a.entry), how="provenance slice")
    bt = ctx.fn("R4", C.BTLM)
    if bt is not None and arms:
        # the top-level call provides the initial (default) type
        calls = [(b, t) for b, t in bt.calls() if t.callee == C.BMT]
        ok = len(calls) == 1
        if ok and len(calls[0][1].args) > 4:
            o = prim.expand_single_def_vars(bt, prim.origin_of_operand(bt, calls[0][1].args[4]))
            ok = any(c.a["name"] == "default" for c in o.call_nodes()) or any(str(x.a).endswith("RegexType::Emacs") for x in o.walk() if x.k == "agg")
            ctx.ob("R4", "initial-type=default", ok, "the expression parser starts with regex type %s; oracle: the default (emacs)" % o.fmt(), fn=bt, how="provenance slice")


def _shared_place(o):
    """(arg index, field names) when the value is read through a parameter (deref of a &mut arg / field of an arg), else None"""
    s = o
    fields = []
    while s.k in ("ref", "deref", "field") and s.kids:
        if s.k == "field":
            fields.append(str(s.a))
        s = s.kids[0]
    if s.k == "arg" and (o.k == "deref" or fields or any(x.k == "deref" for x in o.walk())):
        return (s.a["idx"], tuple(reversed(fields)))
    return None


def _escapes_unmatched_close(prog, hf):
    """the helper copies its input and writes an escaped ')' exactly where the character is ')' and the count of open groups is
    zero; the count goes up by one per '(' and down by one per other ')'"""
    lit_sites = []
    for b, t in hf.calls():
        if t.j.get("callee_name") in ("push_str", "push") and len(t.args) == 2:
            o = prim.origin_of_operand(hf, t.args[1]).strip()
            if o.k == "const" and o.a.get("v") == "\\)":
                lit_sites.append(b)
            elif o.k == "const" and o.a.get("k") in ("str", "char"):
                return False, "the helper writes the constant %r" % (o.a.get("v"),)
    if len(lit_sites) != 1:
        return False, "expected one site writing the escaped parenthesis, found %d" % len(lit_sites)
    atoms = prim.norm_guards(prim.dominating_guards(hf, lit_sites[0]))
    is_close = lambda x: x.strip().k == "const" and x.strip().a.get("v") in (")", 41)
    is_zero = lambda x: x.strip().k == "const" and x.strip().a.get("v") == 0
    anyo = lambda x: True
    at_c = prim.atom_holds(atoms, "eq", anyo, is_close)
    at_z = prim.atom_holds(atoms, "eq", lambda x: x.strip().k == "var", is_zero) or \
        prim.atom_holds(atoms, "lt", lambda x: x.strip().k == "var", lambda x: x.strip().k == "const" and x.strip().a.get("v") == 1)
    if at_c is None or at_z is None:
        return False, "the escaped ')' is written under %s; oracle: character == ')' and open-group count == 0" % prim.guards_fmt(prim.dominating_guards(hf, lit_sites[0]))[:200]
    cnt = (at_z["a"] if at_z["a"].strip().k == "var" else at_z["b"]).strip().a.get("local")
    ups, downs = [], []
    for bb, kind, obj in prim.local_defs(hf).get(cnt, []):
        if kind != "assign" or bb not in hf.reachable():
            continue
        o = prim._origin_of_def(hf, (bb, kind, obj), 6, set()).strip()
        core = o.kids[0].strip() if o.k == "field" and o.kids else o
        if core.k == "const":
            if core.a.get("v") != 0:
                return False, "the count starts at %r" % core.a.get("v")
            continue
        if core.k == "variant" and core.kids and (lambda cs: cs.k == "call" and cs.a["name"] == "checked_sub" and [x.get("v") for x in cs.consts()] == [1])(core.kids[0].strip()):
            # `cnt = cnt.checked_sub(1)` taken on its Some side: a decrement that cannot wrap
            cs_ = core.kids[0].strip()
            core = prim.Origin("bin", "Sub", cs_.kids, core.bb)
        if core.k == "bin" and [x.get("v") for x in core.consts()] == [1]:
            ats = prim.norm_guards(prim.dominating_guards(hf, bb))
            lits = [a_["b"].strip().a.get("v") for a_ in ats if a_["rel"] == "eq" and a_["b"].strip().k == "const" and a_["b"].strip().a.get("k") in ("char", "int") and isinstance(a_["b"].strip().a.get("v"), (str, int)) and a_["a"].fmt() == (at_c["a"] if not is_close(at_c["a"]) else at_c["b"]).fmt()]
            if core.a in ("Add", "AddWithOverflow"):
                ups.append(lits)
            elif core.a in ("Sub", "SubWithOverflow"):
                downs.append(lits)
            else:
                return False, "the count is updated by %s" % core.fmt()
        else:
            return False, "the count is updated by %s" % core.fmt()[:80]
    okk = len(ups) == 1 and len(downs) == 1 and any(v in ("(", 40) for v in ups[0]) and any(v in (")", 41) for v in downs[0])
    return okk, "escaped ')' written under [char == ')' and count == 0]; count +1 under %s, -1 under %s" % (ups, downs)
