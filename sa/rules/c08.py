"""C08 — find -exec ... {} +: each path delivered once, in order, within OS limits; pending batches always run."""
import itertools

from .. import prim
from . import common as C
from . import shared

M = C.M
LM = M + "logical_matchers::"
MULTI = M + "exec::MultiExecMatcher"
META = {
    "explanation": "R1 lifecycle forwarding: every impl Matcher whose type owns sub-matchers overrides finished_dir and finished and forwards them, with the same arguments, to all children (forward loop without early exit); "
                   "R2 flush on every exit of the walk: every path of process_dir to its return (end of walk, -quit) passes finished_dir for the last directory and finished, the MatcherIO given to any lifecycle call has its exit code read afterwards and folded (sticky) into the status; the in-loop finished_dir precedes the evaluation of the entry that left the directory and takes the previous parent; "
                   "R3 batch discipline of MultiExecMatcher::matches: paths enter a batch only through argmax::Command::try_arg; on refusal: dispatch, fresh command (executable + fixed arguments through try_args), the same path re-offered, a second refusal is diagnosed with a non-zero exit code; every return is `true`; run_command turns failure and spawn error into a non-zero exit code; "
                   "R4 dispatch table (execdir flag x pending batch) of finished_dir/finished simulated on all assignments, batch taken (never run twice), -execdir runs in ./<dir> and names entries ./<basename>; "
                   "R5 recognition: the `+` form is built only under exactly one `{}` among the arguments, the fixed arguments exclude the trailing `{}`, execdir flavour from the token",
    "decides": "that a pending batch cannot be forgotten (below !, -o, ',' or parentheses; at end of walk; after -quit), that no path is dropped or duplicated by the flush-and-retry code, that every failure reaches find's exit status, and which working directory/path form -execdir uses",
    "does_not_decide": "argmax's size arithmetic (trusted, contract A1); std::process fidelity; walkdir's visit order",
}


def owner_types(prog):
    """impl Matcher self types that own sub-matchers: {self_ty: [(field, 'vec'|'box')]} (+ Box<dyn Matcher> itself)"""
    out = {}
    for imp in prog.impls_of_trait(C.MATCHER_TRAIT):
        ty = imp["self_ty"]
        adt = prog.adts.get(imp.get("self_adt") or ty)
        if adt is None:
            if "dyn " + C.MATCHER_TRAIT in ty:
                out[ty] = [("*", "box")]
            continue
        fl = []
        for v in adt["variants"]:
            for f in v["fields"]:
                if "dyn " + C.MATCHER_TRAIT in f["ty"]:
                    fl.append((f["name"], "vec" if "Vec<" in f["ty"] else "box"))
        if fl:
            out[ty] = fl
    return out


def run(ctx):
    prog = ctx.prog
    # ---- R1 lifecycle forwarding ---------------------------------------------------------------------
    owners = owner_types(prog)
    ctx.floor("R1", "Matcher impls owning sub-matchers", len(owners), 5)
    impl_items = {imp["self_ty"]: {it["name"]: it["def"] for it in imp["items"]} for imp in prog.impls_of_trait(C.MATCHER_TRAIT)}
    for ty, fields in sorted(owners.items()):
        short = ty.split("::")[-1].split("<")[0] if "dyn" not in ty else "Box<dyn Matcher>"
        for meth in ("finished_dir", "finished"):
            d = impl_items.get(ty, {}).get(meth)
            f = prog.fns.get(d) if d else None
            if f is None:
                ctx.ob("R1", "overrides:%s::%s" % (short, meth), False,
                       "%s owns sub-matchers (%s) but inherits the no-op %s: a pending `-exec ... {} +` batch below it is never run" % (ty, [x[0] for x in fields], meth), how="impl item list")
                continue
            ctx.analysed_fns.add(f.path)
            ctx.ob("R1", "overrides:%s::%s" % (short, meth), True, "%s overrides %s" % (short, meth), fn=f, how="impl item list", nontrivial=False)
            def role(t, meth=meth):
                n = t.j.get("callee_name")
                c = t.callee or ""
                if n == meth and (c == C.MATCHER_TRAIT + "::" + meth or (t.j.get("callee_trait") == C.MATCHER_TRAIT) or C.MATCHER_TRAIT in (t.j.get("callee_inst") or "")):
                    return "child"
                if n == "into_iter" or n == "iter":
                    return "iter"
                if n == "next" and "Iterator" in (t.j.get("callee_inst") or ""):
                    return "next"
                return None
            g = C.G(prim.event_graph(f, role))
            kinds = {k for _, k in fields}
            if kinds == {"vec"}:
                want = [("ENTRY", "", "iter"), ("child", "", "next"), ("iter", "", "next"), ("next", "0", "RET(const:())"), ("next", "1", "child")]
            else:
                want = [("ENTRY", "", "child"), ("child", "", "RET(const:())")]
            extra, missing = C.diff_edges(g.edges, want)
            ctx.ob("R1", "forwards-to-all:%s::%s" % (short, meth), not extra and not missing,
                   "%s::%s must forward to every child and do nothing else; unexpected events %s, missing %s" % (short, meth, C.edges_str(extra), C.edges_str(missing)), fn=f, how="event graph == oracle")
            for b, t in f.calls():
                r = role(t)
                if r == "child":
                    rest = [prim.origin_of_operand(f, a).strip() for a in t.args[1:]]
                    ok = all(o.k == "arg" for o in rest) and [o.a["idx"] for o in rest if o.k == "arg"] == list(range(2, 2 + len(rest)))
                    recv = prim.origin_of_operand(f, t.args[0])
                    okr = any(x.k == "field" and x.a in [n for n, _ in fields] for x in recv.walk()) or any(c.endswith("::next") for c in recv.callees()) or (fields == [("*", "box")] and any(x.k == "arg" for x in recv.walk()))
                    ctx.ob("R1", "forward-args:%s::%s" % (short, meth), ok and okr, "child call receives (%s) on %s; must pass its own arguments through to its own children" % (", ".join(o.fmt() for o in rest), recv.fmt()), fn=f, where=prim.site(f, b), how="provenance slice")
                if r == "iter":
                    o = prim.origin_of_operand(f, t.args[0]).strip()
                    while o.k == "call" and o.a["name"] in ("deref", "as_slice", "as_ref", "borrow") and o.kids:
                        o = o.kids[0].strip()            # the Vec handed on as a slice (to a shared helper)
                    ctx.ob("R1", "iterates-own-children:%s::%s" % (short, meth), o.k == "field" and o.a in [n for n, _ in fields], "iterates %s" % o.fmt(), fn=f, where=prim.site(f, b), how="provenance slice", nontrivial=False)

    # ---- R2 flush on every exit of the walk -------------------------------------------------------------
    pf, g = C.walk_graph(ctx, "R2")
    if pf is not None:
        gg = C.G(g)
        rets = [n for n in set(b for _, _, b in gg.edges) if n.startswith("RET(")]
        fin = gg.nodes("finished")
        # every path ENTRY -> RET passes `finished`
        reach_wo = {"ENTRY"} | gg.reach(["ENTRY"], stop_roles=("finished",))
        ctx.ob("R2", "finished-on-every-exit", bool(fin) and not [r for r in rets if r in reach_wo],
               "every path of process_dir to its return must call Matcher::finished (pending `{} +` batches run before find exits, also after -quit); events: %s" % gg.fmt(), fn=pf, how="must-pass on the event graph")
        # loop exits: end of iteration and the -quit break
        exits = []
        for n in gg.nodes("next"):
            # the walker is exhausted; an entry held back for -depth (deferred slot) may still be fetched and evaluated first
            exits += [(n, b) for l, b in gg.out.get(n, []) if l.split(",")[0] != "1" and C.base(b) != "deferred_take"]
        for n in gg.nodes("deferred_take"):
            exits += [(n, b) for l, b in gg.out.get(n, []) if l.split(",")[0] == "0"]
        for n in gg.nodes("should_quit"):
            exits += [(n, b) for l, b in gg.out.get(n, []) if l.split(",")[0] == "else"]
        ctx.floor("R2", "loop exits of the walk (end of iteration, -quit)", len(exits), 2)
        post_fd = set()
        for src, b in exits:
            # from the exit: [io_new] -> {finished_dir -> finished | finished}
            seen = {b} | gg.reach([b], stop_roles=("finished", "next"))
            fds = [x for x in seen if C.base(x) == "finished_dir"]
            post_fd.update(fds)
            ok = bool(fds) and not any(C.base(x) in ("matches", "next") for x in seen)
            ctx.ob("R2", "last-directory-flushed:%s" % C.base(src), ok, "after the walk loop ends (%s) the last directory must be reported with finished_dir before finished, and no entry is evaluated any more; events reached: %s" % (src, sorted(seen)), fn=pf, how="event graph")
        for n in post_fd:
            ctx.ob("R2", "finished_dir-before-finished", all(C.base(x) == "finished" for x in gg.succ(n)), "the final finished_dir must be followed directly by finished; successors %s" % gg.succ(n), fn=pf, how="event graph")
        # in-loop finished_dir precedes matches of the same iteration
        loop_fd = [n for n in gg.nodes("finished_dir") if n not in post_fd]
        ctx.ob("R2", "in-loop-finished_dir", len(loop_fd) == 1 and all(C.base(x) == "matches" for x in gg.succ(loop_fd[0])),
               "leaving a directory must be reported inside the loop before the entry that left it is evaluated; in-loop finished_dir nodes %s successors %s" % (loop_fd, [gg.succ(n) for n in loop_fd]), fn=pf, how="event graph")
        # dir operands: the previous parent (Option::take of current_dir), guard: parent differs
        cur = C.find_local(pf, "current_dir", ty="std::option::Option<std::path::PathBuf>",
                           pred=lambda fn_, l_: any(tt.j.get("callee_name") == "take" and tt.args and prim.user_local_behind(fn_, tt.args[0]) == l_ for _, tt in fn_.calls()))
        for b, t in pf.calls():
            r = C.walk_role(t)
            if r == "finished_dir":
                o = prim.origin_of_operand(pf, t.args[1])
                takes = [c for c in o.call_nodes() if c.a["name"] == "take"]
                okd = bool(takes) and bool(cur) and any(prim.user_local_behind(pf, c.a["term"].args[0]) == cur[0] for c in takes)
                allowed = ("take", "as_path", "deref", "as_ref", "borrow")
                nxt_ = [x for x, tt in pf.calls() if C.walk_role(tt) == "next"]
                if not okd and bool(cur) and not (set(nxt_) & pf.reach_from([b])):
                    # after the walk the remembered directory may simply be read (`current_dir.as_deref()`): nothing follows
                    reads = [c for c in o.call_nodes() if c.a["name"] in ("as_deref", "as_ref", "clone")]
                    okd = bool(reads) and any(prim.user_local_behind(pf, c.a["term"].args[0]) == cur[0] for c in reads)
                    allowed = allowed + ("as_deref", "clone")
                bad = [c.a["name"] for c in o.call_nodes() if c.a["name"] not in allowed]
                ctx.ob("R2", "finished_dir-operand", okd and not bad, "finished_dir is told %s; must be the remembered parent directory (current_dir.take()) unchanged" % o.fmt(), fn=pf, where=prim.site(pf, b), how="provenance slice")
        if cur:
            defs = [d for d in prim.local_defs(pf).get(cur[0], []) if d[0] in pf.reachable() and d[1] != "partial"]
            vals = []
            for d in defs:
                o = prim._origin_of_def(pf, d, 10, {cur[0]})
                if o.strip().k == "agg" and str(o.strip().a).endswith("Option::None"):
                    vals.append("None")
                elif any(c.a["name"] == "parent" for c in o.call_nodes()) and any(c.a["callee"].endswith("WalkEntry::path") for c in o.call_nodes()):
                    bad = [c.a["name"] for c in o.call_nodes() if c.a["name"] not in ("parent", "path", "map", "to_path_buf", "to_owned", "into", "from", "from_walkdir", "next")]
                    vals.append("parent" if not bad else "parent+" + ",".join(bad))
                else:
                    vals.append("other:" + o.fmt())
            ctx.ob("R2", "current_dir-writers", sorted(vals) == ["None", "parent"], "current_dir is assigned %s; oracle: None initially and the entry's path().parent() when it changes" % vals, fn=pf, how="local writers")
            # the comparison guarding the in-loop flush
            for b, t in pf.calls():
                if C.walk_role(t) == "finished_dir" and any(b in pf.reach_from([nb]) and nb in pf.reach_from([b]) for nb, tt in pf.calls() if C.walk_role(tt) == "next"):
                    gs = prim.dominating_guards(pf, b)
                    ok = False
                    for gd in gs:
                        pr = gd["pred"].strip()
                        if pr.k == "call" and pr.a["name"] in ("ne", "eq"):
                            eff_ne = (pr.a["name"] == "ne") == (gd["bool"] is True)
                            subj = [prim.user_local_behind(pf, a) for a in pr.a["term"].args]
                            if eff_ne and cur[0] in subj:
                                ok = True
                    ctx.ob("R2", "flush-when-parent-changes", ok, "the in-loop finished_dir must be guarded by `parent of this entry != current_dir`; guards: %s" % prim.guards_fmt(gs), fn=pf, where=prim.site(pf, b), how="dominating guard")
                    # ... and by nothing else inside the iteration: the flush may not additionally depend on depth, type, counters, ...
                    io_blocks = [nb for nb, tt in pf.calls() if C.walk_role(tt) == "io_new" and pf.dominates(nb, b)]
                    extra = []
                    for gd in gs:
                        if not io_blocks or not pf.dominates(io_blocks[-1], gd["bb"]):
                            continue            # loop/entry guards before the per-entry state is created
                        pr = gd["pred"].strip()
                        if pr.k == "call" and pr.a["name"] in ("ne", "eq") and cur[0] in [prim.user_local_behind(pf, a) for a in pr.a["term"].args]:
                            continue
                        if pr.k == "discr" and any(c.a["name"] == "take" for c in pr.call_nodes()):
                            continue
                        extra.append(pr.fmt()[:100])
                    ctx.ob("R2", "flush-depends-only-on-parent-change", not extra, "the in-loop finished_dir additionally depends on %s: a directory change that does not satisfy it (e.g. two directories whose first evaluated entries have the same depth under -mindepth) is not reported and -execdir batches mix directories" % extra, fn=pf, where=prim.site(pf, b), how="dominating guards inside the iteration")
        # every MatcherIO handed to a lifecycle call has its exit code read afterwards
        io_defs = {}
        for b, t in pf.calls():
            if C.walk_role(t) == "io_new" and t.dest is not None and t.dest.is_local():
                io_defs.setdefault(t.dest.local, []).append(b)
        n_life = 0
        for b, t in pf.calls():
            r = C.walk_role(t)
            if r in ("finished_dir", "finished", "matches"):
                n_life += 1
                io_arg = t.args[-1]
                l = prim.user_local_behind(pf, io_arg)
                reads = [bb for bb, tt in pf.calls() if C.walk_role(tt) == "exit_code" and prim.user_local_behind(pf, tt.args[0]) == l]
                stops = pf.return_blocks() + [x for x in io_defs.get(l, []) if x != b]
                ok = l is not None and bool(reads) and prim.must_pass(pf, t.target, stops, reads)
                wit = None if ok else prim.path_avoiding(pf, t.target, stops, reads)
                ctx.ob("R2", "exit-code-read-after:%s" % r, ok,
                       "the MatcherIO passed to %s (%s) must have its exit code read on every path before it is dropped or re-created — otherwise a failed `{} +` invocation dispatched by that call never reaches find's exit status%s" % (
                           r, pf.local_name(l) if l is not None else "?", "" if ok else "; path without a read: %s" % [prim.site(pf, x) for x in (wit or [])][:6]),
                       fn=pf, where=prim.site(pf, b), how="must-pass on the CFG")
        ctx.floor("R2", "lifecycle calls in process_dir", n_life, 4)
    shared.sticky_exit_status(ctx, "R2")

    # ---- R3 batch discipline ---------------------------------------------------------------------------
    mm = ctx.fn("R3", C.matcher_impl(MULTI, "matches"))

    def mrole(t):
        c = t.callee or ""
        n = t.j.get("callee_name")
        if c.startswith("argmax::Command::"):
            return "am:" + n
        if c == MULTI + "::run_command":
            return "run"
        if c == MULTI + "::new_command":
            return "new_command"
        if c.endswith("MatcherIO::<'_>::set_exit_code"):
            return "set_exit_code"
        if n in ("get_or_insert_with", "get_or_insert", "insert", "take", "replace") and "Option" in (t.j.get("callee_inst") or ""):
            return "opt:" + n
        if n in ("is_err", "is_ok"):
            return n
        return None

    def mbrole(fn, bb, o):
        o = o.strip()
        if o.k == "field" and o.a == "exec_in_parent_dir":
            return "execdir?"
        if o.k == "un" and o.a == "Not" and o.kids[0].strip().k == "field" and o.kids[0].strip().a == "exec_in_parent_dir":
            return "not-execdir?"
        return None

    # who may add arguments to an argmax command
    n_add = 0
    for f, b, t in prog.all_calls():
        c = t.callee or ""
        if c.startswith("argmax::Command::") and t.j.get("callee_name") in ("arg", "args", "try_arg", "try_args", "arg_unchecked", "args_unchecked"):
            n_add += 1
            n = t.j.get("callee_name")
            ok = (n == "try_arg" and f.path == C.matcher_impl(MULTI, "matches")) or (n == "try_args" and f.path in _command_factories(prog))
            ctx.ob("R3", "batch-entry:%s@%s" % (n, prim.short(f.path)), ok,
                   "argmax::Command::%s called in %s: paths may enter a batch only through try_arg in MultiExecMatcher::matches, fixed arguments only through try_args in new_command (argmax is the fit oracle; `arg`/`args` bypass it)" % (n, f.path), fn=f, where=prim.site(f, b), how="who-may-call (contract A1)")
    ctx.floor("R3", "argument-adding calls on argmax::Command", n_add, 3)
    if mm is not None:
        g0 = prim.event_graph(mm, mrole)
        g = C.G(g0)
        tries = g.nodes("am:try_arg")
        ctx.ob("R3", "two-offers", len(tries) == 2, "MultiExecMatcher::matches offers the path at %d site(s); oracle: first offer and one re-offer to a fresh command" % len(tries), fn=mm, how="event graph")
        rets = sorted({b for _, _, b in g.edges if b.startswith("RET(")})
        ctx.ob("R3", "always-true", rets == ["RET(const:True)"], "the action must be true on every path; returns: %s" % rets, fn=mm, how="event graph")
        if len(tries) == 2:
            # which offer comes first: the one reachable from ENTRY without passing the other
            first = [n for n in tries if n in gg_reach(g, "ENTRY", stop=[x for x in tries if x != n])]
            first = first[0] if len(first) == 1 else tries[0]
            second = [n for n in tries if n != first][0]
            # refusal edge of the first offer -> run -> new_command -> second offer, on every path
            acc, ref = _offer_edges(g, first)
            ok_acc = bool(acc) and all(x == "RET(const:True)" for x in acc)
            ctx.ob("R3", "accepted=>done", ok_acc, "when the batch accepts the path nothing else happens (true); got %s" % acc, fn=mm, how="event graph")
            seq_ok = bool(ref)
            why = ""
            for start in ref:
                for must in ("run", "new_command", second):
                    # every path from start to RET passes `must`
                    seen = {start} | g.reach([start], stop_roles=()) if False else None
                # order: run before new_command before second offer before any RET
            if ref:
                ok1 = _must_pass(g, ref, lambda n: C.base(n) == "run", lambda n: n.startswith("RET(") or C.base(n) == "new_command" or n == second)
                ok2 = _must_pass(g, [n for n in g.out if C.base(n) == "run"], lambda n: C.base(n) == "new_command", lambda n: n.startswith("RET(") or n == second)
                ok3 = _must_pass(g, [n for n in g.out if C.base(n) == "new_command"], lambda n: n == second, lambda n: n.startswith("RET("))
                seq_ok = ok1 and ok2 and ok3
                why = "dispatch:%s fresh:%s re-offer:%s" % (ok1, ok2, ok3)
            ctx.ob("R3", "refused=>dispatch,fresh,re-offer", seq_ok,
                   "when the batch refuses the path: run the batch, start a fresh command with the fixed arguments, and offer the *same* path again — on every path, in that order (%s); a path that is not re-offered is lost; events: %s" % (why, g.fmt()), fn=mm, how="must-pass on the event graph")
            acc2, ref2 = _offer_edges(g, second)
            ok = bool(ref2) and all(C.base(x) == "set_exit_code" for x in ref2) and all(x == "RET(const:True)" for x in acc2)
            ctx.ob("R3", "second-refusal=>diagnosed", ok, "a path that does not even fit an empty batch must set a non-zero exit code (and the action stays true); refusal leads to %s, acceptance to %s" % (ref2, acc2), fn=mm, how="event graph")
            # same operand in both offers, the fresh command receives the re-offer
            ops = {}
            for b, t in mm.calls():
                if mrole(t) == "am:try_arg":
                    ops[b] = (prim.user_local_behind(mm, t.args[1]), prim.origin_of_operand(mm, t.args[0]))
            locs = {v[0] for v in ops.values()}
            ctx.ob("R3", "same-path-re-offered", len(locs) == 1 and None not in locs, "the two offers pass %s; must be the same path value" % [mm.local_name(l) if l is not None else "?" for l in locs], fn=mm, how="provenance slice")
            # the replaced command is the result of new_command and is stored where the first one lives
            stored = False
            for b in mm.reachable():
                for s in mm.blocks[b].stmts:
                    if s.lhs is not None and "*" in s.lhs.proj and s.rv is not None and s.rv.k == "use":
                        o = prim.origin_of_operand(mm, s.rv.ops[0]).strip()
                        if o.k == "call" and o.a["callee"] == MULTI + "::new_command":
                            stored = True
            for b, t in mm.calls():
                if mrole(t) == "new_command" and t.dest is not None and "*" in t.dest.proj:
                    stored = True
            ctx.ob("R3", "fresh-command-replaces-batch", stored, "the result of new_command must replace the dispatched batch in place (`*command = self.new_command()`)", fn=mm, how="assignment through the borrowed slot")
        for b, t in mm.calls():
            if mrole(t) == "set_exit_code":
                v = t.args[1].const_value()
                ctx.ob("R3", "exit-code-nonzero@matches", isinstance(v, int) and v != 0, "set_exit_code(%s)" % v, fn=mm, where=prim.site(mm, b), how="constant argument")
        # path form
        pl = C.find_local(mm, "path_to_file", ty="std::path::PathBuf")
        if not pl:
            ctx.missing("R3", "path_to_file in MultiExecMatcher::matches")
        else:
            _path_form(ctx, "R3", mm, pl[0], "MultiExecMatcher")
    rc = ctx.fn("R3", MULTI + "::run_command")
    if rc is not None:
        def role(t):
            n = t.j.get("callee_name")
            c = t.callee or ""
            if c.startswith("argmax::Command::") and n in ("status", "spawn", "output"):
                return "status"
            if n == "success":
                return "success"
            if c.endswith("MatcherIO::<'_>::set_exit_code"):
                return "set_exit_code"
            return None
        g = C.G(prim.event_graph(rc, role))
        st = g.nodes("status")
        ok = len(st) == 1
        ctx.ob("R3", "run_command-always-runs", len(st) == 1 and g.succ("ENTRY") == st, "run_command must run the batch it is given on every path (an early return silently drops the paths collected in it); events: %s" % g.fmt(), fn=rc, how="event graph")
        if ok:
            okb = g.succ(st[0], "0")
            erb = g.succ(st[0], "1")
            ok = all(C.base(x) == "success" for x in okb) and bool(okb) and bool(erb) and all(C.base(x) == "set_exit_code" for x in erb)
            for s in g.nodes("success"):
                ok = ok and all(C.base(x) == "set_exit_code" for x in g.succ(s, "0")) and bool(g.succ(s, "0")) and all(x.startswith("RET(") for x in g.succ(s, "else"))
        fl = [b for b, t in rc.calls() if t.j.get("callee_name") == "flush_output"]
        sb = [b for b, t in rc.calls() if t.j.get("callee_name") == "status"]
        ctx.ob("R3", "output-flushed-before-run", bool(fl) and bool(sb) and all(any(rc.dominates(f_, s_) for f_ in fl) for s_ in sb), "run_command must flush find's own output (MatcherIO::flush_output) before it starts the batch, so that the command's output follows what earlier actions printed", fn=rc, how="dominance")
        ctx.ob("R3", "run_command-failure=>exit-code", ok, "run_command: a failing invocation and an invocation that cannot be started must both set a non-zero exit code; events: %s" % g.fmt(), fn=rc, how="event graph")
        for b, t in rc.calls():
            if role(t) == "set_exit_code":
                v = t.args[1].const_value()
                ctx.ob("R3", "exit-code-nonzero@run_command", isinstance(v, int) and v != 0, "set_exit_code(%s)" % v, fn=rc, where=prim.site(rc, b), how="constant argument")
            if role(t) == "status":
                o = prim.origin_of_operand(rc, t.args[0]).strip()
                ctx.ob("R3", "runs-the-given-batch", o.k == "arg", "run_command runs %s" % o.fmt(), fn=rc, where=prim.site(rc, b), how="provenance slice", nontrivial=False)
    ctx.fn("R3", MULTI + "::new_command")
    facs = [prog.fns[p_] for p_ in sorted(_command_factories(prog)) if any((t.callee or "").startswith("argmax::Command::new") for _, t in prog.fns[p_].calls())]
    ctx.ob("R3", "command-factory", len(facs) == 1, "functions reachable from new_command that build the argmax command: %s; exactly one expected" % [f.path for f in facs], how="call-graph closure within the matcher")
    nc = facs[0] if len(facs) == 1 else None
    if nc is not None:
        ctx.analysed_fns.add(nc.path)
        news = [(b, t) for b, t in nc.calls() if (t.callee or "").startswith("argmax::Command::new")]
        tas = [(b, t) for b, t in nc.calls() if (t.callee or "").startswith("argmax::Command::try_args")]
        ok = len(news) == 1 and len(tas) == 1
        if ok:
            eo = prim.origin_of_operand(nc, news[0][1].args[0]).strip()
            ao = prim.origin_of_operand(nc, tas[0][1].args[1]).strip()
            ok = eo.k == "field" and eo.a == "executable" and ao.k == "field" and ao.a == "args"
        ctx.ob("R3", "fresh-command=executable+fixed-args", ok, "new_command must be Command::new(self.executable) followed by try_args(self.args) (the fixed arguments come first in every invocation)", fn=nc, how="provenance slice")

    # ---- R4 dispatch table of finished_dir / finished ----------------------------------------------------
    for meth, want_flag in (("finished_dir", True), ("finished", False)):
        f = ctx.fn("R4", C.matcher_impl(MULTI, meth))
        if f is None:
            continue
        g0 = prim.event_graph(f, mrole, branch_role=mbrole)
        g = C.G(g0)
        flagn = [n for n in g.out if C.base(n) in ("execdir?", "not-execdir?")]
        takes = g.nodes("opt:take")
        ctx.ob("R4", "atoms:%s" % meth, len(flagn) == 1 and len(takes) == 1, "%s must decide on the execdir flag and take() the pending batch; events: %s" % (meth, g.fmt()), fn=f, how="event graph")
        if len(flagn) == 1 and len(takes) == 1:
            for execdir, pending in itertools.product([False, True], repeat=2):
                asg = {"execdir?": execdir, "not-execdir?": not execdir, "opt:take": (lambda l, p=pending: (l.split(",")[0] == "1") == p)}
                tr = C.simulate(g0, asg, edges=g.edges)
                runs = [n for n in (tr or []) if C.base(n) == "run"]
                want = 1 if (execdir == want_flag and pending) else 0
                ctx.ob("R4", "row:%s:execdir=%s,pending=%s" % (meth, execdir, pending), tr is not None and len(runs) == want,
                       "%s with execdir=%s and %s pending batch runs the batch %s time(s); oracle %d (-execdir batches are run when their directory is left, -exec batches at the very end; a batch is run once)" % (meth, execdir, "a" if pending else "no", len(runs) if tr else "?", want), fn=f, how="event-graph truth table")
        for b, t in f.calls():
            if mrole(t) == "opt:take":
                o = prim.expand_single_def_vars(f, prim.origin_of_operand(f, t.args[0]))
                ctx.ob("R4", "takes-own-batch:%s" % meth, any(x.k == "field" and x.a == "command" for x in o.walk()), "take() on %s" % o.fmt(), fn=f, where=prim.site(f, b), how="provenance slice", nontrivial=False)
            if mrole(t) == "am:current_dir":
                o = prim.origin_of_operand(f, t.args[1])
                names = [c.a["name"] for c in o.call_nodes()]
                ok = any(x.k == "arg" and x.a["idx"] == 2 for x in o.walk()) and set(names) <= {"join", "new", "as_ref", "deref", "as_path"}
                dot = [c.get("v") for c in o.consts() if c.get("k") == "str"]
                ctx.ob("R4", "execdir-cwd", ok and dot in ([], ["."]), "-execdir batch runs in %s; must be the directory being left (optionally spelled ./dir)" % o.fmt(), fn=f, where=prim.site(f, b), how="provenance slice")
            if mrole(t) == "run":
                gs = prim.dominating_guards(f, b)
                cd = [bb for bb, tt in f.calls() if mrole(tt) == "am:current_dir"]
                if want_flag:
                    ctx.ob("R4", "execdir-cwd-before-run", bool(cd) and prim.must_pass(f, 0, [b], cd), "the -execdir batch must have its working directory set on every path before it is run", fn=f, where=prim.site(f, b), how="must-pass on the CFG")
                else:
                    ctx.ob("R4", "exec-cwd-untouched", not cd, "-exec batches run in find's own working directory", fn=f, where=prim.site(f, b), how="call sites", nontrivial=False)
    if mm is not None:
        # a batch dispatched from matches() in execdir mode runs in the parent of the current entry
        cds = [(b, t) for b, t in mm.calls() if mrole(t) == "am:current_dir"]
        for b, t in cds:
            gs = prim.dominating_guards(mm, b)
            ok = any(gd["pred"].strip().k == "field" and gd["pred"].strip().a == "exec_in_parent_dir" and gd["bool"] is True for gd in gs)
            ctx.ob("R4", "mid-walk-dispatch-cwd-guard", ok, "current_dir in matches() must only apply to -execdir; guards: %s" % prim.guards_fmt(gs), fn=mm, where=prim.site(mm, b), how="dominating guard")
        _cwd_table(ctx, "R4", mm, "MultiExecMatcher")

    # ---- R5 recognition ------------------------------------------------------------------------------------
    fn, d, arms, info = C.parser_arms(ctx, "R5")
    if arms:
        from ..dispatch import arm_of
        a = arm_of(arms, "-exec")
        a2 = arm_of(arms, "-execdir")
        ctx.ob("R5", "one-arm", a is not None and a is a2, "-exec and -execdir must share one parser arm", fn=fn, nontrivial=False)
        if a is not None:
            multi = a.calls_matching("exec::MultiExecMatcher::new")
            single = a.calls_matching("exec::SingleExecMatcher::new")
            ctx.ob("R5", "constructors", len(multi) == 1 and len(single) == 1, "the arm constructs MultiExecMatcher at %d and SingleExecMatcher at %d site(s)" % (len(multi), len(single)), fn=fn, where=prim.site(fn, a.entry), how="dispatch table")
            lits_in_arm = set()
            for tst in prim.str_tests(fn):
                if tst["bb"] in a.blocks:
                    lits_in_arm.add(tst["lit"])
            for b, t in a.calls:
                if t.j.get("callee_name") in ("eq", "ne"):
                    for x in t.args:
                        o = prim.origin_of_operand(fn, x).strip()
                        if o.k == "const" and o.a.get("k") == "str":
                            lits_in_arm.add(o.a["v"])
            ctx.ob("R5", "terminator-literals", {";", "+", "{}"} <= lits_in_arm, "the -exec scan must compare tokens with ';', '+' and '{}'; literals tested in the arm: %s" % sorted(lits_in_arm), fn=fn, where=prim.site(fn, a.entry), how="dispatch table")
            for b, t in multi:
                gs = prim.dominating_guards(fn, b)
                ok_cnt = False
                ok_plus = False
                for gd in gs:
                    pr = gd["pred"].strip()
                    if pr.k == "bin" and pr.a == "Eq" and gd["bool"] is True and any(c.get("v") == 1 for c in pr.consts()) and any(c.a["name"] == "count" for c in pr.call_nodes()):
                        ok_cnt = True
                    if pr.k == "call" and pr.a["name"] == "eq" and gd["bool"] is True and any(c.get("v") == "+" for c in pr.consts()):
                        ok_plus = True
                ctx.ob("R5", "multi-under-single-braces", ok_cnt, "MultiExecMatcher may be built only when exactly one `{}` occurs among the arguments (count == 1); guards: %s" % prim.guards_fmt(gs)[:400], fn=fn, where=prim.site(fn, b), how="dominating guard")
                ctx.ob("R5", "multi-under-plus", ok_plus, "MultiExecMatcher is built on the `+` terminator only", fn=fn, where=prim.site(fn, b), how="dominating guard")
                fo = prim.origin_of_operand(fn, t.args[2]).strip()
                ok = fo.k == "call" and fo.a["name"] in ("eq", "ne") and any(c.get("v") == "-execdir" for c in fo.consts())
                ctx.ob("R5", "multi-execdir-flag", ok and fo.a["name"] == "eq", "execdir flavour = %s; must be `token == \"-execdir\"`" % fo.fmt(), fn=fn, where=prim.site(fn, b), how="provenance slice")
                ao = prim.origin_of_operand(fn, t.args[1])
                # fixed args: exec_args[0 .. len-1]
                top = ao.strip()
                rng = [top.kids[1].strip()] if top.k == "call" and top.a["name"] == "index" and len(top.kids) == 2 and top.kids[1].strip().k == "agg" and "Range" in str(top.kids[1].strip().a) else []
                ok = False
                if rng and len(rng[0].kids) >= 2:
                    lo, hi = [k.strip() for k in rng[0].kids[:2]]
                    hi_core = hi.kids[0].strip() if hi.k == "field" and hi.kids else hi
                    ok = lo.k == "const" and lo.a.get("v") == 0 and hi_core.k == "bin" and hi_core.a in ("Sub", "SubWithOverflow") and any(c.get("v") == 1 for c in hi_core.consts())
                ctx.ob("R5", "multi-fixed-args-exclude-braces", ok, "the fixed arguments of the `+` form are %s; must be all arguments except the trailing `{}`" % ao.fmt()[:300], fn=fn, where=prim.site(fn, b), how="provenance slice")
            for b, t in single:
                fo = prim.origin_of_operand(fn, t.args[2]).strip()
                ok = fo.k == "call" and fo.a["name"] == "eq" and any(c.get("v") == "-execdir" for c in fo.consts())
                ctx.ob("R5", "single-execdir-flag", ok, "execdir flavour of the `;` form = %s" % fo.fmt(), fn=fn, where=prim.site(fn, b), how="provenance slice")


def gg_reach(g, start, stop=()):
    seen = set()
    st = [start]
    while st:
        n = st.pop()
        for l, b in g.out.get(n, []):
            if b not in seen:
                seen.add(b)
                if b not in stop:
                    st.append(b)
    return seen


def _offer_edges(g, node):
    """(targets when the offer is accepted, targets when refused) of a try_arg node, looking through is_err/is_ok"""
    acc, ref = [], []
    for l, b in g.out.get(node, []):
        first = l.split(",")[0]
        if C.base(b) in ("is_err", "is_ok"):
            for l2, b2 in g.out.get(b, []):
                truth = l2.split(",")[0] == "else"
                refused = truth if C.base(b) == "is_err" else not truth
                (ref if refused else acc).append(b2)
        elif first == "1":
            ref.append(b)
        elif first in ("0", "else"):
            acc.append(b)
        else:
            acc.append(b)
            ref.append(b)
    return sorted(set(acc)), sorted(set(ref))


def _must_pass(g, starts, is_goal, is_bad):
    """from each start node every path reaches a goal node before any bad node (and cannot end without a goal)"""
    for s in starts:
        seen = set()
        st = [s]
        while st:
            n = st.pop()
            if is_goal(n):
                continue
            if is_bad(n):
                return False
            outs = g.out.get(n, [])
            if not outs and n != s:
                return False
            for l, b in outs:
                if b not in seen:
                    seen.add(b)
                    st.append(b)
    return True


def _path_form(ctx, rule, f, local, who):
    """path handed to the command: entry.path() verbatim, or ./<file_name> (./<path> when there is no file name) for -execdir"""
    defs = prim.defs_origins(f, local)
    kinds = []
    for bb, o in defs:
        if bb not in f.reachable():
            continue
        for alt in prim.flatten_phi(o):
            names = [c.a["name"] for c in alt.call_nodes()]
            # the conditions under which this alternative is produced: at its own defining block (the alternatives of
            # a value that flows through a join — an inlined helper's return — are produced in different branches)
            abb = alt.strip().bb if alt.strip().bb is not None else bb
            gs = prim.dominating_guards(f, abb)
            execdir = None
            for gd in gs:
                pr = prim.expand_single_def_vars(f, gd["pred"]).strip()
                if pr.k == "field" and pr.a == "exec_in_parent_dir":
                    execdir = gd["bool"]
            dot = [c.get("v") for c in alt.consts() if c.get("k") == "str"]
            if "join" in names:
                ok = dot == ["."] and set(names) <= {"join", "new", "file_name", "path", "as_ref", "deref"} and any(c.a["callee"].endswith("WalkEntry::path") for c in alt.call_nodes())
                if not ok and dot == ["."] and set(names) <= {"join", "new", "file_name", "path", "as_ref", "deref", "unwrap_or", "as_os_str"}:
                    # `path.file_name().unwrap_or(path.as_os_str())`: the last component, or the path itself when there is none
                    uo = [c for c in alt.call_nodes() if c.a["name"] == "unwrap_or"]
                    if len(uo) == 1 and len(uo[0].kids) == 2:
                        k0, k1 = [k_.strip() for k_ in uo[0].kids]
                        ok = [c.a["name"] for c in k0.call_nodes()] == ["file_name", "path"] and [c.a["name"] for c in k1.call_nodes()] in (["as_os_str", "path"], ["path"]) and any(c.a["callee"].endswith("WalkEntry::path") for c in k1.call_nodes())
                if not ok and dot == ["."] and set(names) <= {"join", "new", "file_name", "path", "as_ref", "deref", "map_or"}:
                    # `path.file_name().map_or(path, Path::new)`: the last component, or the path itself when there is none
                    mo = [c for c in alt.call_nodes() if c.a["name"] == "map_or"]
                    if len(mo) == 1 and len(mo[0].kids) == 3:
                        k0, k1, k2 = [k_.strip() for k_ in mo[0].kids]
                        is_path = lambda x_: [c.a["callee"].endswith("WalkEntry::path") for c in x_.call_nodes()] == [True]
                        ok = [c.a["name"] for c in k0.call_nodes()] == ["file_name", "path"] and is_path(k1) and k2.k == "const" and "Path::new" in str(k2.a.get("text") or k2.a.get("v") or k2.a)
                kinds.append(("execdir", execdir, ok, alt.fmt()))
            else:
                ok = set(names) <= {"path", "to_path_buf", "to_owned", "into", "as_ref", "deref"} and any(c.a["callee"].endswith("WalkEntry::path") for c in alt.call_nodes())
                kinds.append(("plain", execdir, ok, alt.fmt()))
    okall = bool(kinds) and all(k[2] for k in kinds) and all((k[0] == "execdir") == (k[1] is True) for k in kinds) and {k[0] for k in kinds} == {"execdir", "plain"}
    ctx.ob(rule, "path-form:%s" % who, okall,
           "%s passes %s; oracle: the entry's path unchanged for -exec, `./` + last component (or `./` + path when there is none) under the execdir flag" % (who, [(k[0], "execdir=%s" % k[1], k[3]) for k in kinds]),
           fn=f, how="provenance slice + dominating guard")


def _cwd_table(ctx, rule, f, who):
    """current_dir decision of the execdir flavour: parent None -> the path itself; parent == "" -> unchanged; else the parent"""
    cds = [(b, t) for b, t in f.calls() if (t.callee or "").split("::<")[0].endswith("Command::current_dir")]
    empties = []
    for b in f.reachable():
        t = f.blocks[b].term
        if t.k == "switch":
            pr = prim.switch_pred(f, b).strip()
            if pr.k == "call" and pr.a["name"] in ("eq", "ne") and any(c.get("v") == "" for c in pr.consts()) and any(c.a["name"] == "parent" for c in pr.call_nodes()):
                empties.append(b)
    got = []
    side_ok = True
    for b, t in cds:
        o = prim.origin_of_operand(f, t.args[1])
        # the directory may be chosen first and handed to one current_dir call (`if let Some(dir) = choose(path)`): every
        # alternative is judged under the conditions of the branch that produced it
        for alt in prim.flatten_phi(o):
            abb = alt.bb if alt.bb is not None else (alt.strip().bb if alt.strip().bb is not None else b)
            gs = prim.dominating_guards(f, abb)
            seen_bb = {gd["bb"] for gd in gs}
            gs = gs + [gd for gd in prim.dominating_guards(f, b) if gd["bb"] not in seen_bb]
            names = [c.a["name"] for c in alt.call_nodes()]
            disc = None
            for gd in gs:
                pr = gd["pred"].strip()
                if pr.k == "discr" and any(c.a["name"] == "parent" for c in pr.call_nodes()):
                    disc = gd["labels"]
            if "parent" in names:
                got.append(("parent", disc, set(names) <= {"parent", "path", "as_ref", "deref"}))
                # the Some(parent) choice sits on the not-empty side of the comparison with ""
                side = [gd for gd in gs if empties and gd["bb"] == empties[0]]
                pr = side[0]["pred"].strip() if side else None
                side_ok = side_ok and bool(side) and ((pr.a["name"] == "eq") == (side[0]["bool"] is False))
            else:
                got.append(("self", disc, set(names) <= {"path", "as_ref", "deref"}))
    ok = sorted(set((k, tuple(d or [])) for k, d, _ in got)) == [("parent", (1,)), ("self", (0,))] and all(x[2] for x in got) and len(empties) == 1 and side_ok
    ctx.ob(rule, "cwd-table:%s" % who, ok,
           "%s working-directory decision: %s (+%d empty-parent tests); oracle: no parent -> the path itself ('/'), parent \"\" -> stay, otherwise chdir to the parent" % (who, [(k, d) for k, d, _ in got], len(empties)),
           fn=f, how="dominating guards on Path::parent(), per alternative of the directory")


def _command_factories(prog):
    """new_command and the MultiExecMatcher helpers it delegates to"""
    out = set()
    st = [MULTI + "::new_command"]
    while st:
        p = st.pop()
        if p in out or p not in prog.fns:
            continue
        out.add(p)
        for _, t in prog.fns[p].calls():
            c = t.callee or ""
            if c.startswith(MULTI + "::"):
                st.append(c)
    return out
