"""Glue between the panic-audit engine and the rule modules (C11 find, C19/C20 xargs)."""
import re

from . import panic, prim

BORROWS = ("borrow", "borrow_mut", "replace", "swap", "take", "replace_with")
STR_OFFSET_OK = ("len_utf8", "find", "rfind", "len", "char_indices", "match_indices", "floor_char_boundary", "ceil_char_boundary")


def _str_index(fn, site, za):
    """contract S1: byte offsets used to slice a str must be char boundaries inside the string"""
    t = site.term
    o = prim.expand_single_def_vars(fn, prim.origin_of_operand(fn, t.args[1]))
    s = o.strip()
    if s.k != "agg" or "Range" not in str(s.a):
        return False, "index operand is not a range literal"
    ok_all = True
    why = []
    for k in s.kids:
        ks = k.strip()
        if ks.k == "const" and ks.a.get("v") == 0:
            why.append("0")
            continue
        names = [c.a["name"] for c in ks.call_nodes()]
        if any(n in STR_OFFSET_OK for n in names) and not any(x.k == "bin" for x in ks.walk()):
            # the char / match must come from the string being sliced (same receiver field or local)
            why.append("offset from %s" % [n for n in names if n in STR_OFFSET_OK][0])
            continue
        ok_all = False
        why.append("offset %s is not derived from a char-boundary API" % ks.fmt()[:80])
    return ok_all, "; ".join(why)


_ASCII_PRED = ("is_ascii_digit", "is_ascii_hexdigit", "is_ascii_alphabetic", "is_ascii_alphanumeric", "is_ascii_punctuation", "is_ascii_graphic", "is_ascii_whitespace", "is_ascii_control", "is_ascii_lowercase", "is_ascii_uppercase", "is_ascii")


def _ascii_prefix_count(prog, fn, o):
    """is `o` the number of leading characters of a string that satisfy an ASCII-only predicate —
    `s.chars().take_while(char::is_ascii_digit).count()` — and of which string? Such a count is also the byte length of
    that prefix: a char boundary of s, not beyond its end. Returns the Origin of s or None."""
    s = prim.expand_single_def_vars(fn, o).strip()
    if not (s.k == "call" and s.a["name"] == "count" and s.kids):
        return None
    tw = s.kids[0].strip()
    if not (tw.k == "call" and tw.a["name"] == "take_while" and len(tw.kids) == 2):
        return None
    pred = tw.kids[1].strip()
    ok = False
    txt = pred.fmt()
    if any(txt.endswith("::" + n) or ("::" + n + "'") in txt or ("::%s" % n) in str(pred.a) for n in _ASCII_PRED):
        ok = True
    elif pred.k == "agg" and str(pred.a).startswith("closure:"):
        cf = prog.fns.get(str(pred.a).split(":", 1)[1])
        if cf is not None:
            r = prim.origin_of_local(cf, 0).strip()
            ok = r.k == "call" and r.a["name"] in _ASCII_PRED
    if not ok:
        return None
    src = tw.kids[0].strip()
    while src.k == "call" and src.a["name"] in ("take", "by_ref", "peekable") and src.kids:
        src = src.kids[0].strip()       # `take(n)` only shortens the run
    # (`bytes()`: a byte that satisfies an ASCII-only predicate is an ASCII character of its own, so the count is the same)
    if not (src.k == "call" and src.a["name"] in ("chars", "bytes") and src.kids):
        return None
    return src.kids[0]


def _ascii_prefix_pred(prog, fn, o):
    """name of the ASCII-only predicate of such a count (`is_ascii_digit`), written as a path or as a closure calling it"""
    s = prim.expand_single_def_vars(fn, o).strip()
    if not (s.k == "call" and s.a["name"] == "count" and s.kids):
        return None
    tw = s.kids[0].strip()
    if not (tw.k == "call" and tw.a["name"] == "take_while" and len(tw.kids) == 2):
        return None
    pred = tw.kids[1].strip()
    for n in _ASCII_PRED:
        if ("::" + n) in pred.fmt() or ("::%s" % n) in str(pred.a):
            return n
    if pred.k == "agg" and str(pred.a).startswith("closure:"):
        cf = prog.fns.get(str(pred.a).split(":", 1)[1])
        if cf is not None:
            r = prim.origin_of_local(cf, 0).strip()
            if r.k == "call" and r.a["name"] in _ASCII_PRED and not [c for c in r.call_nodes() if c is not r and c.a["name"] not in ("deref",)]:
                return r.a["name"]
    return None


def _prefix_count_unwrap(prog, site):
    """`helper(n).unwrap()` where the helper of this crate fails only when n is not a char-boundary offset inside its string
    (all its failure values come from split_at_checked / get on that string with that very parameter) and n is the
    length of an ASCII prefix of the same string, counted with nothing in between that could change the string"""
    fn, t = site.fn, site.term
    if not t.args:
        return False, ""
    recv = prim.expand_single_def_vars(fn, prim.origin_of_operand(fn, t.args[0])).strip()
    if not (recv.k == "call" and recv.a["callee"].startswith("findutils::") and len(recv.kids) == 2):
        return False, ""
    hf = prog.fns.get(recv.a["callee"].split("::<")[0]) or prog.fns.get(recv.a["callee"])
    if hf is None or hf.arg_count != 2:
        return False, ""
    counted = _ascii_prefix_count(prog, fn, recv.kids[1])
    if counted is None:
        return False, ""
    # the helper: every alternative of its result that is not the success variant comes from a checked split/get of
    # a field of its receiver at its second parameter
    ret = prim.origin_of_local(hf, 0)
    fields = set()
    for alt in prim.flatten_phi(ret):
        a = alt.strip()
        if a.k == "agg" and (str(a.a).endswith("Result::Ok") or str(a.a).endswith("Option::Some")):
            continue
        cn = [x for x in a.call_nodes() if x.a["name"] in ("split_at_checked", "get", "split_at_mut_checked", "is_char_boundary")]
        if not cn or not any(y.k == "arg" and y.a.get("idx") == 2 for x in cn for y in x.walk()):
            return False, "the helper %s can fail for another reason (%s)" % (prim.short(hf.path), a.fmt()[:80])
        for x in cn:
            fs = [y.a for y in x.kids[0].walk() if y.k == "field"] if x.kids else []
            if not fs or not any(y.k == "arg" and y.a.get("idx") == 1 for y in x.kids[0].walk()):
                return False, "the helper slices %s" % x.kids[0].fmt()[:60]
            fields.add(fs[-1] if fs else None)
    if len(fields) != 1:
        return False, "the helper slices %s" % sorted(map(str, fields))
    fld = list(fields)[0]
    # the counted string is that field of the same receiver
    cs = counted.strip()
    same = any(y.k == "field" and y.a == fld for y in counted.walk()) and [y.a.get("idx") for y in counted.walk() if y.k == "arg"] == [y.a.get("idx") for y in recv.kids[0].walk() if y.k == "arg"]
    if not same:
        return False, "the prefix was counted on %s, the helper slices its receiver's `%s`" % (counted.fmt()[:60], fld)
    # nothing between the count and the call hands out the receiver mutably or assigns the field
    cnt_call = next((x for x in prim.expand_single_def_vars(fn, recv.kids[1]).call_nodes() if x.a["name"] == "count"), None)
    cb = cnt_call.a.get("bb") if cnt_call is not None else None
    hb = recv.a.get("bb")
    if cb is None or hb is None or not fn.dominates(cb, hb):
        return False, "the count does not dominate the call"
    between = (fn.reach_from([cb]) & {b for b in fn.reachable() if hb in fn.reach_from([b]) or b == hb}) - {hb}
    for b in between:
        if b == cb:
            continue
        tb = fn.blocks[b].term
        if tb.k == "call" and any(a.place is not None and prim.origin_of_operand(fn, a).fmt().startswith("&") and fn.local_ty(a.place.local).startswith("&mut") for a in tb.args if a.place is not None and a.place.is_local()):
            return False, "a call between the count and the slice receives a mutable reference"
        for st in fn.blocks[b].stmts:
            if st.lhs is not None and fld in st.lhs.field_names():
                return False, "the field is assigned between the count and the slice"
    return True, "%s fails only when its offset is not a char boundary inside self.%s; the offset is the number of leading ASCII characters of that same string (%s), which is the byte length of that prefix" % (prim.short(hf.path), fld, cnt_call.fmt()[:80] if cnt_call is not None else "")


def _guard_region(fn, t):
    """blocks in which the guard returned by a borrow may be alive: from the call's return up to the drop of the guard's
    temporary on every path; the whole rest of the function when the guard is moved or not dropped on some path"""
    from .model import Place
    if t.target is None:
        return set()
    whole = fn.reach_from([t.target])
    if not t.dest.is_local():
        return whole
    gl = t.dest.local
    for b in whole:
        for s in fn.blocks[b].stmts:
            if s.rv is not None and s.rv.k == "use" and s.rv.ops and s.rv.ops[0].kind == "move" and s.rv.ops[0].place is not None and s.rv.ops[0].place.local == gl and s.rv.ops[0].place.is_local():
                return whole            # the guard is moved into another local
    region = set()
    todo = [t.target]
    while todo:
        b = todo.pop()
        if b in region:
            continue
        region.add(b)
        tt = fn.blocks[b].term
        if tt.k == "drop":
            p = Place(tt.j["p"])
            if p.local == gl and p.is_local():
                continue
        if tt.k == "return":
            return whole                # a path returns with the guard alive
        for s in tt.successors():
            todo.append(s)
    return region


def _refcell(prog, site):
    """no re-entrancy: nothing called in this function after the borrow (while the guard may be alive) can reach a borrow
    of a RefCell of the same type"""
    fn, b, t = site.fn, site.bb, site.term
    inst = t.j.get("callee_inst") or t.callee or ""
    cell_ty = inst.split("RefCell::<", 1)[1].rsplit(">::", 1)[0] if "RefCell::<" in inst else inst
    if t.j.get("callee_name") not in ("borrow", "borrow_mut"):
        # a momentary borrow (replace/swap/take): it conflicts only with a guard that is alive when it runs, and every
        # guard-holding site is checked against reaching any borrow-like call of the same cell type (below, BORROWS)
        return True, "momentary borrow of RefCell<%s>: no guard outlives the call; conflicts are reported at the guard-holding borrow()/borrow_mut() site" % cell_ty[:40]
    after = _guard_region(fn, t)
    roots = set()
    for bb in after:
        tt = fn.blocks[bb].term
        if tt.k == "call":
            for c in prog.callees_of(fn, tt):
                roots.add(c.path)
    reach = prog.reachable_fns(sorted(roots)) if roots else set()
    bad = []
    for p in reach:
        f2 = prog.fns[p]
        for bb, tt in f2.calls():
            if tt.j.get("callee_name") in BORROWS and (tt.callee or "").startswith("std::cell::RefCell") and cell_ty in (tt.j.get("callee_inst") or ""):
                bad.append(p)
    # a second borrow in the same function while the first guard lives
    for bb in after:
        tt = fn.blocks[bb].term
        if tt is not t and tt.k == "call" and tt.j.get("callee_name") in BORROWS and (tt.callee or "").startswith("std::cell::RefCell") and cell_ty in (tt.j.get("callee_inst") or "") and bb != b:
            bad.append(fn.path)
    if bad:
        return False, "RefCell<%s> may be borrowed again while this guard is alive: via %s" % (cell_ty[:40], sorted(set(bad))[:3])
    return True, "single-threaded, and no function called while the guard may be alive (%d reachable) borrows a RefCell<%s>" % (len(reach), cell_ty[:40])


def _oncecell(prog, site):
    """OnceCell::get_or_init panics when the initialiser re-enters the same cell: nothing reachable from the closures
    built in this function may call this function again or initialise a OnceCell"""
    fn = site.fn
    cls = prog.closures_of(fn)
    if not cls:
        return False, "the initialiser is not a closure of this function"
    reach = prog.reachable_fns(sorted(c.path for c in cls))
    bad = []
    for p in reach:
        if p == fn.path:
            bad.append(p)
            continue
        f2 = prog.fns.get(p)
        if f2 is None:
            continue
        for bb, tt in f2.calls():
            if tt.j.get("callee_name") in ("get_or_init", "get_or_try_init") and "OnceCell" in (tt.callee or ""):
                bad.append(p)
    if bad:
        return False, "the initialiser can re-enter a OnceCell via %s" % sorted(set(bad))[:3]
    return True, "the initialiser (%d reachable functions) neither calls %s again nor initialises another OnceCell" % (len(reach), prim.short(fn.path))


def run(ctx, rule, roots, label, exclude_prefix=()):
    """enumerate and discharge all panic-capable sites reachable from `roots`; records one obligation per site"""
    prog = ctx.prog
    tab = panic.load_table()
    pre = tab.get("preconditions", {})
    t3 = {e["key"]: e for e in tab.get("obligations", [])}
    sites, fns = panic.enumerate_sites(prog, roots, exclude_prefix=exclude_prefix)
    zc = panic.ZoneCache(prog, pre)
    for f in fns:
        ctx.analysed_fns.add(f.path)
    counts = {}
    used_t3 = set()
    for s in sites:
        fn = s.fn
        status, why = None, ""
        if s.kind == "assert:other":
            # debug-build pointer validity checks the compiler inserts around `vec![..]`/box allocation: the pointer comes
            # straight from the allocator (failure aborts via handle_alloc_error, it does not reach the check)
            sp = s.term.sp or {}
            txt = s.term.j["msg"].get("text", "")
            if sp.get("exp") and sp.get("macro") in ("vec", "format", "println", "eprintln", "write", "writeln") and ("PointerDereference" in txt):
                status, why = "T2e", "compiler-inserted pointer check on a fresh allocation inside %s!" % sp.get("macro")
        elif s.kind.startswith("assert"):
            za = zc.get(fn)
            ok, why = panic.t1_assert(za, s)
            if not ok:
                ok2, why2 = panic.t1_interval(fn, s, za)
                if ok2:
                    ok, why = True, why2
                elif why2:
                    why = why + " / " + why2
            if not ok and fn.closure_of:
                ok3, why3 = panic.t1_closure_bounds(prog, zc, s)
                if ok3:
                    ok, why = True, why3
                elif why3:
                    why = why + " / " + why3
            status = "T1" if ok else None
        elif s.kind == "index":
            inst = s.term.j.get("callee_inst") or ""
            if inst.startswith("<str as") or inst.startswith("<std::string::String as"):
                ok, why = _str_index(fn, s, zc.get(fn))
                status = "T1(S1)" if ok else None
            elif "Captures" in inst or "HashMap" in inst:
                status, why = None, "keyed/captures index"
            else:
                ok, why = panic.t1_index(zc.get(fn), s)
                status = "T1" if ok else None
        elif s.kind == "seqop":
            ok, why = panic.t1_seqop(zc.get(fn), s)
            status = "T1" if ok else None
        elif s.kind == "refcell":
            ok, why = _refcell(prog, s)
            status = "T2d" if ok else None
        elif s.kind == "extapi" and s.term.j.get("callee_name") == "get_or_init":
            ok, why = _oncecell(prog, s)
            status = "T2d" if ok else None
        else:
            r = panic.t2(s)
            if r:
                status, why = r
            elif s.kind == "unwrap":
                try:
                    okp, whyp = _prefix_count_unwrap(prog, s)
                except Exception:
                    okp, whyp = False, ""
                if okp:
                    status, why = "T1(S1)", whyp
                elif whyp:
                    why = whyp
        s.status = status or "open"
        s.detail = why
    # T3: reviewed entries. An entry is matched to a site of the same function, kind and description; the ordinal in
    # the key is only a tie-breaker (it shifts when sites are added or removed before it): first the exact key, then
    # any unused entry of the same base whose machine-checked side condition holds at the site.
    def base(k):
        # closure numbers shift as well when a closure is added or removed before this one
        return re.sub(r"\{closure#\d+\}", "{closure}", re.sub(r"#\d+$", "", k))
    by_base = {}
    for k in t3:
        by_base.setdefault(base(k), []).append(k)
    open_sites = [s for s in sites if s.status == "open"]
    for exact in (True, False):
        for s in open_sites:
            if s.status != "open":
                continue
            cands = [s.key] if exact else [k for k in by_base.get(base(s.key), []) if k not in used_t3]
            if not exact and not cands and "::{closure}" in base(s.key):
                # the construct moved into a closure of the function the entry names (`x.and_then(|c| c[2]..)`): same
                # construct, its side condition is re-checked in the closure
                cands = [k for k in by_base.get(base(s.key).replace("::{closure}", ""), []) if k not in used_t3]
            if not exact and not cands and "Index<RangeTo<usize>>>::index" in s.key:
                # `s[..n]` written for `s[0..n]`: the same slice; the reviewed entry of the `0..n` form covers it
                alt_ = base(s.key).replace("Index<RangeTo<usize>>>::index", "Index<Range<usize>>>::index")
                for k_ in by_base.get(alt_, []):
                    if k_ not in used_t3 and "[0.." in str(t3.get(k_, {}).get("reason", "")):
                        cands.append(k_)
            if not exact and not cands and "|assert:overflow_neg|overflow_neg" in s.key:
                # `-(d.as_secs() as i64)` written for `d.as_secs() as i64 * -1`: the same value, overflowing for the same single
                # operand (i64::MIN); the reviewed entry of the multiplication covers it when the operand is that cast
                try:
                    m_ = s.term.j.get("msg", {})
                    from .model import Operand as _Operand
                    oo_ = prim.origin_of_operand(s.fn, _Operand(m_["a"])).strip()
                    is_secs = oo_.k == "cast" and str(oo_.a) == "i64" and oo_.kids and oo_.kids[0].strip().k == "call" and oo_.kids[0].strip().a["name"] == "as_secs"
                except Exception:
                    is_secs = False
                if is_secs:
                    alt_ = base(s.key).replace("|assert:overflow_neg|overflow_neg", "|assert:overflow|overflow:Mul")
                    cands = [k for k in by_base.get(alt_, []) if k not in used_t3]
            last = None
            for k in cands:
                e = t3.get(k)
                if e is None or k in used_t3:
                    continue
                ok, ctext = panic.check_condition(prog, s, e.get("condition", {"type": "none"}))
                if ok:
                    used_t3.add(k)
                    s.status = "T3"
                    s.detail = "%s [%s]" % (e["reason"], ctext)
                    break
                last = "reviewed entry's side condition no longer holds: %s (was: %s)" % (ctext, e["reason"])
            if s.status == "open" and last and not exact:
                s.detail = (s.detail + " / " if s.detail else "") + last
    for s in sites:
        fn = s.fn
        status = None if s.status == "open" else s.status
        why = s.detail
        counts[s.status] = counts.get(s.status, 0) + 1
        short_key = s.key.replace("findutils::find::matchers::", "").replace("findutils::find::", "").replace("findutils::xargs::", "x::")
        ctx.ob(rule, "site:" + short_key, status is not None,
               ("%s — discharged by %s: %s" % (s.desc, status, why)) if status else
               "cannot prove panic-free: %s in %s (%s). For a universally quantified 'never panics' every panic-capable construct needs a proof (zone/interval), a category (output failure, constants, clock) or a reviewed entry in tables/panic_obligations.json" % (s.desc, fn.path, why or "no tier applies"),
               fn=fn, where=prim.site(fn, s.bb), how=status or "undischarged", nontrivial=status not in (None, "T2a"))
    # declared preconditions hold at every call site
    for callee, f, b, ok, text in panic.check_preconditions(prog, zc, pre):
        ctx.ob(rule, "precondition:%s@%s" % (prim.short(callee), prim.short(f.path) if f else "-"), ok, "precondition of %s: %s" % (callee, text), fn=f, where=prim.site(f, b) if f is not None and b is not None else None, how="zone at the call site")
    stale = sorted(k for k in t3 if k not in used_t3 and any(k.startswith(p.path + "|") for p in fns))
    ctx.note("%s panic audit: %d sites in %d functions: %s; stale table entries: %s" % (label, len(sites), len(fns), counts, stale))
    return sites, counts
