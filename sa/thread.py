"""Jump threading at the return join of a spliced helper.

When a new helper with several outcomes (`Ok(n)` on one path, `Err(e)?` on another) is spliced into its caller
(sa/inline.py), its single MIR return block becomes a join: the outcomes meet in one block and are told apart again a few
statements later by the caller (`helper()?`, `match helper() { Ok(..) => .., Err(..) => .. }`). Before the extraction the
two paths never met. A path-insensitive analysis (the zone interpreter, must-pass, dominance) loses at that join what it
knew on each side; threading restores the shape the code had: for a predecessor of the join on which the variant of the
helper's result is a literal (`Ok{..}`, `Err{..}`, `Some{..}`, `None`, or the value of `from_residual`), the short chain
from the join to the switch that discriminates the result is cloned for that predecessor with the switch resolved.

Bounds (kept deliberately narrow): the join must be a block spliced from a helper; the chain may be at most MAX_CHAIN
blocks long and may contain only moves, discriminant reads, `Try::branch` calls, drops and gotos (no construct that can
panic or has an effect of its own is duplicated); everything else is left as it is."""
import copy

MAX_CHAIN = 6
MAX_BACK = 4

_SUCCESS = {("std::result::Result", "Ok"): ("R", 0), ("std::result::Result", "Err"): ("R", 1),
            ("std::option::Option", "Some"): ("O", 1), ("std::option::Option", "None"): ("O", 0)}


def _plain_local(pl):
    return isinstance(pl, dict) and isinstance(pl.get("l"), int) and not pl.get("p")


def _op_local(op):
    pl = op.get("move") or op.get("copy") if isinstance(op, dict) else None
    return pl["l"] if _plain_local(pl) else None


def _succs(t):
    out = []
    for k in ("target", "otherwise"):
        if isinstance(t.get(k), int):
            out.append(t[k])
    for v, b in t.get("arms", []):
        out.append(b)
    return out


def _residual_kind(t):
    inst = (t.get("callee_inst") or "").lstrip("<")
    if inst.startswith(("std::result::Result", "core::result::Result")):
        return ("R", 1)
    if inst.startswith(("std::option::Option", "core::option::Option")):
        return ("O", 0)
    return None


def _known_at_end(cj, preds, p, x, depth=MAX_BACK + 2):
    """(family, variant index) of local x at the end of block p; where several paths meet before p they must agree"""
    if depth < 0:
        return None
    b = cj["blocks"][p]
    t = b["term"]
    if t.get("k") == "call" and _plain_local(t.get("dest")) and t["dest"]["l"] == x:
        if t.get("callee_name") == "from_residual":
            return _residual_kind(t)
        return None
    for s in reversed(b["stmts"]):
        lhs = s.get("lhs")
        if s.get("k") == "assign" and isinstance(lhs, dict) and lhs.get("l") == x:
            if lhs.get("p"):
                return None
            rv = s.get("rv", {})
            if rv.get("k") == "agg" and rv.get("ak") == "adt":
                return _SUCCESS.get((rv.get("adt"), rv.get("variant")))
            return None
    ps = preds.get(p, [])
    if not ps or len(ps) > 6:
        return None
    vals = set()
    for q in ps:
        if q == p:
            return None
        v = _known_at_end(cj, preds, q, x, depth - 1)
        if v is None:
            return None
        vals.add(v)
    return vals.pop() if len(vals) == 1 else None


def _walk_chain(cj, j, known0):
    """follow the chain from block j with the knowledge {local: (family, idx)}; returns (blocks visited, decided target) or None"""
    known = dict(known0)
    ints = {}
    visited = []
    cur = j
    for _ in range(MAX_CHAIN):
        if cur in visited:
            return None
        visited.append(cur)
        b = cj["blocks"][cur]
        for s in b["stmts"]:
            k = s.get("k")
            if k in ("storage_live", "storage_dead", "nop", "fake_read", "retag", "coverage", "ascribe"):
                continue
            if k != "assign":
                if k in ("set_discr", "deinit", "intrinsic"):
                    return None
                continue
            lhs = s.get("lhs")
            rv = s.get("rv", {})
            if not _plain_local(lhs):
                return None
            L = lhs["l"]
            if rv.get("k") == "use":
                m = _op_local(rv.get("a", {}))
                if m is not None and m in known:
                    known[L] = known[m]
                    ints.pop(L, None)
                    continue
                if m is not None and m in ints:
                    ints[L] = ints[m]
                    known.pop(L, None)
                    continue
                if "const" in rv.get("a", {}) or m is not None:
                    known.pop(L, None)
                    ints.pop(L, None)
                    continue
                return None
            if rv.get("k") == "discr":
                pl = rv.get("p")
                if _plain_local(pl) and pl["l"] in known:
                    ints[L] = known[pl["l"]][1]
                    known.pop(L, None)
                    continue
                return None
            return None          # anything else is not duplicated
        t = b["term"]
        k = t.get("k")
        if k == "goto":
            cur = t["target"]
            continue
        if k == "drop":
            if not isinstance(t.get("target"), int):
                return None
            cur = t["target"]
            continue
        if k == "call":
            if t.get("callee_name") == "branch" and "Try" in (t.get("callee") or "") and len(t.get("args", [])) == 1 and _plain_local(t.get("dest")) and isinstance(t.get("target"), int):
                m = _op_local(t["args"][0])
                if m is not None and m in known:
                    fam, idx = known[m]
                    success = (fam == "R" and idx == 0) or (fam == "O" and idx == 1)
                    known[t["dest"]["l"]] = ("C", 0 if success else 1)
                    cur = t["target"]
                    continue
            return None
        if k == "switch":
            m = _op_local(t.get("discr", {}))
            if m is not None and m in ints:
                v = ints[m]
                tgt = next((bb for val, bb in t.get("arms", []) if val == v), t.get("otherwise"))
                return visited, tgt
            return None
        return None
    return None


def run_function(cj):
    """thread the return joins of spliced helpers in one function JSON (in place); returns the number of threaded edges"""
    n = 0
    for _ in range(400):
        preds = {}
        for i, b in enumerate(cj["blocks"]):
            for s in _succs(b["term"]):
                preds.setdefault(s, []).append(i)
        done = False
        for j, b in enumerate(cj["blocks"]):
            if not b.get("inlined_from") or b.get("thread_clone"):
                continue
            ps = preds.get(j, [])
            if not ps:
                continue
            # (also a single remaining predecessor is threaded: the switch behind the join is then decided for it too)
            # the result local: what the join block moves into the caller's destination (`dest = move _0'`)
            rets = [s for s in b["stmts"] if s.get("inlined_return")]
            if not rets:
                continue
            x = _op_local(rets[-1].get("rv", {}).get("a", {}))
            if x is None:
                continue
            for p in ps:
                pt = cj["blocks"][p]["term"]
                if pt.get("k") not in ("goto", "call", "drop") or pt.get("target") != j:
                    continue
                kv = _known_at_end(cj, preds, p, x)
                if kv is None:
                    continue
                res = _walk_chain(cj, j, {x: kv})
                if res is None:
                    continue
                visited, tgt = res
                base = len(cj["blocks"])
                remap = {old: base + k for k, old in enumerate(visited)}
                for k, old in enumerate(visited):
                    nb = copy.deepcopy(cj["blocks"][old])
                    nb["thread_clone"] = old
                    t = nb["term"]
                    if k == len(visited) - 1:
                        nb["term"] = {"k": "goto", "target": tgt, "sp": t.get("sp"), "threaded_switch": True}
                    else:
                        if isinstance(t.get("target"), int) and t["target"] in remap:
                            t["target"] = remap[t["target"]]
                    cj["blocks"].append(nb)
                pt["target"] = remap[j]
                n += 1
                done = True
                break
            if done:
                break
        if not done:
            break
    if n:
        cj["threaded"] = cj.get("threaded", 0) + n
        # a join all of whose predecessors were threaded away is dead: its assignments must not count as definitions
        seen = {0}
        st = [0]
        while st:
            b = st.pop()
            t = cj["blocks"][b]["term"]
            nx = _succs(t)
            for k in ("unwind", "cleanup"):
                if isinstance(t.get(k), int):
                    nx.append(t[k])
            for s in nx:
                if s not in seen and 0 <= s < len(cj["blocks"]):
                    seen.add(s)
                    st.append(s)
        for i, b in enumerate(cj["blocks"]):
            if i not in seen and (b.get("inlined_from") or b.get("thread_clone") is not None or True) and b["term"].get("k") != "unreachable":
                if b.get("stmts") or b["term"].get("k") in ("goto", "call", "switch", "drop"):
                    b["stmts"] = []
                    b["term"] = {"k": "unreachable", "sp": b["term"].get("sp"), "dead_after_threading": True}
    return n


def fold_known_switches(cj):
    """A switch on the discriminant of a local that has exactly one definition in the whole function, a literal variant
    (`Some(x)`, `None`, `Ok(..)`, any enum variant) — typically the argument a spliced helper was called with
    (`run_pending(Some(dir), io)` / `run_pending(None, io)`) — goes one way only: it becomes a goto, and the other side is
    unreachable as it is in the program. Looks through plain moves of single-definition locals. Returns the number folded."""
    blocks = cj["blocks"]
    defs, tainted = {}, set()
    for bi, b in enumerate(blocks):
        for si, s in enumerate(b["stmts"]):
            if s.get("k") != "assign":
                continue
            lhs = s.get("lhs") or {}
            if lhs.get("p"):
                tainted.add(lhs.get("l"))
            else:
                defs.setdefault(lhs.get("l"), []).append(s)
            rv = s.get("rv") or {}
            if rv.get("k") in ("ref", "rawptr") and rv.get("bk") != "shared" and isinstance(rv.get("p"), dict) and not str(rv.get("rk", "")).startswith("Fake"):
                tainted.add(rv["p"].get("l"))
        t = b["term"]
        if t.get("k") == "call" and isinstance(t.get("dest"), dict):
            if t["dest"].get("p"):
                tainted.add(t["dest"].get("l"))
            else:
                defs.setdefault(t["dest"].get("l"), []).append(None)
    argc = cj.get("body", {}).get("arg_count", 0)

    def variant_of(l, hops=6):
        while hops > 0:
            hops -= 1
            if l is None or l in tainted or l <= argc:
                return None
            ds = defs.get(l, [])
            if len(ds) != 1 or ds[0] is None:
                return None
            rv = ds[0].get("rv") or {}
            if rv.get("k") == "agg" and rv.get("ak") == "adt" and isinstance(rv.get("vidx"), int):
                return rv["vidx"]
            if rv.get("k") == "use":
                pl = (rv.get("a") or {}).get("move") or (rv.get("a") or {}).get("copy")
                if _plain_local(pl):
                    l = pl["l"]
                    continue
            return None
        return None

    n = 0
    for b in blocks:
        t = b["term"]
        if t.get("k") != "switch":
            continue
        d = _op_local(t.get("discr", {}))
        if d is None:
            continue
        # the discriminant read: in this block, `d = discriminant(P)`
        src = None
        for s in reversed(b["stmts"]):
            if s.get("k") == "assign" and (s.get("lhs") or {}).get("l") == d and not (s.get("lhs") or {}).get("p"):
                rv = s.get("rv") or {}
                if rv.get("k") == "discr" and _plain_local(rv.get("p")):
                    src = rv["p"]["l"]
                break
        if src is None:
            continue
        v = variant_of(src)
        if v is None:
            continue
        tgt = next((bb for val, bb in t.get("arms", []) if val == v), t.get("otherwise"))
        if not isinstance(tgt, int):
            continue
        b["term"] = {"k": "goto", "target": tgt, "sp": t.get("sp"), "folded_switch": True}
        n += 1
    if n:
        cj["folded"] = cj.get("folded", 0) + n
    return n
