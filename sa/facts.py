"""Fact extraction (runs the rustc_private driver over /repo) and the in-memory program model."""
import fcntl
import hashlib
import json
import os
import shutil
import subprocess
import sys
import time

VERIF = os.path.dirname(os.path.dirname(os.path.abspath(__file__)))
REPO = os.environ.get("VERIF_REPO", "/repo")
WORK = os.path.join(VERIF, ".work")
DRIVER_DIR = os.path.join(VERIF, "driver")
DRIVER_BIN = os.path.join(DRIVER_DIR, "target", "debug", "findfacts")
EXPECTED_UNITS = ["findutils-Rlib", "find-Executable", "xargs-Executable", "testing_commandline-Executable"]


class FrameworkError(Exception):
    pass


def _sysroot():
    return subprocess.check_output(["rustc", "+nightly", "--print", "sysroot"], text=True).strip()


def build_driver(force=False):
    if os.path.exists(DRIVER_BIN) and not force:
        # rebuild if sources are newer
        src_m = max(os.path.getmtime(os.path.join(DRIVER_DIR, "src", f)) for f in os.listdir(os.path.join(DRIVER_DIR, "src")))
        if os.path.getmtime(DRIVER_BIN) >= src_m:
            return
    env = dict(os.environ, CARGO_NET_OFFLINE="true")
    r = subprocess.run(["cargo", "build", "--offline"], cwd=DRIVER_DIR, env=env, capture_output=True, text=True)
    if r.returncode != 0:
        raise FrameworkError("driver build failed:\n" + r.stderr[-4000:])


def tree_hash(repo=REPO):
    h = hashlib.sha256()
    files = []
    for root, dirs, fs in os.walk(os.path.join(repo, "src")):
        dirs.sort()
        for f in sorted(fs):
            files.append(os.path.join(root, f))
    for f in ("Cargo.toml", "Cargo.lock", "build.rs"):
        p = os.path.join(repo, f)
        if os.path.exists(p):
            files.append(p)
    for p in files:
        h.update(os.path.relpath(p, repo).encode())
        h.update(b"\0")
        with open(p, "rb") as fh:
            h.update(fh.read())
        h.update(b"\0")
    with open(DRIVER_BIN, "rb") as fh:
        h.update(hashlib.sha256(fh.read()).digest())
    return h.hexdigest()[:24]


def ensure_facts(repo=REPO, verbose=False):
    """Returns the directory holding the fact files for the current tree of `repo`."""
    os.makedirs(WORK, exist_ok=True)
    lock = open(os.path.join(WORK, "lock"), "w")
    fcntl.flock(lock, fcntl.LOCK_EX)
    try:
        build_driver()
        key = tree_hash(repo)
        if repo != REPO:
            key = "x" + hashlib.sha256(repo.encode()).hexdigest()[:6] + key
        out = os.path.join(WORK, "facts", key)
        done = os.path.join(out, "DONE")
        if os.path.exists(done):
            try:
                os.utime(out)          # most recently used: the pruning below goes by age
            except OSError:
                pass
            return out
        if os.path.exists(out):
            shutil.rmtree(out)
        os.makedirs(out)
        target = os.path.join(WORK, "target")
        # cargo's freshness cache would skip the wrapper: drop the members' fingerprints
        fp = os.path.join(target, "debug", ".fingerprint")
        if os.path.isdir(fp):
            for d in os.listdir(fp):
                if d.startswith("findutils-"):
                    shutil.rmtree(os.path.join(fp, d), ignore_errors=True)
        nonce = "%d-%d" % (os.getpid(), time.time_ns())
        env = dict(os.environ)
        env.update(
            FINDFACTS_OUT=out,
            FINDFACTS_NONCE=nonce,
            RUSTFLAGS="-Zmir-opt-level=0 -Awarnings",
            RUSTC_WORKSPACE_WRAPPER=DRIVER_BIN,
            CARGO_TARGET_DIR=target,
            CARGO_NET_OFFLINE="true",
            LD_LIBRARY_PATH=os.path.join(_sysroot(), "lib") + ":" + os.environ.get("LD_LIBRARY_PATH", ""),
        )
        env.pop("RUSTC_WRAPPER", None)
        cmd = ["cargo", "+nightly", "check", "--offline", "--locked", "--lib", "--bins",
               "--manifest-path", os.path.join(repo, "Cargo.toml")]
        t0 = time.time()
        r = subprocess.run(cmd, env=env, capture_output=True, text=True)
        if verbose:
            sys.stderr.write(r.stderr[-2000:])
        if r.returncode != 0:
            shutil.rmtree(out, ignore_errors=True)
            raise FrameworkError("cargo check of %s failed (the tree does not compile?):\n%s" % (repo, r.stderr[-6000:]))
        for u in EXPECTED_UNITS:
            p = os.path.join(out, u + ".jsonl")
            if not os.path.exists(p):
                raise FrameworkError("fact file missing after extraction: " + p)
            with open(p) as fh:
                hdr = json.loads(fh.readline())
            if hdr.get("nonce") != nonce:
                raise FrameworkError("stale fact file (nonce mismatch): " + p)
        with open(done, "w") as fh:
            json.dump({"nonce": nonce, "key": key, "wall_s": time.time() - t0, "repo": repo}, fh)
        # keep the cache small
        base = os.path.join(WORK, "facts")
        ents = sorted((os.path.getmtime(os.path.join(base, d)), d) for d in os.listdir(base))
        # (a directory handed out earlier may still be read by a parallel worker of the self-test corpus: only what has not
        #  been used for a while goes, and never less than the 40 most recent — about 6 MB each)
        now = time.time()
        for mt, d in ents[:-40]:
            if now - mt > 1800:
                shutil.rmtree(os.path.join(base, d), ignore_errors=True)
        return out
    finally:
        fcntl.flock(lock, fcntl.LOCK_UN)
        lock.close()
